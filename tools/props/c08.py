"""C08 — Storage reads return the last write to the same slot; no aliasing.

Real code under test (sevm.py): StorageData, KeccakRegistry / Exec.sha3s / Exec.storages, SolidityStorage and GenericStorage
decode/init/load/store, Exec.select, normalize, sha3_data / assume_sha3_distinct, fresh_transient_storage + run_message;
(utils.py) OffsetMap, mk_precomputed_keccak_registry, match_dynamic_array_overflow_condition; (hashes.py) the tables.
Model: lean/HalmosVerif/Model/Storage.lean (+ Model/OffsetMap.lean), drivers Driver/Storage.lean, Driver/OffsetMap.lean;
Spec: the flat storage of lean/HalmosVerif/Spec/Evm.lean (Driver/Evm.lean) with the real Keccak (Spec/Keccak.lean).

Parts of `correspond`:
  1. tables / OffsetMap / Keccak probes (tools/props/offsetmap_probe.py, keccak_probe.py);
  2. directed corpus on the real SEVM (bucket-boundary constants, the same location written three ways, large constant
     offsets, precomputed-table sweep, two transactions for transient storage);
  3. generated programs of SSTORE/SLOAD/TSTORE/TLOAD over location expressions of the layout grammar, loaded values
     returned as output, both storage layouts, compared word by word with the reference EVM on small colliding key
     domains, random inputs, guard constants and solver models of each path;
  4. the Lean model against the real `decode` on the location terms recorded in the trace of every path, and the model's
     init/load/store/select against the values the SEVM loaded (`hist`);
  5. direct calls of the real decoders on hand-built terms (n-ary additions, operand orders, ambiguous sums).
"""
from __future__ import annotations

import ast
import json
import time
from dataclasses import dataclass, field
from pathlib import Path as FsPath

from vlib.runner import REPO, VERIF

ID = "C08"
EXTRACTORS = ["hashtables"]
LEAN_MODULES = (["HalmosVerif.Props.C08", "HalmosVerif.Props.C08Tables"]
                + [f"HalmosVerif.Props.C08Tables{c}" for c in "ABCDEF"]
                + ["HalmosVerif.Props.C08OffsetMap", "HalmosVerif.Props.KeccakAgree"])
RULE = ("programs = sequences of SSTORE/SLOAD/TSTORE/TLOAD (+ guards on calldata) over locations drawn from a random typed "
        "Solidity layout (scalars, mappings with 256-bit and packed keys, nested mappings, dynamic arrays, structs), each "
        "location rendered as runtime hash / PUSH32 constant (+offset) / reordered addition with concrete and symbolic "
        "keys and indices; every program runs on the real SEVM in both storage layouts; inputs = {0,1,2}^n, guard "
        "constants, random words, a solver model of every path; every returned word is compared with the Lean reference "
        "EVM (real Keccak); every location term recorded in the path traces is decoded by the real decoder and by the Lean "
        "model and compared by evaluation; a case = (program, layout, input) — all execute storage operations")
TRUSTED = ["Spec.Evm (Lean reference interpreter, flat storage map) with Spec.Keccak validated against eth_hash on every run",
           "z3 as a search aid for inputs (every input is re-validated by evaluating the path conditions with vlib.zeval)",
           "vlib.zeval (independent evaluator of z3 terms under the standard interpretation f_sha3_N = Keccak-256)"]
ASSUMPTIONS = ["HashIdeal: Keccak-256 is injective across sizes on the hashed inputs, its outputs lie in (0, 2^256 - 2^64], and "
               "hash + i (i < 2^64) ranges are disjoint from each other and from small slots (what halmos adds to the path)",
               "locations follow a Solidity typing: one (slot, num_keys, size_keys) cell is used with one shape only "
               "(theorem decode_cross_shape_cex shows the decoded tuple forgets the shape otherwise)",
               "a hash constant that is not in the precomputed tables is used only after the same hash was computed at run "
               "time on the path (otherwise it is an ordinary literal slot for halmos)",
               "`normalize` and z3's `simplify` are meaning-preserving (model parameters)"]

KEY_OM = "C08:offsetmap-bucket-boundary"
KEY_17573 = "C08:offsetmap-bucket-boundary:sevm-array-slot-17573"
KEY_143 = "C08:offsetmap-bucket-boundary:sevm-array-slot-143-index-193"
KEY_SWEEP = "C08:offsetmap-bucket-boundary:sevm-precomputed-constant-sweep"
KEY_BIGOFF = "C08:offsetmap-offset-limit:sevm-array-constant-index-200000"
KEY_CONCAT = "C08:generic-layout-masked-index-folded-into-concat:sevm-array-slot-%d"
KEY_NEGGEN = "C08:generic-layout-negative-delta-zero-extended:sevm-array-hash-minus-1-plus-index"
KEY_DOWN = "C08:generic-layout-unrecognised-hash-constant-plus-index:sevm-array-downward-bucket-crossing"
KEY_NESTPACK = "C08:solidity-layout-nested-packed-keys-same-total-width-share-cell:sevm-string-string-mapping"
KEY_NESTPACK_G = "C08:generic-layout-nested-packed-keys-same-total-width-share-cell:sevm-string-string-mapping"
KEY_GNEST = "C08:generic-layout-concrete-packed-preimage-with-hashed-base-not-decoded:sevm-bytes1-key-in-array-element"
GENERIC_SPLIT_OK = None    # does GenericStorage.decode split a fully concrete preimage key ‖ base and decode the base? set by correspond
KEY_LARGE = "C08:large-preimage-hash-not-tracked:sevm-bytes-key-preimage-over-128-bytes"
REPORT_LARGE_PREIMAGE = True    # sha3_data's documented "skip tracking hashes with large preimages" breaks read-after-write: reported (known finding)
KEY_TAXIOM = "C08:solidity-layout-transient-emptiness-axiom-constrains-symbolic-persistent-storage:sevm-mapping"
KEY_PACKED = "C08:packed-key-concrete-preimage-decoded-as-scalar:sevm-bytes1-key"

W = 1 << 256
SCRATCH = 0x00
OUT = 0x200
CDBUF = 0x800
KEYBUF = 0x500      # long (bytes / string) mapping keys are laid out here before hashing
ACCOUNTS = {"A": 0x1000, "B": 0x2000, "C": 0x3000}     # A = evmdiff.MAIN


# ======================================================================================================================
# location grammar (python side: generation, emission, and the flat-slot meaning with the real Keccak)
# ======================================================================================================================
# expressions:  ("c", n) | ("a", i) | ("and", e, m) | ("mul", e, c) | ("addc", e, c)
# locations:    ("lit", n) | ("map", key_expr, base_loc, key_bytes) | ("arr", base_loc) | ("off", loc, idx_expr, swapped)
#               ("const", loc, delta)   the PUSH32 constant  slot_of(loc) + delta   (loc must be input-independent)

def keccak(b: bytes) -> int:
    from vlib.zeval import keccak as k

    return k(b)


def ev_expr(e, args):
    t = e[0]
    if t == "c":
        return e[1] % W
    if t == "words":    # ("words", key_bytes, (w0, w1, …)): a bytes/string key laid out in memory, the last word possibly partial
        kb, ws = e[1], e[2]
        out = b""
        for i, w in enumerate(ws):
            r = min(32, kb - 32 * i)
            out += (ev_expr(w, args) % (1 << (8 * r))).to_bytes(r, "big")
        return int.from_bytes(out, "big")
    if t == "a":
        return args[e[1]] % W
    if t == "and":
        return ev_expr(e[1], args) & e[2]
    if t == "mul":
        return (ev_expr(e[1], args) * e[2]) % W
    if t == "addc":
        return (ev_expr(e[1], args) + e[2]) % W
    if t == "shl":      # ("shl", e, k): e << k — a left-aligned bytesN / packed high field: symbolic high bits, concrete low tail
        return (ev_expr(e[1], args) << e[2]) % W
    if t == "or":       # ("or", e, c)
        return ev_expr(e[1], args) | (e[2] % W)
    if t == "sum":      # ("sum", e1, e2): e1 + e2
        return (ev_expr(e[1], args) + ev_expr(e[2], args)) % W
    if t == "split":    # ("split", e): the word e, written to memory with its low byte separately (only inside "words" keys)
        return ev_expr(e[1], args)
    raise ValueError(e)


def slot_of(loc, args):
    t = loc[0]
    if t == "lit":
        return loc[1] % W
    if t == "raw":      # a bare (symbolic) word used as the slot
        return ev_expr(loc[1], args)
    if t == "map":
        kb = loc[3]
        k = ev_expr(loc[1], args) % (1 << (8 * kb))
        return keccak(k.to_bytes(kb, "big") + slot_of(loc[2], args).to_bytes(32, "big"))
    if t == "arr":
        return keccak(slot_of(loc[1], args).to_bytes(32, "big"))
    if t == "off":
        return (slot_of(loc[1], args) + ev_expr(loc[2], args)) % W
    if t == "const":
        return (slot_of(loc[1], ()) + loc[2]) % W
    raise ValueError(loc)


def expr_symbolic(e):
    if e[0] == "words":
        return any(expr_symbolic(w) for w in e[2])
    if e[0] == "sum":
        return expr_symbolic(e[1]) or expr_symbolic(e[2])
    return e[0] == "a" or (e[0] in ("and", "mul", "addc", "shl", "or", "split") and expr_symbolic(e[1]))


def loc_symbolic(loc):
    t = loc[0]
    if t in ("lit", "const"):
        return False
    if t == "raw":
        return expr_symbolic(loc[1])
    if t == "map":
        return expr_symbolic(loc[1]) or loc_symbolic(loc[2])
    if t == "arr":
        return loc_symbolic(loc[1])
    return loc_symbolic(loc[1]) or expr_symbolic(loc[2])


def hashes_of(loc, out):
    """the concrete (input-independent) hashed nodes computed at run time by the emission of `loc`"""
    t = loc[0]
    if t == "map":
        hashes_of(loc[2], out)
        if not loc_symbolic(loc) and loc[3] + 32 <= 128:
            out.add(slot_of(loc, ()))
    elif t == "arr":
        hashes_of(loc[1], out)
        if not loc_symbolic(loc):
            out.add(slot_of(loc, ()))
    elif t == "off":
        hashes_of(loc[1], out)
    return out


def loc_kinds(loc, out):
    t = loc[0]
    if t == "lit":
        out.add("scalar")
    elif t == "raw":
        out.add("symbolic-slot")
    elif t == "map":
        out.add("mapping" if loc[3] == 32 else "packed-key")
        if loc[3] > 32:
            out.add(f"long-key-preimage-{loc[3] + 32}")
        if loc[2][0] != "lit":
            out.add("nested")
        loc_kinds(loc[2], out)
    elif t == "arr":
        out.add("array")
        if loc[1][0] != "lit":
            out.add("nested")
        loc_kinds(loc[1], out)
    elif t == "off":
        out.add("offset-swapped" if loc[3] else "offset")
        if loc[1][0] == "const" and loc[1][2] < 0 and expr_symbolic(loc[2]):
            out.add("below-hash+index")
        loc_kinds(loc[1], out)
    elif t == "const":
        out.add("push32-const" + ("+delta" if loc[2] > 0 else "-delta" if loc[2] < 0 else ""))
    return out


def emit_expr(e):
    t = e[0]
    if t == "c":
        return [("push", e[1] % W)]
    if t == "a":
        return [("push", 4 + 32 * e[1]), "CALLDATALOAD"]
    if t == "and":
        return emit_expr(e[1]) + [("push", e[2]), "AND"]
    if t == "mul":
        return emit_expr(e[1]) + [("push", e[2]), "MUL"]
    if t == "addc":
        return emit_expr(e[1]) + [("push", e[2]), "ADD"]
    if t == "shl":
        return emit_expr(e[1]) + [("push", e[2]), "SHL"]
    if t == "or":
        return emit_expr(e[1]) + [("push", e[2] % W), "OR"]
    if t == "sum":
        return emit_expr(e[1]) + emit_expr(e[2]) + ["ADD"]
    if t == "split":
        return emit_expr(e[1])
    raise ValueError(e)


def emit_loc(loc):
    t = loc[0]
    if t == "lit":
        return [("push", loc[1] % W)]
    if t == "raw":
        return emit_expr(loc[1])
    if t == "const":
        return [("push", slot_of(loc, ()), 32)]
    if t == "map":
        kb = loc[3]
        if loc[1][0] == "words":
            items = emit_loc(loc[2])
            for i, w in enumerate(loc[1][2]):
                r = min(32, kb - 32 * i)
                if w[0] == "split" and r == 32:
                    # the way solc lays out packed / ABI-encoded keys: the word, then its low byte once more with MSTORE8 — memory is
                    # unchanged, but the SEVM sees Concat(Extract(255, 8, w), Extract(7, 0, w)) (which `normalize` folds back)
                    items += emit_expr(w) + ["DUP1", ("push", KEYBUF + 32 * i), "MSTORE", ("push", KEYBUF + 32 * i + 31), "MSTORE8"]
                    continue
                items += emit_expr(w) + ([("push", 256 - 8 * r), "SHL"] if r < 32 else []) + [("push", KEYBUF + 32 * i), "MSTORE"]
            return items + [("push", KEYBUF + kb), "MSTORE", ("push", kb + 32), ("push", KEYBUF), "SHA3"]
        items = emit_loc(loc[2]) + emit_expr(loc[1])
        if kb == 32:
            return items + [("push", SCRATCH), "MSTORE", ("push", SCRATCH + 32), "MSTORE", ("push", 64), ("push", SCRATCH), "SHA3"]
        return items + [("push", 256 - 8 * kb), "SHL", ("push", SCRATCH), "MSTORE", ("push", SCRATCH + kb), "MSTORE",
                        ("push", kb + 32), ("push", SCRATCH), "SHA3"]
    if t == "arr":
        return emit_loc(loc[1]) + [("push", SCRATCH), "MSTORE", ("push", 32), ("push", SCRATCH), "SHA3"]
    if t == "off":
        if loc[3]:
            return emit_expr(loc[2]) + emit_loc(loc[1]) + ["ADD"]
        return emit_loc(loc[1]) + emit_expr(loc[2]) + ["ADD"]
    raise ValueError(loc)


@dataclass
class Prog:
    """stmts: ("sstore"|"tstore", loc, val_expr) | ("sload"|"tload", loc) | ("require_eq", expr, c) | ("require_lt", expr, c)"""
    stmts: list
    nargs: int
    name: str = ""
    meta: dict = field(default_factory=dict)

    def nloads(self):
        return (sum(1 for s in self.stmts if s[0] in ("sload", "tload")) + sum(s[2] for s in self.stmts if s[0] == "call")
                + sum(s[2] + 1 for s in self.stmts if s[0] == "callf"))

    def code(self):
        from vlib import asm

        items, k = [], 0
        for s in self.stmts:
            op = s[0]
            if op in ("sstore", "tstore"):
                items += emit_expr(s[2]) + emit_loc(s[1]) + ["SSTORE" if op == "sstore" else "TSTORE"]
            elif op in ("sload", "tload"):
                items += emit_loc(s[1]) + ["SLOAD" if op == "sload" else "TLOAD", ("push", OUT + 32 * k), "MSTORE"]
                k += 1
            elif op == "call":
                # CALL <account s[1]> forwarding the whole calldata; its s[2] returned words go to the output
                items += ["CALLDATASIZE", ("push", 0), ("push", CDBUF), "CALLDATACOPY",
                          ("push", 32 * s[2]), ("push", OUT + 32 * k), "CALLDATASIZE", ("push", CDBUF), ("push", 0), ("push", ACCOUNTS[s[1]]),
                          ("push", 0xFFFFFF), "CALL", "POP"]
                k += s[2]
            elif op == "callf":
                # like "call", and the success flag is an output word too (before the callee's words)
                items += ["CALLDATASIZE", ("push", 0), ("push", CDBUF), "CALLDATACOPY",
                          ("push", 32 * s[2]), ("push", OUT + 32 * (k + 1)), "CALLDATASIZE", ("push", CDBUF), ("push", 0), ("push", ACCOUNTS[s[1]]),
                          ("push", 0xFFFFFF), "CALL", ("push", OUT + 32 * k), "MSTORE"]
                k += s[2] + 1
            elif op == "revert_if_eq":
                lbl = asm.fresh("go")
                items += emit_expr(s[1]) + [("push", s[2]), "EQ", "ISZERO", ("ref", lbl), "JUMPI", ("push", 0), ("push", 0), "REVERT", ("label", lbl)]
            elif op == "revert_if_lt":
                lbl = asm.fresh("go")
                items += [("push", s[2])] + emit_expr(s[1]) + ["LT", "ISZERO", ("ref", lbl), "JUMPI", ("push", 0), ("push", 0), "REVERT", ("label", lbl)]
            elif op == "revert":
                items += [("push", 0), ("push", 0), "REVERT"]
            elif op == "branch_prefix":
                # if (u != 0) goto B;  if (x == c) goto A;  stop;  A: stop;  B: <the rest>
                # halmos explores the fall-through side first: the side B is a pending sibling while the other side
                # branches on x == c (and records x -> c in that path's concretization)
                la, lb = asm.fresh("A"), asm.fresh("B")
                items += emit_expr(s[1]) + [("ref", lb), "JUMPI"] + emit_expr(s[2]) + [("push", s[3]), "EQ", ("ref", la), "JUMPI", "STOP",
                                                                                      ("label", la), "STOP", ("label", lb)]
            elif op in ("require_eq", "require_lt"):
                lbl = asm.fresh("ok")
                cond = emit_expr(s[1]) + [("push", s[2]), "EQ"] if op == "require_eq" else [("push", s[2])] + emit_expr(s[1]) + ["LT"]
                items += cond + [("ref", lbl), "JUMPI", "STOP", ("label", lbl)]
            else:
                raise ValueError(s)
        items += [("push", 32 * k), ("push", OUT), "RETURN"]
        return asm.assemble(items)

    def kinds(self):
        out = set()
        for s in self.stmts:
            if s[0] in ("sstore", "sload", "tstore", "tload"):
                loc_kinds(s[1], out)
            if s[0] == "branch_prefix":
                out.add("branch-prefix")
            if s[0] in ("revert_if_eq", "revert_if_lt", "revert"):
                out.add("reverting-callee")
        return out

    def constants(self):
        out = set()
        for s in self.stmts:
            if s[0].startswith("require"):
                out |= {s[2], (s[2] + 1) % W, (s[2] - 1) % W}
            if s[0] == "branch_prefix":
                out |= {s[3], (s[3] + 1) % W, (s[3] - 1) % W}
            if s[0] in ("revert_if_eq", "revert_if_lt"):
                out |= {s[2], (s[2] - 1) % W}
        return out

    def describe(self):
        return {"name": self.name, "nargs": self.nargs, "stmts": json.loads(json.dumps(self.stmts)), "code": self.code().hex()}


# ---------------------------------------------------------------------------------------------------------------------
# random typed layouts and locations
# ---------------------------------------------------------------------------------------------------------------------
# 64 / 95 / 96: bytes keys with a 96 / 127 / 128-byte hash preimage.  Generated programs never use preimages > 128 bytes:
# that is the known finding KEY_LARGE, replayed by the directed corpus under its own key (so any other large-key anomaly fails)
KEY_BYTES = [32, 32, 32, 32, 32, 1, 4, 20, 31, 64, 95, 96]
CONCRETE_PACKED_OK = None      # does /repo split a fully concrete packed preimage (the repair of KEY_PACKED)? set by correspond


def gen_type(rng, depth):
    r = rng.random()
    if depth <= 0 or r < 0.3:
        return ("uint",)
    if r < 0.6:
        return ("map", rng.choice(KEY_BYTES), gen_type(rng, depth - 1))
    if r < 0.85:
        return ("arr", gen_type(rng, depth - 1))
    return ("struct", [gen_type(rng, depth - 1) for _ in range(rng.randrange(2, 4))])


def type_has_packed(ty):
    if ty[0] == "map":
        return ty[1] != 32 or type_has_packed(ty[2])
    if ty[0] == "arr":
        return type_has_packed(ty[1])
    if ty[0] == "struct":
        return any(type_has_packed(m) for m in ty[1])
    return False


def type_size(ty):
    if ty[0] == "struct":
        return sum(type_size(m) for m in ty[1])
    return 1


class LocGen:
    def __init__(self, rng, nargs, pool):
        self.rng, self.nargs, self.pool = rng, nargs, pool
        self.layout = []          # (root slot, type)
        slot = rng.choice([0, 0, 1, 3])
        for _ in range(rng.randrange(1, 4)):
            ty = gen_type(rng, 3)
            self.layout.append((slot, ty))
            slot += type_size(ty) + rng.choice([0, 0, 2])
        self.registered = set()   # concrete hashes computed at run time so far (straight-line prefix)
        # large constant indices are only safe where no equality on the path can pin the symbols of the base: a pinned base makes the
        # hash concrete and hash + large constant folds into a literal beyond OffsetMap's reach (known finding KEY_BIGOFF)
        self.allow_big = True

    def key_expr(self, small=True):
        r = self.rng
        k = r.random()
        if self.nargs and r.random() < 0.12:      # a partly symbolic key word: left-aligned bytesN / packed high field
            x = ("a", r.randrange(self.nargs))
            j = r.random()
            if j < 0.5:
                return ("shl", x, r.choice([8, 96, 128, 248]))
            if j < 0.8:
                return ("and", x, W - (1 << (256 - 8 * r.choice([1, 4, 20]))))
            return ("or", ("shl", x, 96), r.choice([1, 5]))
        if k < 0.45 and self.nargs:
            return ("a", r.randrange(self.nargs))
        if k < 0.55 and self.nargs:
            return ("and", ("a", r.randrange(self.nargs)), r.choice([1, 3, 0xFF]))
        if k < 0.9:
            return ("c", r.choice([0, 1, 2, 3]))
        return ("c", r.choice(self.pool) % W)

    def idx_expr(self, big_ok=True):
        """array index; constants that are added to a *concrete* hash stay small: the EVM code folds hash + constant into
        one literal, which reverse_lookup recognises only inside the 2^16 bucket of the hash (known findings
        KEY_OM / KEY_BIGOFF, replayed by the directed corpus)"""
        r = self.rng
        k = r.random()
        if not (big_ok and self.allow_big) and k >= 0.92:
            k = 0.6
        if k < 0.4 and self.nargs:
            return ("and", ("a", r.randrange(self.nargs)), r.choice([3, 0xFF, 0xFFFF]))
        if k < 0.5 and self.nargs:
            return ("a", r.randrange(self.nargs))
        if k < 0.92:
            return ("c", r.choice([0, 1, 2, 3, 5]))
        return ("c", r.choice([0xFFFF, 0x10000, 70000, (1 << 64) - 1]))

    def add_off(self, cur, e, const_ok=True):
        """cur + e, rendered as an ADD (either operand order) — a literal base folds into a new literal"""
        if cur[0] == "lit":
            if e[0] == "c":
                return ("lit", (cur[1] + e[1]) % W)
            return None
        if e == ("c", 0) and self.rng.random() < 0.7:
            return cur
        return ("off", cur, e, self.rng.random() < 0.35)

    def walk(self, cur, ty):
        r = self.rng
        while True:
            t = ty[0]
            if t == "uint":
                return cur
            if t == "map":
                key = self.key_expr()
                if ty[1] > 32:
                    nw = (ty[1] + 31) // 32
                    ws = tuple(("a", r.randrange(self.nargs)) if (self.nargs and r.random() < 0.5) else ("c", r.choice([0, 1, 2])) for _ in range(nw))
                    if not CONCRETE_PACKED_OK and self.nargs and not any(expr_symbolic(w) for w in ws):
                        ws = (("a", r.randrange(self.nargs)),) + ws[1:]
                    if self.nargs >= 2 and r.random() < 0.3:
                        # one full key word computed as a sum and written with its low byte separately (MSTORE, then MSTORE8), the way
                        # solc lays out packed / ABI-encoded keys: the preimage holds Concat(Extract(255,8,k), Extract(7,0,·)+Extract(7,0,·))
                        j = r.randrange(ty[1] // 32) if ty[1] >= 32 else 0
                        i1, i2 = r.sample(range(self.nargs), 2)
                        ws = ws[:j] + (("split", ("sum", ("a", i1), ("a", i2))),) + ws[j + 1:]
                    key = ("words", ty[1], ws)
                elif ty[1] != 32 and not expr_symbolic(key) and self.nargs:
                    # a packed key whose whole preimage is concrete: known findings KEY_PACKED (solidity layout, repaired in /repo) and
                    # KEY_GNEST (generic layout, hashed base), replayed by the directed corpus: generated packed keys are symbolic
                    key = ("a", r.randrange(self.nargs))
                key = self.key_tail_rule(key, cur, ty[1])
                cur = ("map", key, cur, ty[1])
                ty = ty[2]
            elif t == "arr":
                elem = ty[1]
                idx = self.idx_expr(big_ok=loc_symbolic(cur))
                cur = ("arr", cur)
                if idx[0] == "and" and not loc_symbolic(cur):
                    # hash constant with zero low bits + masked index is rewritten into Concat(hash[255:k], index[k-1:0]) before
                    # it reaches decode (known finding KEY_CONCAT, replayed by the directed corpus): avoid that combination
                    bits = (idx[2] * type_size(elem)).bit_length()
                    if slot_of(cur, ()) & ((1 << bits) - 1) == 0:
                        idx = idx[1]
                sz = type_size(elem)
                if sz > 1:
                    idx = ("c", idx[1] * sz) if idx[0] == "c" else ("mul", idx, sz)
                cur = self.add_off(cur, idx)
                ty = elem
            elif t == "struct":
                j = r.randrange(len(ty[1]))
                offv = sum(type_size(m) for m in ty[1][:j])
                nxt = self.add_off(cur, ("c", offv))
                if nxt is None:
                    return cur
                cur, ty = nxt, ty[1][j]
            # stop early on an inner node sometimes (e.g. the length slot of an array, the slot of a mapping itself)
            if r.random() < 0.08:
                return cur

    def location(self):
        slot, ty = self.rng.choice(self.layout)
        loc = self.walk(("lit", slot), ty)
        return self.render(loc)

    def render(self, loc):
        """optionally replace input-independent hashed sub-locations by their PUSH32 constant (only hashes already
        registered on the path or present in the precomputed tables — see ASSUMPTIONS)"""
        r = self.rng
        t = loc[0]
        if t in ("map", "arr") and not loc_symbolic(loc) and r.random() < 0.35 and self.known(loc):
            return ("const", loc, 0)
        if t == "off" and not loc_symbolic(loc) and loc[1][0] in ("map", "arr") and r.random() < 0.3 and self.known(loc[1]):
            d = ev_expr(loc[2], ())
            if d < (1 << 15):   # larger constant offsets: directed corpus (OffsetMap's documented reach is 2^16)
                return ("const", loc[1], d)
        if t == "off" and expr_symbolic(loc[2]) and loc[1][0] in ("map", "arr") and not loc_symbolic(loc[1]) and r.random() < 0.15 \
                and self.known(loc[1]):
            # the compiler's a[i - k]: (hash - k) + (i + k), with hash - k inside the bucket of the hash
            k = r.choice([1, 1, 2, 3])
            if (slot_of(loc[1], ()) & 0xFFFF) >= k:
                return ("off", ("const", loc[1], -k), ("addc", loc[2], k), loc[3])
        if t == "map":
            return ("map", loc[1], self.render(loc[2]), loc[3])
        if t == "arr":
            return ("arr", self.render(loc[1]))
        if t == "off":
            return ("off", self.render(loc[1]), loc[2], loc[3])
        return loc

    def key_tail_rule(self, key, base, kb):
        """generic layout, known finding KEY_GNEST (replayed by the directed corpus): in a packed / long key (preimage not 64 bytes)
        the concrete low tail of the key is fused with a concrete HASHED base word into one constant that GenericStorage.decode does
        not decode like the unfused spelling — over such a base the last key word stays a plain symbolic word"""
        if GENERIC_SPLIT_OK or kb == 32 or not self.nargs or base[0] == "lit" or loc_symbolic(base):
            return key
        plain = ("a", self.rng.randrange(self.nargs))
        if key[0] == "words":
            last = key[2][-1]
            return key if last[0] == "a" else ("words", key[1], tuple(key[2][:-1]) + (plain,))
        return key if key[0] == "a" else plain

    def respell(self, loc):
        """the same element through another spelling of its keys: symbolic words ↔ small constants (equal for inputs from
        the colliding domain {0,1,2}); a fully concrete key makes the hash a constant for halmos"""
        r = self.rng
        t = loc[0]
        if t == "map":
            key = loc[1]
            flip = lambda w: (("c", r.choice([0, 1, 2])) if expr_symbolic(w) else ("a", r.randrange(self.nargs))) if (self.nargs and r.random() < 0.5) else w
            if key[0] == "words":
                ws = tuple(flip(w) for w in key[2])
                if not CONCRETE_PACKED_OK and not any(expr_symbolic(w) for w in ws):
                    ws = key[2]
                key = ("words", key[1], ws)
            elif loc[3] == 32 and key[0] in ("a", "c"):
                key = flip(key)
            elif loc[3] == 32 and expr_symbolic(key) and key[0] in ("shl", "or", "and") and r.random() < 0.6:
                key = ("c", ev_expr(key, [r.choice([0, 1, 2])] * max(self.nargs, 1)))     # the all-concrete spelling for x ∈ {0,1,2}
            nb = self.respell(loc[2])
            return ("map", self.key_tail_rule(key, nb, loc[3]), nb, loc[3])
        if t == "arr":
            return ("arr", self.respell(loc[1]))
        if t == "off":
            if loc[2][0] == "c" and loc[2][1] >= (1 << 15):
                return loc      # a large constant index stays over a symbolic base (a concrete base would fold it: KEY_BIGOFF)
            return ("off", self.respell(loc[1]), loc[2], loc[3])
        return loc

    def below(self, loc):
        """a constant slot just below a recognisable hash on the spine of `loc` (element 2^256 - k of that array)"""
        cur = loc
        while cur[0] in ("off", "const"):
            cur = cur[1]
        if cur[0] in ("map", "arr") and not loc_symbolic(cur) and self.known(cur):
            k = self.rng.choice([1, 1, 2, 5])
            if (slot_of(cur, ()) & 0xFFFF) >= k:
                return ("const", strip_const(cur), -k)
        return None

    def known(self, loc):
        """every hash on the spine of `loc` is recognisable by reverse_lookup"""
        cur = loc
        while cur[0] != "lit":
            if cur[0] == "off":
                cur = cur[1]
                continue
            if cur[0] == "const":
                return True
            h = slot_of(cur, ())
            if h not in self.registered and not in_precomputed(cur):
                return False
            cur = cur[2] if cur[0] == "map" else cur[1]
        return True

    def note_emitted(self, loc):
        self.registered |= hashes_of(loc, set())


_PRE = {}


def precomputed_tables():
    if not _PRE:
        tree = ast.parse((FsPath(REPO) / "src" / "halmos" / "hashes.py").read_text())
        for n in tree.body:
            tgt = n.targets[0] if isinstance(n, ast.Assign) else n.target if isinstance(n, ast.AnnAssign) else None
            if isinstance(tgt, ast.Name) and tgt.id in ("keccak256_256", "keccak256_512") and n.value is not None:
                _PRE[tgt.id] = ast.literal_eval(n.value)
        _PRE.setdefault("keccak256_256", {})
        _PRE.setdefault("keccak256_512", {})
    return _PRE


def in_precomputed(loc):
    """the hash of this (input-independent) node is an entry of the precomputed tables *with this preimage*"""
    pre = precomputed_tables()
    if loc[0] == "arr" and loc[1][0] == "lit":
        return pre["keccak256_256"].get(slot_of(loc, ())) == loc[1][1]
    if loc[0] == "map" and loc[3] == 32 and loc[2][0] == "lit":
        return pre["keccak256_512"].get(slot_of(loc, ())) == (ev_expr(loc[1], ()), loc[2][1])
    return False


def gen_program(rng, pool):
    nargs = rng.choice([1, 2, 2, 3])
    g = LocGen(rng, nargs, pool)
    locs = []
    stmts = []
    n_ops = rng.randrange(3, 9)
    transient = rng.random() < 0.25
    # an equality guard makes halmos concretize the guarded word in later hash preimages; with a packed key that turns the
    # whole preimage concrete (known finding KEY_PACKED, replayed by the directed corpus): no equality guards then
    has_packed = any(type_has_packed(ty) for _, ty in g.layout)
    g.allow_big = has_packed or rng.random() < 0.5      # programs with large constant indices get no equality guards (see LocGen)
    for i in range(n_ops):
        r = rng.random()
        if r < 0.12 and nargs:
            e = ("a", rng.randrange(nargs)) if rng.random() < 0.7 else ("and", ("a", rng.randrange(nargs)), 0xFF)
            if rng.random() < 0.6 and not has_packed and not g.allow_big:
                stmts.append(("require_eq", e, rng.choice([0, 1, 2, 3, 5])))
            else:
                stmts.append(("require_lt", e, rng.choice([2, 3, 4, 256])))
            continue
        # reuse an earlier location (possibly rendered differently) with high probability: aliasing needs collisions
        if locs and rng.random() < 0.45:
            base = rng.choice(locs)
            loc = strip_const(base)
            if rng.random() < 0.4:
                loc = g.respell(loc)
            loc = g.render(loc)
            if rng.random() < 0.12:
                loc = g.below(loc) or loc
        else:
            loc = g.location()
        locs.append(loc)
        kind = ("t" if transient and rng.random() < 0.6 else "s")
        if r < 0.55 or i == 0:
            v = rng.random()
            val = ("c", rng.choice([0x77, 1, 0, 0xDEAD, W - 1])) if v < 0.5 else ("a", rng.randrange(nargs)) if v < 0.85 else ("addc", ("a", rng.randrange(nargs)), 7)
            stmts.append((kind + "store", loc, val))
        else:
            stmts.append((kind + "load", loc))
        g.note_emitted(loc)
    # read back: every program ends with loads of some of the locations it touched
    for loc in rng.sample(locs, min(len(locs), rng.randrange(1, 4))):
        kind = "t" if transient and rng.random() < 0.5 else "s"
        l2 = g.render(strip_const(loc))
        stmts.append((kind + "load", l2))
        g.note_emitted(l2)
    if nargs >= 2 and rng.random() < 0.22:
        # branch-history prefix: a pending sibling uses x after the first-explored side branched on x == c
        x = ("a", 0) if rng.random() < 0.7 else ("and", ("a", 0), 0xFF)
        lits = sorted({s[1][1] for s in stmts if s[0] in ("sstore", "sload", "tstore", "tload") and s[1][0] == "lit"} | {sl for sl, _ in g.layout})
        c = rng.choice(lits)
        if rng.random() < 0.5:      # x itself as the slot (solidity layout: refused; generic layout: symbolic slot)
            kind = "t" if transient and rng.random() < 0.5 else "s"
            extra = [(kind + "store", ("lit", c), ("c", 0x11)), (kind + "store", ("raw", x), ("c", 0x22)), (kind + "load", ("lit", c))]
            if rng.random() < 0.5:
                extra = [(kind + "store", ("lit", c), ("c", 0x11)), (kind + "load", ("raw", x)), (kind + "load", ("lit", c))]
            pos = rng.randrange(len(stmts) + 1)
            stmts = stmts[:pos] + extra + stmts[pos:]
        stmts = [("branch_prefix", ("a", nargs - 1), x, c)] + stmts
    return Prog(stmts, nargs, meta={"layout": g.layout})


def strip_const(loc):
    t = loc[0]
    if t == "const":
        inner = strip_const(loc[1])
        return inner if loc[2] == 0 else ("off", inner, ("c", loc[2]), False)
    if t == "map":
        return ("map", loc[1], strip_const(loc[2]), loc[3])
    if t == "arr":
        return ("arr", strip_const(loc[1]))
    if t == "off":
        return ("off", strip_const(loc[1]), loc[2], loc[3])
    return loc


# ======================================================================================================================
# running: real SEVM, reference EVM, comparison
# ======================================================================================================================
def _engine():
    from vlib import evmdiff as D

    return D


def scenario_of(prog):
    D = _engine()
    return D.Scenario({D.MAIN: prog.code()}, nargs=prog.nargs, name=prog.name)


def mk_inputs(D, args):
    return D.Inputs(list(args), 0xCAFE, 0xCAFE, 0, {}, 0)


def choose_inputs(ctx, prog, sr, scn, n_random, pool, solver=True, minimal=False):
    D = _engine()
    rng = ctx.rng
    out, seen = [], set()

    def add(args, tag):
        args = tuple(a % W for a in args)
        if args not in seen:
            seen.add(args)
            out.append(mk_inputs(D, args))
            ctx.count("input:" + tag)

    if minimal:   # sweep programs: one guard, one argument — the guard constant, its neighbours, 0
        for c in sorted(prog.constants()) + [0]:
            add([c] * prog.nargs, "guard-constant")
        return out

    import itertools

    dom = [0, 1, 2]
    combos = list(itertools.product(dom, repeat=prog.nargs))
    if len(combos) > 9:
        combos = rng.sample(combos, 9) + [tuple([0] * prog.nargs), tuple([1] * prog.nargs)]
    for c in combos:
        add(c, "small-domain")
    consts = sorted(prog.constants())
    for c in consts[:6]:
        base = [rng.choice(dom) for _ in range(prog.nargs)]
        for i in range(prog.nargs):
            b = list(base)
            b[i] = c
            add(b, "guard-constant")
        add([c] * prog.nargs, "guard-constant")
    for _ in range(n_random):
        add([rng.choice(pool) if rng.random() < 0.5 else rng.randrange(W) if rng.random() < 0.5 else rng.randrange(8)
             for _ in range(prog.nargs)], "random")
    if solver:
        for p in sr.paths:
            if p.kind.startswith("stuck:") or len(sr.paths) == 1:
                continue
            for m in D.solve_inputs(p.conds, scn, n=1, timeout_ms=400):
                add(m.args, "path-model")
    return out


def lean_jobs(D, scn, inputs, pre_storage=None):
    """request lines for the reference EVM; returns (lines, reply indexes)"""
    lines, idx = [], []
    for inp in inputs:
        req = D.lean_requests(scn, inp)
        if pre_storage:
            ex = req.pop()
            for (a, s), v in pre_storage.items():
                req.append(f"storage {a:x} {s:x} {v:x}")
            req.append(ex)
        lines += req
        idx.append(len(lines) - 1)
    return lines, idx


class Batch:
    """collects (scenario, inputs) jobs so that the reference EVM is started once"""

    def __init__(self):
        self.lines, self.slots = [], []

    def add(self, D, scn, inputs, pre_storage=None):
        lines, idx = lean_jobs(D, scn, inputs, pre_storage)
        base = len(self.lines)
        self.lines += lines
        pos = [base + i for i in idx]
        self.slots.append(pos)
        return len(self.slots) - 1

    def run(self, ctx, D):
        replies = ctx.lean("Evm").ask(self.lines) if self.lines else []
        return [[D.parse_concrete(replies[i]) for i in pos] for pos in self.slots]


def covering_paths(D, sr, inp, ctx):
    out = []
    for j, p in enumerate(sr.paths):
        pe = D.PathEval(inp)
        if getattr(inp, "initial_uf", None) is not None:
            pe.ev.default_uf = inp.initial_uf
        try:
            ok = pe.satisfies(p.conds)
        except D.Unknown as u:
            ctx.count("eval-unknown:" + str(u)[:30])
            ok = None
        if ok:
            out.append((j, p, pe))
    return out


def compare_outputs(ctx, D, prog, layout, sr, inputs, concs, on_mismatch):
    """every returned word of every covering path against the reference EVM. on_mismatch(info) reports."""
    n_checked = 0
    for inp, conc in zip(inputs, concs):
        if conc.halt == "outOfFuel":
            ctx.count("concrete:outOfFuel")
            continue
        cov = covering_paths(D, sr, inp, ctx)
        if not cov:
            ctx.count("uncovered-input")
            if not any(p.kind.startswith("stuck:") for p in sr.paths) and sr.escaped is None:
                on_mismatch({"kind": "uncovered", "args": inp.args, "evm": conc.raw})
            continue
        for j, p, pe in cov:
            if p.kind.startswith("stuck:"):
                ctx.count("covered-by-stuck:" + p.kind)
                continue
            ctx.count("path-checked:" + p.kind)
            if p.kind != conc.halt:
                on_mismatch({"kind": f"outcome:{p.kind}-vs-{conc.halt}", "args": inp.args, "path": j, "evm": conc.raw})
                continue
            try:
                got = pe.bytes_of(p.data)
            except D.Unknown as u:
                ctx.count("eval-unknown-data:" + str(u)[:30])
                if str(u).startswith("storage_") and "symbolic" not in layout:
                    # without symbolic storage an unwritten slot reads zero: no initial-storage symbol may reach the output
                    on_mismatch({"kind": "unconstrained-initial-symbol-without-symbolic-storage", "args": inp.args, "path": j,
                                 "symbol": str(u)[:80]})
                continue
            n_checked += 1
            if got != conc.data:
                words_got = [got[i:i + 32].hex() for i in range(0, len(got), 32)]
                words_evm = [conc.data[i:i + 32].hex() for i in range(0, len(conc.data), 32)]
                bad = [i for i, (a, b) in enumerate(zip(words_got, words_evm)) if a != b]
                on_mismatch({"kind": "loaded-value", "args": inp.args, "path": j, "load_index": bad[:4],
                             "sevm": words_got, "evm": words_evm})
            ctx.count(f"loads-compared", len(got) // 32)
        ctx.case((prog.code(), layout, tuple(inp.args)))
    return n_checked


def replay_body(prog, layout, info, cfg=None):
    b = {"program": prog.describe(), "layout": layout, "config": cfg or {}}
    b.update({k: ([hex(x) for x in v] if k == "args" else v) for k, v in info.items()})
    return b


# ======================================================================================================================
# symbolic storage: unconstrained initial values
# ======================================================================================================================
def dkeys_py(loc, args):
    if loc[0] == "raw":
        return ev_expr(loc[1], args), []
    return _dkeys_py(loc, args)


def _dkeys_py(loc, args):
    """(root slot, [(width, value) …]) — the cell structure of a location, from the layout grammar (the python rendering
    of Lean `Loc.root` / `Loc.dkeys`)"""
    t = loc[0]
    if t == "lit":
        return loc[1] % W, []
    if t == "const":
        return dkeys_py(strip_const(loc), args)
    if t == "map":
        r, ks = dkeys_py(loc[2], args)
        return r, ks + [(8 * loc[3], ev_expr(loc[1], args) % (1 << (8 * loc[3]))), (256, 0)]
    if t == "arr":
        r, ks = dkeys_py(loc[1], args)
        return r, ks + [(256, 0)]
    if t == "off":
        r, ks = dkeys_py(loc[1], args)
        d = ev_expr(loc[2], args)
        if not ks:
            return (r + d) % W, []
        return r, ks[:-1] + [(256, (ks[-1][1] + d) % W)]
    raise ValueError(loc)


def symbolic_run_with_storage(D, scn, layout):
    """D.symbolic_run with the account's storage marked symbolic (what `svm.enableSymbolicStorage` does)"""
    from vlib import sevmdrv
    from z3 import BitVec
    from halmos.bitvec import HalmosBitVec as BV
    from halmos.bytevec import ByteVec
    from halmos.exceptions import EvmException, HalmosException, Revert
    from halmos.sevm import con_addr

    sevm, args = sevmdrv.mk_sevm(storage_layout=layout)
    cd = ByteVec()
    cd.append(scn.selector)
    for i in range(scn.nargs):
        cd.append(BV(BitVec(f"a{i}", 256), size=256))
    st = sevm.mk_storagedata()
    st.symbolic = True
    ex = sevmdrv.mk_ex(sevm, args, scn.main_code(), calldata=cd, this=con_addr(D.MAIN), storage=st)
    paths, escaped = [], None
    try:
        for e in sevm.run(ex):
            out = e.context.output
            err = out.error
            kind = ("success" if err is None and out.data is not None else "stuck:NoOutput" if err is None
                    else "revert" if isinstance(err, Revert) else "stuck:" + type(err).__name__ if isinstance(err, HalmosException)
                    else D.ERR_TO_HALT.get(type(err).__name__, "evm:" + type(err).__name__) if isinstance(err, EvmException)
                    else "other:" + type(err).__name__)
            paths.append(D.PathRes(kind, out.data, list(e.path.conditions), e, err))
    except BaseException as exc:  # noqa: BLE001
        escaped = f"{type(exc).__name__}: {exc}"
    return D.SymRun(paths, [], [], escaped, sevm)


def initial_storage_for(D, prog, args, rng):
    """a random initial flat storage on the slots the program touches under `args`, and the matching interpretation of
    halmos' initial symbols storage_<addr>_<slot>_<num_keys>_<size_keys>_00 (solidity layout)"""
    import re
    import z3
    from vlib.zeval import Arr

    flat, cells, conflicts = {}, {}, 0
    for s in prog.stmts:
        if s[0] not in ("sstore", "sload"):
            continue
        slot = slot_of(s[1], args)
        if slot not in flat:
            flat[slot] = rng.choice([0, 1, 0xAB, rng.randrange(1, 1 << 64), rng.randrange(W)])
        root, ks = dkeys_py(s[1], args)
        cell = (root, len(ks), sum(w for w, _ in ks))
        kv = 0
        for w, v in ks:
            kv = (kv << w) | v
        prev = cells.setdefault(cell, {}).get(kv)
        if prev is not None and prev != flat[slot]:
            conflicts += 1
        cells[cell][kv] = flat[slot]
    pat = re.compile(r"^storage_.+_(\d+)_(\d+)_(\d+)_00$")

    def uf(name, a, sort):
        m = pat.match(name) if not a else None
        if m:
            cell = (int(m.group(1)), int(m.group(2)), int(m.group(3)))
            tbl = cells.get(cell, {})
            if sort.kind() == z3.Z3_ARRAY_SORT:
                return Arr(lambda idx: 0, {(k,): v for k, v in tbl.items()})
            # a scalar cell is the flat slot itself (also for literals that reverse_lookup does not recognise)
            return flat.get(cell[0], 0) if cell[1] == 0 else tbl.get(0, 0)
        return D._default_uf(name, a, sort)

    return flat, uf, conflicts


# ======================================================================================================================
# model correspondence: the Lean decoders / storage model against the real ones on the traced location terms
# ======================================================================================================================
class Ser:
    """z3 term -> Driver/Storage term; opaque sub-terms become symbols whose value is computed by PathEval"""

    def __init__(self, pe):
        import z3

        self.z3, self.pe, self.ids, self.env = z3, pe, {}, {}

    def sym(self, t):
        key = t.get_id()
        if key not in self.ids:
            self.ids[key] = (len(self.ids) + 1, t)
            self.env[self.ids[key][0]] = self.pe.word(t)
        return f"S {t.size()} {self.ids[key][0]}"

    def __call__(self, t):
        z3 = self.z3
        if z3.is_bv_value(t):
            return f"L {t.size()} {t.as_long():x}"
        if not z3.is_app(t):
            return self.sym(t)
        name, k = t.decl().name(), t.decl().kind()
        if name.startswith("f_sha3_") and t.num_args() == 1:
            return "H " + self(t.arg(0))
        if k == z3.Z3_OP_CONCAT:
            return f"C {t.num_args()} " + " ".join(self(c) for c in t.children())
        if k == z3.Z3_OP_BADD:
            return f"A {t.num_args()} " + " ".join(self(c) for c in t.children())
        if k == z3.Z3_OP_EXTRACT:
            hi, lo = t.params()
            return f"X {hi} {lo} " + self(t.arg(0))
        return self.sym(t)

    def env_str(self):
        return " ".join(f"{i}={v:x}" for i, v in sorted(self.env.items())) or "-"


def registry_entries(ex):
    """the local KeccakRegistry as (hash value, expr) in registration order"""
    om = ex.sha3s._hash_values
    bits = om._offset_bits
    return [((rk << bits) | off, expr) for rk, (expr, off) in om._map.items()]


def real_decode(D, sevm, ex, loc, pe, layout):
    from halmos.exceptions import HalmosException, NotConcreteError
    import z3

    try:
        if layout == "generic":
            d = sevm.storage_model.decode(ex, loc)
            return f"ok {d.size()}:{pe.word(d):x}"
        slot, keys, num_keys, size_keys = sevm.storage_model.get_key_structure(ex, loc)
    except ValueError:
        return "err valueError"
    except NotConcreteError:
        return "err symbolicSlot"
    assert num_keys == len(keys) and size_keys == sum(k.size() for k in keys)
    return " ".join(["ok", f"{slot:x}"] + [f"{k.size()}:{pe.word(k):x}" for k in keys])


ctx_count_unknown = [0]


def model_requests(D, sr, p, pe, layout, variant):
    """(lines, expected replies, descriptions) for one path under one input"""
    from halmos.sevm import StorageRead, StorageWrite

    ex = p.ex
    ser = Ser(pe)
    L = "G" if layout == "generic" else "S"
    var = variant
    trace = [e for e in ex.context.trace if isinstance(e, (StorageRead, StorageWrite))]
    if not trace:
        return [], [], []
    try:
        regs = [f"{h:x} {ser(e)}" for h, e in registry_entries(ex)]
        import z3 as _z3
        for t, v in ex.path.concretization.substitution.items():     # what int_of knows on this path
            if _z3.is_bv(t) and _z3.is_bv_value(v) and not str(t.decl().name()).startswith("f_sha3_"):
                try:
                    regs.append(f"c:{v.as_long():x} {ser(t)}")
                except D.Unknown:
                    ctx_count_unknown[0] += 1
        reg = ";".join(regs) or "-"
        terms = [ser(e.slot) for e in trace]
        expected = [real_decode(D, sr.sevm, ex, e.slot, pe, layout) for e in trace]
        hist = {False: [], True: []}
        hexp = {False: [], True: []}
        for e, t in zip(trace, terms):
            if isinstance(e, StorageWrite):
                hist[e.transient].append(f"s {t} {pe.word(e.value):x}")
            else:
                hist[e.transient].append(f"l {t}")
                hexp[e.transient].append(f"{pe.word(e.value):x}")
    except D.Unknown:
        return [], [], []
    env = ser.env_str()
    lines = [f"decode {L} {var} | {reg} | {t} | {env}" for t in terms]
    descr = [("decode", str(e.slot)[:160]) for e in trace]
    for tr in (False, True):
        if hist[tr]:
            lines.append(f"hist {L} {var} 0 | {reg} | {env} | " + ";".join(hist[tr]))
            expected.append(",".join(hexp[tr]) or "-")
            descr.append(("hist-transient" if tr else "hist", ""))
    return lines, expected, descr


# ======================================================================================================================
# directed corpus
# ======================================================================================================================
def arr_const_case(slot, idx, name):
    base = ("arr", ("lit", slot))
    return Prog([("sstore", ("off", base, ("a", 0), False), ("c", 0x77)),
                 ("require_eq", ("a", 0), idx),
                 ("sload", ("const", base, idx))], 1, name=name)


def pre_const_case(node, d, name):
    """store through `PUSH32 hash + a0` (recognised through the precomputed table only), load through PUSH32 (hash + d)"""
    stmts = [("sstore", ("off", ("const", node, 0), ("a", 0), False), ("c", 0x77)),
             ("require_eq", ("a", 0), d),
             ("sload", ("const", node, d))]
    if d > 0:
        stmts.append(("sload", ("const", node, d - 1)))
    return Prog(stmts, 1, name=name)


DELTAS = [1, 2, 3, 4, 5, 6, 7, 8, 15, 16, 17, 31, 32, 33, 63, 64, 65, 100, 127, 128, 129, 255, 256, 257, 1000, 4095, 4096]


def multi_delta_case(node, deltas, name):
    """stores through `PUSH32 hash + a0 + (d - 1)` (symbolic), then on the path a0 == 1 loads through the folded constants
    PUSH32 (hash + d) and their neighbours: each constant must be recognised as element d of the same array / member d of
    the same mapping value"""
    base = ("off", ("const", node, 0), ("a", 0), False)
    stmts = [("sstore", ("off", base, ("c", d - 1), False) if d > 1 else base, ("c", 0x100 + i)) for i, d in enumerate(deltas)]
    stmts.append(("require_eq", ("a", 0), 1))
    stmts += [("sload", ("const", node, d)) for d in deltas]
    stmts.append(("sload", ("const", node, 0)))
    return Prog(stmts, 1, name=name)


def node_tag(node):
    return ("arr%d" % node[1][1]) if node[0] == "arr" else ("map%d_%d" % (node[1][1], node[2][1]))


def neg_const_case(node, ks, name, register=False):
    """slots just below a hash constant are slots of their own: PUSH32 (hash - k) for several k and PUSH32 hash are written
    with different values and read back (reverse_lookup returns a negative delta inside the bucket of the hash: the
    location is element 2^256 - k of the array / `hash - k`, never the hash itself)"""
    stmts = [("sload", node)] if register else []      # compute the hash at run time first: local registry
    for i, k in enumerate(ks):
        stmts.append(("sstore", ("const", node, -k), ("c", 0xA0 + i)))
    stmts.append(("sstore", ("const", node, 0), ("c", 0xB0)))
    stmts.append(("tstore", ("const", node, -ks[0]), ("c", 0xC1)))
    stmts.append(("tstore", ("const", node, 0), ("c", 0xC0)))
    stmts += [("sload", ("const", node, -k)) for k in ks]
    stmts += [("sload", ("const", node, 0)), ("tload", ("const", node, -ks[0])), ("tload", ("const", node, 0)), ("sload", ("const", node, 1))]
    return Prog(stmts, 1, name=name)


def below_plus_index_case(node, k, name):
    """`(hash - k) + i` (the compiler's a[i - k], e.g. a[n - 1] = (keccak(slot) - 1) + n): symbolic i, then on the path i == k + 2
    the folded constants PUSH32 (hash + 2) / (hash + 3) / (hash - k); also i == 0 … through `hash + (i - k)` computed at run time"""
    below = ("off", ("const", node, -k), ("a", 0), False)
    return Prog([("sstore", below, ("c", 0x77)), ("sstore", ("const", node, 0), ("c", 0x78)),
                 ("sload", ("off", ("off", node, ("a", 0), False), ("c", W - k), True)), ("sload", ("const", node, 0)),
                 ("require_eq", ("a", 0), k + 2),
                 ("sload", ("const", node, 2)), ("sload", ("const", node, 3)), ("sload", ("const", node, -k)), ("sload", below)], 1, name=name)


def nested_packed_cases():
    """mapping(string => mapping(string => uint)) at slot 0: m["a"]["\\0cd"] and m["a\\0"]["cd"] are different slots"""
    nm = lambda k1, b1, k2, b2: ("map", k2, ("map", k1, ("lit", 0), b1), b2)
    A, B = nm(("c", 0x61), 1, ("c", 0x006364), 3), nm(("c", 0x6100), 2, ("c", 0x6364), 2)
    As, Bs = nm(("a", 0), 1, ("a", 1), 3), nm(("a", 0), 2, ("a", 1), 2)
    # generic layout: the decoded term is key2 ‖ key1 ‖ slot ‖ pads: m["b"]["\\0cd"] and m["db"]["\\0c"] coincide
    Ag, Bg = nm(("c", 0x62), 1, ("c", 0x006364), 3), nm(("c", 0x6462), 2, ("c", 0x0063), 2)
    both = KEY_NESTPACK + "@solidity|" + KEY_NESTPACK_G + "@generic"
    return [(Prog([("sstore", A, ("c", 0x11)), ("sload", B), ("sload", A), ("sstore", B, ("c", 0x22)), ("sload", A), ("sload", B)], 1,
                  name="nested-packed-keys-concrete"), KEY_NESTPACK + "@solidity"),
            (Prog([("sstore", Ag, ("c", 0x11)), ("sload", Bg), ("sload", Ag)], 1, name="nested-packed-keys-concrete-generic"),
             KEY_NESTPACK_G + "@generic"),
            (Prog([("sstore", As, ("c", 0x11)), ("sload", Bs), ("sload", As)], 2, name="nested-packed-keys-symbolic"), both)]


def symbolic_directed():
    """(prog, inputs, expected key) run with symbolic persistent storage (solidity layout)"""
    m = lambda k: ("map", k, ("lit", 2), 32)
    return [(Prog([("tload", m(("a", 0))), ("sload", m(("a", 0)))], 1, name="symbolic-storage-tload-then-sload-mapping"), [(1,), (7,)], KEY_TAXIOM),
            (Prog([("sload", m(("a", 0))), ("tload", m(("c", 1))), ("sload", m(("c", 1)))], 1, name="symbolic-storage-sload-tload-sload-mapping"), [(1,), (2,)], KEY_TAXIOM),
            (Prog([("tload", ("lit", 3)), ("sload", ("lit", 3)), ("tstore", ("lit", 3), ("c", 5)), ("sload", ("lit", 3)), ("tload", ("lit", 3))], 1,
                  name="symbolic-storage-tload-then-sload-scalar"), [(1,)], None),
            # forked execution states keep the symbolic flag: unwritten locations read the unconstrained initial value on the pending
            # sibling of a branch (a deep copy of ex.storage) and on the continuing side of a guard
            (Prog([("branch_prefix", ("a", 1), ("a", 0), 5), ("sload", m(("a", 0))), ("sload", ("lit", 3)), ("sstore", ("lit", 4), ("c", 9)),
                   ("require_lt", ("a", 0), 100), ("sload", m(("addc", ("a", 0), 1))), ("sload", ("off", ("arr", ("lit", 7)), ("a", 0), False)),
                   ("sload", ("lit", 4)), ("sload", ("lit", 8))], 2, name="symbolic-storage-unwritten-loads-after-fork"), [(1, 1), (7, 2), (5, 1)], None),
            (Prog([("require_eq", ("a", 0), 2), ("sload", m(("a", 0))), ("sload", ("lit", 3)), ("sload", m(("c", 9)))], 1,
                  name="symbolic-storage-unwritten-loads-after-guard"), [(2,)], None)]


def branch_prefix_cases():
    """a pending sibling path (left by a branch on the unrelated word a1) uses x = a0 as slot / key / index / value after the
    path explored first has branched on x == c: what one path learns (x -> c) must not reach the sibling"""
    x, u = ("a", 0), ("a", 1)
    return [
        Prog([("branch_prefix", u, x, 5), ("sstore", ("lit", 5), ("c", 0x11)), ("sstore", ("raw", x), ("c", 0x22)), ("sload", ("lit", 5)),
              ("sload", ("raw", x)), ("sload", ("lit", 6))], 2, name="branch-prefix-symbolic-slot-store"),
        Prog([("branch_prefix", u, x, 1), ("sstore", ("lit", 1), ("c", 0x11)), ("sstore", ("map", x, ("lit", 2), 32), ("c", 0x33)),
              ("sstore", ("off", ("arr", ("lit", 1)), x, False), x), ("sload", ("raw", x)), ("sload", ("lit", 1)),
              ("sload", ("map", ("c", 1), ("lit", 2), 32)), ("sload", ("off", ("arr", ("lit", 1)), ("c", 1), True))], 2,
             name="branch-prefix-symbolic-slot-load-key-index-value"),
        Prog([("branch_prefix", u, ("and", x, 0xFF), 3), ("tstore", ("lit", 3), ("c", 0x11)), ("tstore", ("raw", ("and", x, 0xFF)), ("c", 0x22)),
              ("tload", ("lit", 3)), ("sstore", ("raw", ("addc", ("and", x, 0xFF), 1)), ("c", 0x44)), ("sload", ("lit", 4)), ("tload", ("raw", ("and", x, 0xFF)))], 2,
             name="branch-prefix-transient-and-derived-slot"),
    ]


def long_key(pre, words, base=("lit", 3)):
    """mapping(bytes => …) element whose hash preimage key ‖ slot is `pre` bytes"""
    return ("map", ("words", pre - 32, tuple(words)), base, pre - 32)


def long_key_case(pre, transient=False, name=None):
    """one element through both spellings: key words all concrete (halmos folds the hash to a constant) and first word
    symbolic (a0), pinned equal by the input and, later, by the path: store-through-one / load-through-the-other, overwrite"""
    nw = (pre - 32 + 31) // 32
    cw = [("c", 0x1111 * (i + 1)) for i in range(nw)]
    # the symbolic word is the LAST key word: halmos merges adjacent concrete memory chunks, and a concrete last word would
    # be fused with the slot into one constant (Concat(a0, <key tail ‖ slot>): refused by the solidity layout, fail-safe)
    last = cw[-1][1] % (1 << (8 * (pre - 32 - 32 * (nw - 1))))
    conc = long_key(pre, cw)
    symb = long_key(pre, cw[:-1] + [("a", 0)])
    other = long_key(pre, cw[:-1] + [("c", last ^ 1)])
    st, ld = ("tstore", "tload") if transient else ("sstore", "sload")
    return Prog([(st, symb, ("c", 0x2222)), (ld, conc), (ld, other),
                 (st, other, ("c", 0x3333)), (st, conc, ("c", 0x1111)), (ld, symb), (st, symb, ("c", 0x4444)), (ld, conc), (ld, other),
                 ("require_eq", ("a", 0), last), (ld, conc), (ld, symb), (st, conc, ("c", 0x5555)), (ld, symb)], 1,
                name=name or f"long-key-preimage-{pre}-both-spellings" + ("-transient" if transient else ""))


def nested_long_key_case():
    """mapping(bytes => mapping(uint => uint)) with a 96-byte outer key (128-byte preimage), inner key symbolic / concrete"""
    cw = [("c", 7), ("c", 8), ("c", 2)]      # last word from the colliding input domain {0,1,2}
    inner = lambda w: long_key(128, cw[:2] + [w], ("lit", 2))
    el = lambda w0, k: ("map", k, inner(w0), 32)
    return Prog([("sstore", el(("a", 0), ("a", 1)), ("c", 0x61)), ("sload", el(("c", 2), ("c", 1))), ("sload", el(("c", 2), ("a", 1))),
                 ("tstore", el(("c", 2), ("c", 1)), ("c", 0x62)), ("tload", el(("a", 0), ("a", 1))),
                 ("sstore", el(("c", 2), ("c", 1)), ("c", 0x63)), ("sload", el(("a", 0), ("a", 1))), ("sload", inner(("a", 0))), ("sload", el(("c", 8), ("c", 1)))], 2,
                name="long-key-preimage-128-nested-mapping")


def partial_key_shapes():
    """key WORDS that are part symbolic, part concrete (x = a0): name -> (expr, value of x to pin)"""
    hi = lambda n: W - (1 << (256 - 8 * n))          # mask of the n high bytes
    x = ("a", 0)
    return {
        "shl8": (("shl", x, 8), 0x1234), "shl96-address": (("shl", x, 96), 0xCAFE00000000000000000000000000000000BEEF),
        "shl128": (("shl", x, 128), 0x77), "shl248-bytes1": (("shl", x, 248), 0xAB),
        "bytes4-left-aligned": (("and", x, hi(4)), 0xDEADBEEF << 224), "bytes20-left-aligned": (("and", x, hi(20)), (0xCAFE << 240) | (7 << 96)),
        "packed-address-uint96": (("or", ("shl", x, 96), 5), 0xCAFE00000000000000000000000000000000BEEF),
        "packed-address-uint96-big": (("or", ("shl", x, 96), (1 << 95) | 1), 3),
    }


def partial_key_case(shape, transient=False):
    """mapping at slot 6 keyed by a partly symbolic word (halmos / z3 merge its concrete low tail with the concrete slot word:
    the 64-byte preimage is Concat(sym_N, const_(512-N)), not split at bit 256) against the all-concrete spelling of the same
    key: store-through-one / load-through-the-other, overwrite; pinned by the input first, then by a path equality"""
    e, v = partial_key_shapes()[shape]
    kv = ev_expr(e, (v,))
    sym, conc, other = ("map", e, ("lit", 6), 32), ("map", ("c", kv), ("lit", 6), 32), ("map", ("c", kv ^ (1 << 255)), ("lit", 6), 32)
    st, ld = ("tstore", "tload") if transient else ("sstore", "sload")
    return Prog([(st, sym, ("c", 0x2A)), (ld, conc), (ld, other), (st, conc, ("c", 0x2B)), (ld, sym), (st, other, ("c", 0x2C)), (st, sym, ("c", 0x2D)),
                 (ld, conc), (ld, other), ("require_eq", ("a", 0), v), (ld, conc), (ld, sym), (st, conc, ("c", 0x2E)), (ld, sym),
                 (ld, ("off", sym, ("c", 1), False)), (st, ("off", sym, ("c", 1), True), ("c", 0x2F)), (ld, ("off", conc, ("c", 1), False))], 1,
                name=f"partial-key-{shape}" + ("-transient" if transient else ""))


def split_word_cases():
    """96- and 128-byte preimages whose first / middle key word k = a0 + a1 is written with its low byte separately: locations that
    differ only in the words FOLLOWING that word (another key word, the slot) are different slots; the same location through
    the plain spelling of k is the same slot"""
    k = ("sum", ("a", 0), ("a", 1))
    sp = ("split", k)
    L = lambda words, slot: long_key(32 * len(words) + 32, words, ("lit", slot))
    out = []
    out.append(Prog([("sstore", L([sp, ("a", 2)], 1), ("c", 0x11)), ("sstore", L([sp, ("a", 2)], 2), ("c", 0x22)), ("sload", L([sp, ("a", 2)], 1)),
                     ("sload", L([k, ("a", 2)], 2)), ("sstore", L([sp, ("c", 7)], 1), ("c", 0x33)), ("sload", L([sp, ("a", 2)], 1)), ("sload", L([k, ("c", 7)], 1)),
                     ("tstore", L([sp, ("a", 2)], 1), ("c", 0x44)), ("tload", L([sp, ("a", 2)], 2)), ("tload", L([k, ("a", 2)], 1))], 3,
                    name="split-word-first-of-96-byte-preimage"))
    out.append(Prog([("sstore", L([("a", 2), sp, ("c", 5)], 1), ("c", 0x11)), ("sstore", L([("a", 2), sp, ("c", 6)], 1), ("c", 0x22)),
                     ("sstore", L([("a", 2), sp, ("c", 5)], 2), ("c", 0x33)), ("sload", L([("a", 2), sp, ("c", 5)], 1)), ("sload", L([("a", 2), k, ("c", 6)], 1)),
                     ("sload", L([("a", 2), k, ("c", 5)], 2)), ("sload", L([sp, sp, ("a", 2)], 1))], 3,
                    name="split-word-middle-of-128-byte-preimage"))
    return out


def three_ways_cases():
    out = []
    # mapping element with a struct-member offset: runtime hash + 1, 1 + runtime hash, PUSH32 (hash + 1)
    m = ("map", ("c", 3), ("lit", 2), 32)
    a, b, c = ("off", m, ("c", 1), False), ("off", m, ("c", 1), True), ("const", m, 1)
    forms = [a, b, c]
    for i, w in enumerate(forms):
        stmts = [("sload", m)]  # registers the hash at run time first (and reads the neighbouring slot)
        stmts.append(("sstore", w, ("addc", ("a", 0), i + 1)))
        stmts += [("sload", r) for r in forms]
        stmts.append(("sload", m))
        out.append(Prog(stmts, 1, name=f"three-ways-mapping-{i}"))
    # array element: symbolic index on the path i == 2, constant index, reordered
    arr = ("arr", ("lit", 1))
    forms = [("off", arr, ("a", 1), False), ("off", arr, ("c", 2), True), ("const", arr, 2), ("off", ("const", arr, 0), ("c", 2), False)]
    for i, w in enumerate(forms):
        stmts = [("require_eq", ("a", 1), 2), ("sstore", w, ("addc", ("a", 0), i + 1))] + [("sload", r) for r in forms]
        out.append(Prog(stmts, 2, name=f"three-ways-array-{i}"))
    # nested mapping m[a0][a1] against m[1][2] on the path a0 == 1, a1 == 2; and a packed (1-byte) key
    nm = lambda k1, k2: ("map", k2, ("map", k1, ("lit", 0), 32), 32)
    out.append(Prog([("sstore", nm(("a", 0), ("a", 1)), ("c", 0x55)), ("sload", nm(("c", 1), ("c", 2))),
                     ("require_eq", ("a", 0), 1), ("require_eq", ("a", 1), 2), ("sload", nm(("c", 1), ("c", 2))),
                     ("sload", nm(("c", 2), ("c", 1)))], 2, name="nested-mapping-symbolic-vs-concrete"))
    pk = lambda k: ("map", k, ("lit", 4), 1)
    out.append(Prog([("sstore", pk(("a", 0)), ("c", 0x66)), ("sload", pk(("addc", ("a", 0), 256))),
                     ("sload", ("map", ("a", 0), ("lit", 4), 32)), ("sload", pk(("and", ("a", 0), 0xFF)))], 1, name="packed-key-low-byte"))
    return out


def packed_concrete_case():
    pk = lambda k: ("map", k, ("lit", 4), 1)
    return Prog([("sstore", pk(("a", 0)), ("c", 0x66)), ("require_eq", ("a", 0), 1), ("sload", pk(("c", 1)))], 1,
                name="packed-key-symbolic-store-concrete-load")


def core_directed():
    """the named directed cases (also stored as corpus/C08/*.json, which take precedence)"""
    out = []
    out.append((arr_const_case(17573, 5, "array-slot-17573-index-5"), KEY_17573))
    out.append((arr_const_case(1, 5, "array-slot-1-index-5"), None))
    out.append((arr_const_case(143, 193, "array-slot-143-index-193"), KEY_143))
    out.append((arr_const_case(143, 192, "array-slot-143-index-192"), None))
    out.append((arr_const_case(1, 200000, "array-slot-1-index-200000"), KEY_BIGOFF))
    for p in three_ways_cases():
        out.append((p, None))
    out.append((packed_concrete_case(), KEY_PACKED))
    # generic layout: packed key with a fully concrete preimage whose base is itself a hash (mapping(bytes1 => uint) as element 0
    # of the array at slot 2) against the symbolic spelling of the same key
    pkn = lambda k: ("map", k, ("arr", ("lit", 2)), 1)
    out.append((Prog([("sstore", pkn(("c", 1)), ("c", 0x66)), ("sload", pkn(("a", 0))), ("sstore", pkn(("a", 0)), ("c", 0x67)), ("sload", pkn(("c", 1))),
                      ("sload", pkn(("c", 2)))], 1, name="packed-key-concrete-preimage-hashed-base"), KEY_GNEST + "@generic"))
    # the same finding through a fused constant `key tail ‖ hashed base`: a 31-byte key with a concrete low tail, and a 64-byte key
    # whose last word is concrete, over the inner array of the array at slot 0 — against the spelling with a symbolic index in the base
    inner = lambda i: ("arr", ("off", ("arr", ("lit", 0)), i, False))
    k31 = ("and", ("a", 0), W - (1 << 96))
    out.append((Prog([("tstore", ("map", k31, inner(("c", 0)), 31), ("c", 0x71)), ("tload", ("map", k31, inner(("a", 1)), 31)),
                      ("sstore", ("map", k31, inner(("a", 1)), 31), ("c", 0x72)), ("sload", ("map", k31, inner(("c", 0)), 31))], 2,
                     name="packed-key-concrete-tail-fused-with-hashed-base"), KEY_GNEST + "@generic"))
    k64 = ("words", 64, (("a", 0), ("c", 2)))
    out.append((Prog([("sstore", ("map", k64, ("off", ("arr", ("lit", 0)), ("c", 1), False), 64), ("c", 0x73)),
                      ("sload", ("map", k64, ("off", ("arr", ("lit", 0)), ("and", ("a", 1), 3), True), 64))], 2,
                     name="long-key-concrete-last-word-fused-with-hashed-base"), KEY_GNEST + "@generic"))
    for p in branch_prefix_cases():
        out.append((p, None))
    for p in split_word_cases():
        out.append((p, None))
    # key words that are part symbolic / part concrete against the all-concrete spelling
    for i, shape in enumerate(partial_key_shapes()):
        out.append((partial_key_case(shape, transient=(i % 4 == 3)), None))
    # bytes keys around the 128-byte preimage limit of sha3_data's hash tracking
    out.append((long_key_case(128), None))
    out.append((nested_long_key_case(), None))
    out.append((long_key_case(128, transient=True), None))
    out.append((long_key_case(96), None))
    out.append((long_key_case(127), None))
    out.append((long_key_case(129), KEY_LARGE))
    out.append((long_key_case(160, transient=True), KEY_LARGE))
    # negative deltas: constants just below a hash (table constant, locally registered hash, mapping hash)
    a2, a300, m10 = ("arr", ("lit", 2)), ("arr", ("lit", 300)), ("map", ("c", 1), ("lit", 0), 32)
    out.append((neg_const_case(a2, [1, 2, 8], "below-hash-constants-array-slot-2"), None))
    out.append((neg_const_case(m10, [1, 3], "below-hash-constants-mapping-1-0"), None))
    out.append((neg_const_case(a300, [1, 5], "below-hash-constants-array-slot-300-registered", register=True), None))
    lo2 = slot_of(a2, ()) & 0xFFFF
    out.append((neg_const_case(a2, [lo2, lo2 + 1, lo2 + 2], "below-hash-constants-array-slot-2-bucket-start"), None))
    out.append((below_plus_index_case(a2, 1, "hash-minus-1-plus-index-array-slot-2"), KEY_NEGGEN + "@generic"))
    out.append((below_plus_index_case(m10, 2, "hash-minus-2-plus-index-mapping-1-0"), KEY_NEGGEN + "@generic"))
    out.append((Prog([("sstore", ("off", ("const", a2, -(lo2 + 1)), ("a", 0), False), ("c", 0x77)), ("require_eq", ("a", 0), lo2 + 3),
                      ("sload", ("const", a2, 2))], 1, name="hash-minus-bucket-crossing-plus-index-array-slot-2"), KEY_DOWN + "@generic"))
    out += nested_packed_cases()
    # hash constant with zero low bits + masked index: the sum reaches decode as Concat(hash[255:2], index[1:0])
    s0 = next(s for s in range(1, 100) if slot_of(("arr", ("lit", s)), ()) & 3 == 0)
    arr0 = ("arr", ("lit", s0))
    out.append((Prog([("sstore", ("off", arr0, ("a", 0), False), ("c", 0xDEAD)), ("sstore", ("off", arr0, ("and", ("a", 0), 3), False), ("c", 0x77)),
                      ("sload", ("off", arr0, ("a", 0), False))], 1, name=f"array-slot-{s0}-masked-index"), KEY_CONCAT % s0))
    # generic layout's disambiguation bit (simple_hash appends 257 zero bits, not 256): uint[][] a at slot s and
    # mapping(uint => uint) m at slot i: a[i][0] and m[s] would collide with a 256-bit pad; also with symbolic i / key
    for s_, i_ in ((1, 2), (0, 3)):
        a = lambda i, j: ("off", ("arr", ("off", ("arr", ("lit", s_)), i, False)), j, False)
        m = lambda k: ("map", k, ("lit", i_), 32)
        out.append((Prog([("sstore", a(("c", i_), ("c", 0)), ("c", 0x11)), ("sload", m(("c", s_))), ("sstore", m(("c", s_)), ("c", 0x22)),
                          ("sload", a(("c", i_), ("c", 0))), ("sload", m(("c", s_))),
                          ("sstore", a(("a", 0), ("a", 1)), ("c", 0x33)), ("sload", m(("a", 0))), ("sload", m(("c", s_))),
                          ("sload", a(("c", i_), ("c", 0)))], 2, name=f"array-array-vs-mapping-slots-{s_}-{i_}"), None))
    # mapping-of-array and array-of-mapping over neighbouring roots; struct members next to each other
    out.append((Prog([("sstore", ("arr", ("map", ("a", 0), ("lit", 1), 32)), ("c", 0x44)),
                      ("sstore", ("map", ("a", 0), ("arr", ("lit", 2)), 32), ("c", 0x55)),
                      ("sload", ("arr", ("map", ("c", 1), ("lit", 1), 32))), ("sload", ("map", ("c", 1), ("arr", ("lit", 2)), 32)),
                      ("sload", ("arr", ("map", ("a", 1), ("lit", 1), 32))), ("sload", ("map", ("a", 1), ("off", ("arr", ("lit", 2)), ("c", 0), True), 32)),
                      ("sload", ("off", ("map", ("a", 0), ("arr", ("lit", 2)), 32), ("c", 1), False))], 2, name="map-of-array-vs-array-of-map"), None))
    return out


# directed cases that only the thorough tier runs (their quick-tier siblings cover the same code path)
THOROUGH_ONLY = {"partial-key-shl8", "partial-key-shl128", "partial-key-bytes20-left-aligned", "partial-key-shl96-address",
                 "partial-key-packed-address-uint96-big-transient", "long-key-preimage-96-both-spellings", "long-key-preimage-127-both-spellings",
                 "long-key-preimage-160-both-spellings-transient", "three-ways-array-1", "three-ways-array-3", "three-ways-mapping-1"}


def write_corpus():
    d = VERIF / "corpus" / ID
    d.mkdir(parents=True, exist_ok=True)
    for prog, expect in core_directed():
        (d / f"{prog.name}.json").write_text(json.dumps({"name": prog.name, "nargs": prog.nargs, "stmts": prog.stmts, "expect": expect,
                                                          "tier": "thorough" if prog.name in THOROUGH_ONLY else "quick",
                                                          "code": prog.code().hex()}, indent=1))


def write_corpus_multi():
    d = VERIF / "corpus" / ID
    d.mkdir(parents=True, exist_ok=True)
    for mp in multi_directed():
        (d / f"{mp.name}.json").write_text(json.dumps(dict(mp.describe(), expect=None), indent=1))


def directed_programs(ctx, variant, have=()):
    """(prog, expected_failure_key or None)"""
    pre = precomputed_tables()
    out = [(p, e) for p, e in core_directed() if p.name not in have]
    # precomputed-table constants around the bucket boundary of every (thorough) / a sample of (quick) registered hashes
    nodes = [("arr", ("lit", v)) for h, v in pre["keccak256_256"].items()]
    nodes += [("map", ("c", a), ("lit", b), 32) for h, (a, b) in pre["keccak256_512"].items()]
    nodes.sort(key=lambda n: -(slot_of(n, ()) & 0xFFFF))     # closest to the upper bucket boundary first
    n = ctx.scale(10, len(nodes))
    chosen = nodes[: n // 2] + (ctx.rng.sample(nodes[n // 2:], n - n // 2) if n < len(nodes) else nodes[n // 2:])
    # small constant offsets from table constants (struct members / first array elements), several per program
    for node in (ctx.rng.sample(nodes, ctx.scale(5, 40))):
        lo = slot_of(node, ()) & 0xFFFF
        tag = ("arr%d" % node[1][1]) if node[0] == "arr" else ("map%d_%d" % (node[1][1], node[2][1]))
        ok = [d for d in DELTAS if lo + d < 0x10000]
        ds = sorted(set(ctx.rng.sample(ok, min(len(ok), 6)))) if ok else []
        if ds:
            out.append((multi_delta_case(node, ds, f"deltas-{tag}-" + "-".join(map(str, ds))), None))
    # table constants minus small offsets (inside the bucket of the hash and across its lower boundary)
    for node in ctx.rng.sample(nodes, ctx.scale(4, 120)):
        lo = slot_of(node, ()) & 0xFFFF
        ks = sorted(set(ctx.rng.sample([1, 2, 3, 4, 7, 8, 16, 31, 32, 255, 256, max(lo, 1), lo + 1], 4)))
        out.append((neg_const_case(node, ks, f"below-{node_tag(node)}-" + "-".join(map(str, ks))), None))
        if lo >= 4 and ctx.rng.random() < 0.5:
            k = ctx.rng.choice([1, 2, 3])
            out.append((below_plus_index_case(node, k, f"below-plus-index-{node_tag(node)}-{k}"), KEY_NEGGEN + "@generic"))
    for node in chosen:
        lo = slot_of(node, ()) & 0xFFFF
        cross = 0x10000 - lo
        tag = ("arr%d" % node[1][1]) if node[0] == "arr" else ("map%d_%d" % (node[1][1], node[2][1]))
        if ctx.tier == "quick" or (slot_of(node, ()) >> 16) % 8 == 0:
            out.append((pre_const_case(node, cross - 1, f"sweep-{tag}-below-boundary"), None))
        out.append((pre_const_case(node, cross, f"sweep-{tag}-at-boundary"), KEY_SWEEP))
        if ctx.tier != "quick" and (slot_of(node, ()) >> 16) % 16 == 0:
            out.append((pre_const_case(node, cross + 1, f"sweep-{tag}-above-boundary"), KEY_SWEEP))
    return out


# ======================================================================================================================
# transient storage: two transactions
# ======================================================================================================================
def transient_two_tx(ctx, layout, variant, loc_store, loc_load, symbolic_key):
    """tx1: TSTORE(loc, 0x99); SSTORE(loc, 0x55); returns TLOAD(loc).  tx2 (run_message on the final state of tx1):
    returns TLOAD(loc'), SLOAD(loc') — transient must read 0, storage must persist.  Same contract, dispatch on a1."""
    D = _engine()
    from vlib import asm, sevmdrv
    from z3 import BitVec

    from halmos.bitvec import HalmosBitVec as BV
    from halmos.bytevec import ByteVec
    from halmos.sevm import Message, Path, con_addr
    from halmos.__main__ import mk_solver
    from halmos.utils import EVM

    tx1 = [("tstore", loc_store, ("c", 0x99)), ("sstore", loc_store, ("c", 0x55)), ("tload", loc_store)]
    tx2 = [("tload", loc_load), ("sload", loc_load), ("tload", loc_store)]
    p1, p2 = Prog(tx1, 1), Prog(tx2, 1)

    def body(p):
        items, k = [], 0
        for s in p.stmts:
            if s[0] in ("sstore", "tstore"):
                items += emit_expr(s[2]) + emit_loc(s[1]) + ["SSTORE" if s[0] == "sstore" else "TSTORE"]
            else:
                items += emit_loc(s[1]) + ["SLOAD" if s[0] == "sload" else "TLOAD", ("push", OUT + 32 * k), "MSTORE"]
                k += 1
        return items + [("push", 32 * k), ("push", OUT), "RETURN"]

    # selector word 0 → tx1, otherwise tx2
    code = asm.assemble([("push", 0), "CALLDATALOAD", ("push", 224), "SHR", ("ref", "second"), "JUMPI"] + body(p1)
                        + [("label", "second")] + body(p2))
    sevm, args = sevmdrv.mk_sevm(storage_layout=layout)
    a0 = BitVec("a0", 256)
    cd1 = ByteVec()
    cd1.append(b"\x00\x00\x00\x00")
    cd1.append(BV(a0, size=256))
    ex0 = sevmdrv.mk_ex(sevm, args, code, calldata=cd1, this=con_addr(D.MAIN))
    outs1 = [e for e in sevm.run(ex0)]
    results = []
    for e1 in outs1:
        if e1.context.output.error is not None:
            results.append(("tx1-error", type(e1.context.output.error).__name__))
            continue
        cd2 = ByteVec()
        cd2.append(b"\x00\x00\x00\x01")
        cd2.append(BV(a0, size=256))
        msg = Message(target=con_addr(D.MAIN), caller=sevmdrv.CALLER, origin=sevmdrv.ORIGIN, value=0, data=cd2,
                      call_scheme=EVM.CALL)
        path2 = Path(mk_solver(args))
        path2.extend_path(e1.path)
        for e2 in sevm.run_message(e1, msg, path2):
            results.append((e1, e2))
    # evaluate under inputs
    vals = [0, 1, 2, 5, ctx.rng.randrange(W)]
    verdicts = []
    for v in vals:
        inp = mk_inputs(D, (v,))
        # reference: tx1 then tx2 on the flat spec (transient cleared between transactions, storage kept)
        s1 = slot_of(loc_store, (v,))
        s2 = slot_of(loc_load, (v,))
        exp1 = [0x99]
        exp2 = [0, 0x55 if s1 == s2 else 0, 0]
        for r in results:
            if not (isinstance(r, tuple) and len(r) == 2 and not isinstance(r[0], str)):
                verdicts.append(("error", r))
                continue
            e1, e2 = r
            pe = D.PathEval(inp)
            try:
                if not pe.satisfies(list(e2.path.conditions)):
                    continue
                if e2.context.output.error is not None:
                    verdicts.append(("tx2-error", type(e2.context.output.error).__name__))
                    continue
                got1 = pe.bytes_of(e1.context.output.data)
                got2 = pe.bytes_of(e2.context.output.data)
            except D.Unknown as u:
                ctx.count("transient:eval-unknown")
                continue
            w1 = [int.from_bytes(got1[i:i + 32], "big") for i in range(0, len(got1), 32)]
            w2 = [int.from_bytes(got2[i:i + 32], "big") for i in range(0, len(got2), 32)]
            verdicts.append(("ok" if (w1 == exp1 and w2 == exp2) else "mismatch", {"a0": hex(v), "tx1": w1, "tx2": w2,
                                                                                 "expected_tx1": exp1, "expected_tx2": exp2}))
    return code, verdicts


# ======================================================================================================================
# several accounts, transactions started through SEVM.run_message
# ======================================================================================================================
@dataclass
class Multi:
    """accounts A (entry), B, C deployed before the transaction; A calls B (B may call C) forwarding the calldata; the output
    of A is its own loaded words plus the words returned by the callee.  The same transaction is run twice in sequence."""
    progs: dict
    nargs: int
    name: str = ""

    def contracts(self):
        return {ACCOUNTS[n]: p.code() for n, p in self.progs.items()}

    def kinds(self):
        out = {"multi-account"}
        for p in self.progs.values():
            out |= p.kinds()
        return out

    def describe(self):
        return {"name": self.name, "nargs": self.nargs, "multi": {n: json.loads(json.dumps(p.stmts)) for n, p in self.progs.items()},
                "code": {n: p.code().hex() for n, p in self.progs.items()}}


def multi_directed():
    m = lambda k: ("map", k, ("lit", 1), 32)
    el = lambda i: ("off", ("arr", ("lit", 2)), i, False)
    out = []
    out.append(Multi({"A": Prog([("tload", ("lit", 0)), ("sload", ("lit", 0)), ("tstore", ("lit", 0), ("c", 0x2A)), ("sstore", ("lit", 0), ("c", 0x2B)),
                                 ("call", "B", 2), ("tload", ("lit", 0)), ("sload", ("lit", 0))], 1),
                      "B": Prog([("tload", ("lit", 0)), ("sload", ("lit", 0))], 1)}, 1, name="multi-account-scalar-a-stores-b-loads"))
    out.append(Multi({"A": Prog([("tload", m(("a", 0))), ("sload", m(("a", 0))), ("tstore", m(("a", 0)), ("c", 0x31)), ("tstore", el(("a", 1)), ("c", 0x32)),
                                 ("sstore", m(("a", 0)), ("c", 0x33)), ("call", "B", 5), ("tload", m(("c", 1))), ("tload", el(("c", 2)))], 2),
                      "B": Prog([("tload", m(("c", 1))), ("tload", el(("c", 2))), ("tload", m(("a", 0))), ("sload", m(("a", 0))),
                                 ("tstore", m(("a", 0)), ("c", 0x41)), ("call", "C", 1)], 2),
                      "C": Prog([("tload", m(("a", 0)))], 2)}, 2, name="multi-account-mapping-array-a-b-c"))
    out.append(Multi({"A": Prog([("call", "B", 2), ("tload", m(("a", 0))), ("sload", m(("a", 0))), ("tload", ("lit", 3)), ("tstore", ("lit", 3), ("c", 9))], 1),
                      "B": Prog([("tload", m(("a", 0))), ("tstore", m(("a", 0)), ("c", 0x51)), ("sstore", m(("a", 0)), ("c", 0x52)),
                                 ("tstore", ("lit", 3), ("c", 7)), ("tload", m(("a", 0)))], 1)}, 1, name="multi-account-callee-stores-caller-loads"))
    # a subcall that forks on its calldata and FAILS on several paths: every failing path gets its own restored storage
    rev = Prog([("tstore", ("lit", 0), ("c", 0x99)), ("sstore", ("lit", 0), ("c", 0x98)), ("revert_if_eq", ("a", 0), 1), ("revert_if_eq", ("a", 0), 2), ("revert",)], 1)
    out.append(Multi({"A": Prog([("callf", "B", 0), ("sload", ("lit", 0)), ("tload", ("lit", 0)), ("sstore", ("lit", 0), ("c", 0x11)), ("tstore", ("lit", 0), ("c", 0x12)),
                                 ("sload", ("lit", 0)), ("tload", ("lit", 0))], 1), "B": rev}, 1, name="multi-account-callee-reverts-on-several-paths-scalar"))
    rev2 = Prog([("sstore", m(("a", 0)), ("c", 0x97)), ("revert_if_eq", ("a", 0), 0), ("revert_if_eq", ("a", 1), 1), ("tload", m(("a", 0))), ("revert_if_eq", ("a", 1), 2)], 2)
    out.append(Multi({"A": Prog([("sstore", m(("c", 1)), ("c", 0x21)), ("tstore", el(("c", 2)), ("c", 0x22)), ("callf", "B", 1),
                                 ("sload", m(("a", 0))), ("tload", el(("a", 1))), ("sstore", m(("a", 0)), ("addc", ("a", 1), 0x30)), ("tstore", el(("a", 1)), ("c", 0x31)),
                                 ("sload", m(("c", 1))), ("tload", el(("c", 2))), ("sload", m(("c", 0)))], 2), "B": rev2}, 2,
                     name="multi-account-callee-reverts-on-several-paths-mapping-array"))
    return out


def gen_multi(rng, pool):
    nargs = rng.choice([1, 2])
    g = LocGen(rng, nargs, pool)
    names = ["A", "B"] + (["C"] if rng.random() < 0.35 else [])
    reverting = rng.random() < 0.4
    # equality forks pin calldata words on the failing paths: only without packed keys (KEY_PACKED / KEY_GNEST) and without large
    # constant indices (KEY_BIGOFF), as for the equality guards of gen_program; otherwise the callee forks on `<`
    eq_forks = reverting and not any(type_has_packed(ty) for _, ty in g.layout) and rng.random() < 0.7
    g.allow_big = not eq_forks
    locs = [g.location() for _ in range(rng.randrange(1, 4))] + [("lit", rng.choice([0, 1, 3]))]
    progs = {}
    for i in reversed(range(len(names))):
        n = names[i]
        body = []
        for loc in rng.sample(locs, rng.randrange(1, len(locs) + 1)):      # prologue reads: fresh transient, carried-over storage
            body.append((rng.choice(["tload", "tload", "sload"]), g.render(strip_const(loc))))
        stores = []
        for j, loc in enumerate(rng.sample(locs, rng.randrange(0 if n != "A" else 1, len(locs) + 1))):
            v = ("c", 0x10 * (i + 1) + j + 1) if rng.random() < 0.7 else ("a", rng.randrange(nargs))
            stores.append((rng.choice(["tstore", "tstore", "sstore"]), g.render(strip_const(loc)), v))
        reads = [(rng.choice(["tload", "tload", "sload"]), g.render(strip_const(loc))) for loc in rng.sample(locs, rng.randrange(1, len(locs) + 1))]
        call = [("call", names[i + 1], progs[names[i + 1]].nloads())] if i + 1 < len(names) else []
        if reverting and i == len(names) - 1:
            # the innermost callee forks on its calldata and fails on several paths
            for _ in range(rng.randrange(2, 4)):
                fork = ("revert_if_eq", ("a", rng.randrange(nargs)), rng.choice([0, 1, 2])) if eq_forks else \
                    ("revert_if_lt", ("a", rng.randrange(nargs)), rng.choice([1, 2, 3]))
                body.insert(rng.randrange(len(body) + 1), fork)
            body += stores
            if rng.random() < 0.5:
                body.append(("revert",))
            progs[n] = Prog(body + reads, nargs)
            continue
        if reverting and i == len(names) - 2:
            # its caller reads, writes and reads again after the (possibly failed) call
            call = [("callf", names[i + 1], progs[names[i + 1]].nloads())]
            cut = rng.randrange(len(stores) + 1)
            progs[n] = Prog(body + stores[:cut] + call + reads + stores[cut:] + reads, nargs)
            continue
        if rng.random() < 0.3:      # reverse order: the callee runs before this account's stores
            body += call + stores + reads
        else:
            cut = rng.randrange(len(stores) + 1)
            body += stores[:cut] + call + stores[cut:] + reads
        progs[n] = Prog(body, nargs)
    return Multi({n: progs[n] for n in names}, nargs)


def run_multi(ctx, D, mp, layout):
    """tx1 and, from each of its successful end states, tx2 (same message) through SEVM.run_message.
    Returns (paths1, [(e1 index, paths2)]) as D.PathRes lists."""
    from vlib import sevmdrv
    from z3 import BitVec
    from halmos.__main__ import mk_solver
    from halmos.bitvec import HalmosBitVec as BV
    from halmos.bytevec import ByteVec
    from halmos.exceptions import EvmException, HalmosException, Revert
    from halmos.sevm import Message, Path, con_addr
    from halmos.utils import EVM

    sevm, args = sevmdrv.mk_sevm(storage_layout=layout)

    def calldata():
        cd = ByteVec()
        cd.append(b"\x12\x34\x56\x78")
        for i in range(mp.nargs):
            cd.append(BV(BitVec(f"a{i}", 256), size=256))
        return cd

    def kind_of(e):
        out = e.context.output
        err = out.error
        return ("success" if err is None and out.data is not None else "stuck:NoOutput" if err is None
                else "revert" if isinstance(err, Revert) else "stuck:" + type(err).__name__ if isinstance(err, HalmosException)
                else D.ERR_TO_HALT.get(type(err).__name__, "evm:" + type(err).__name__) if isinstance(err, EvmException)
                else "other:" + type(err).__name__)

    def message():
        return Message(target=con_addr(ACCOUNTS["A"]), caller=sevmdrv.CALLER, origin=sevmdrv.ORIGIN, value=sevmdrv.CALLVALUE, data=calldata(),
                       call_scheme=EVM.CALL)

    codes = mp.contracts()
    extra = {con_addr(a): c for a, c in codes.items() if a != ACCOUNTS["A"]}
    pre = sevmdrv.mk_ex(sevm, args, codes[ACCOUNTS["A"]], calldata=calldata(), this=con_addr(ACCOUNTS["A"]), extra_code=extra)
    paths1, second = [], []
    for e1 in sevm.run_message(pre, message(), Path(mk_solver(args))):
        p1 = D.PathRes(kind_of(e1), e1.context.output.data, list(e1.path.conditions), e1, e1.context.output.error)
        paths1.append(p1)
        if p1.kind != "success":
            continue
        path2 = Path(mk_solver(args))
        path2.extend_path(e1.path)
        p2s = [D.PathRes(kind_of(e2), e2.context.output.data, list(e2.path.conditions), e2, e2.context.output.error)
               for e2 in sevm.run_message(e1, message(), path2)]
        second.append((len(paths1) - 1, p2s))
    return sevm, paths1, second


def multi_account_family_one(ctx, D, mp):
    multi_account_family(ctx, D, [0, 1, 2], [], cases=[mp])


def multi_account_family(ctx, D, pool, stored_multi, cases=None):
    import itertools

    if cases is None:
        cases = list(stored_multi) + [m for m in multi_directed() if m.name not in {x.name for x in stored_multi}]
        cases += [gen_multi(ctx.rng, pool) for _ in range(ctx.scale(6, 120))]
    runs = []
    b1 = Batch()
    for mp in cases:
        scn = D.Scenario(mp.contracts(), nargs=mp.nargs, name=mp.name)
        combos = list(itertools.product([0, 1, 2], repeat=mp.nargs))
        if len(combos) > 5:
            combos = ctx.rng.sample(combos, 5)
        combos.append(tuple(ctx.rng.choice(pool) % W for _ in range(mp.nargs)))
        inputs = [mk_inputs(D, c) for c in dict.fromkeys(combos)]
        runs.append((mp, scn, inputs, b1.add(D, scn, inputs)))
        for k in mp.kinds():
            ctx.count("multi:" + k)
    conc1 = b1.run(ctx, D)
    b2 = Batch()
    idx2 = []
    for (mp, scn, inputs, bi) in runs:     # second transaction of the reference: storage of tx1 carried over, transient cleared
        idx2.append([b2.add(D, scn, [inp], pre_storage=dict(c.storage)) for inp, c in zip(inputs, conc1[bi])])
    conc2 = b2.run(ctx, D)

    def words(b):
        return [b[i:i + 32].hex() for i in range(0, len(b), 32)]

    for (mp, scn, inputs, bi), i2 in zip(runs, idx2):
        for layout in ("solidity", "generic"):
            try:
                sevm, paths1, second = run_multi(ctx, D, mp, layout)
            except Exception as e:  # noqa: BLE001
                ctx.violation(f"C08|multi-account|{layout}|escaped:{type(e).__name__}", f"[{mp.name or 'generated'}] exception escaped run_message: {e!r:.200}",
                              {"multi": mp.describe(), "layout": layout})
                continue
            for p in paths1:
                ctx.count(f"multi-pathkind:{layout}:tx1:{p.kind}")
            for n, (inp, c1) in enumerate(zip(inputs, conc1[bi])):
                c2 = conc2[i2[n]][0]
                bad = None
                for j, p1 in enumerate(paths1):
                    pe = D.PathEval(inp)
                    try:
                        if not pe.satisfies(p1.conds):
                            continue
                        if p1.kind.startswith("stuck:"):
                            ctx.count("multi:covered-by-stuck")
                            continue
                        if p1.kind != c1.halt:
                            bad = ("tx1", f"outcome:{p1.kind}-vs-{c1.halt}", [], [])
                            break
                        got1 = pe.bytes_of(p1.data)
                        ctx.count("multi:tx1-compared")
                        if p1.kind == "success" and got1 != c1.data:
                            bad = ("tx1", "loaded-value", words(got1), words(c1.data))
                            break
                    except D.Unknown as u:
                        ctx.count("multi:eval-unknown:" + str(u)[:20])
                        if str(u).startswith("storage_"):
                            # a storage array symbol that this path's conditions do not define (e.g. a store made on a sibling path)
                            bad = ("tx1", "undefined-storage-symbol-in-loaded-value", [str(u)[:60]], [])
                            break
                        continue
                    for j1, p2s in second:
                        if j1 != j:
                            continue
                        for p2 in p2s:
                            pe2 = D.PathEval(inp)
                            try:
                                if not pe2.satisfies(p2.conds) or p2.kind.startswith("stuck:"):
                                    continue
                                if p2.kind != c2.halt:
                                    bad = ("tx2", f"outcome:{p2.kind}-vs-{c2.halt}", [], [])
                                    break
                                got2 = pe2.bytes_of(p2.data)
                                ctx.count("multi:tx2-compared")
                                if p2.kind == "success" and got2 != c2.data:
                                    bad = ("tx2", "loaded-value", words(got2), words(c2.data))
                                    break
                            except D.Unknown as u:
                                ctx.count("multi:eval-unknown:" + str(u)[:20])
                                if str(u).startswith("storage_"):
                                    bad = ("tx2", "undefined-storage-symbol-in-loaded-value", [str(u)[:60]], [])
                                    break
                        if bad:
                            break
                    if bad:
                        break
                ctx.case(("multi", tuple(sorted(mp.contracts().items())), layout, tuple(inp.args)))
                if bad and not mp.name and layout == "generic" and "below-hash+index" in mp.kinds() and bad[1] == "loaded-value":
                    # generated (hash - k) + i in the generic layout: the known zero-extension finding, as in the single-account programs
                    ctx.violation(KEY_NEGGEN, f"[generated multi-account program / generic] (hash - k) + i: SEVM {bad[2]} vs EVM {bad[3]}",
                                  {"multi": mp.describe(), "layout": layout, "args": [hex(a) for a in inp.args], "tx": bad[0], "sevm": bad[2], "evm": bad[3]})
                    ctx.count("multi:mismatch-known-neggen")
                elif bad:
                    tx, kind, got, exp = bad
                    key = f"C08|multi-account|{layout}|{tx}|{kind}|" + (f"directed:{mp.name}" if mp.name else "kinds:" + ",".join(sorted(mp.kinds())))
                    ctx.violation(key, f"[{mp.name or 'generated'} / {layout}] accounts A, B(, C) deployed before a transaction started with run_message: in {tx} "
                                  f"the words returned (own loads + callee's loads) differ from the EVM ({kind}) for args {[hex(a) for a in inp.args]}: "
                                  f"SEVM {got} vs EVM {exp} — storage / transient storage is per account, transient storage is empty at the start of every "
                                  "transaction and persistent storage carries over",
                                  {"multi": mp.describe(), "layout": layout, "args": [hex(a) for a in inp.args], "tx": tx, "sevm": got, "evm": exp})
                    ctx.count("multi:mismatch")
                else:
                    ctx.count("multi:agree")


# ======================================================================================================================
# direct decoder tests on hand-built terms (shapes the SEVM never builds itself: n-ary sums, operand orders)
# ======================================================================================================================
def direct_decode_cases(ctx, variant):
    D = _engine()
    import z3
    from vlib import sevmdrv
    from halmos.utils import f_sha3_256, f_sha3_512

    rng = ctx.rng
    x, y, zv = z3.BitVec("a0", 256), z3.BitVec("a1", 256), z3.BitVec("a2", 256)
    c = lambda v, w=256: z3.BitVecVal(v, w)
    h1 = lambda b: f_sha3_256(b)
    h2 = lambda k, b: f_sha3_512(z3.Concat(k, b))
    f264 = z3.Function("f_sha3_264", z3.BitVecSort(264), z3.BitVecSort(256))
    k8 = z3.BitVec("k8", 8)
    pre = precomputed_tables()
    hv, hslot = next(iter(pre["keccak256_256"].items()))
    terms = []
    bases = [h1(c(3)), h2(x, c(1)), h2(y, h2(x, c(0))), h1(h1(c(2)) + x), f264(z3.Concat(k8, c(4))), c(hv), c(hv + 3), c(7)]
    offs = [x, y, c(1), c(0), x * 2, zv + 1]
    for b in bases:
        terms.append(b)
        for _ in range(4):
            k = rng.randrange(1, 4)
            ops = [rng.choice(offs) for _ in range(k)]
            pos = rng.randrange(k + 1)
            ops.insert(pos, b)
            t = ops[0]
            for o in ops[1:]:
                t = t + o
            terms.append(t)
            if len(ops) >= 3:   # a genuinely n-ary bvadd node
                terms.append(z3.BitVecRef(z3.Z3_mk_bvadd(t.ctx_ref(), ops[0].as_ast(), (ops[1] + ops[2]).as_ast()), t.ctx))
    # ambiguous sums: two hashed operands → ValueError
    terms.append(h1(c(1)) + h1(c(2)))
    terms.append(x + h2(x, c(1)) + h1(c(2)))
    # n-ary via z3's own flattening
    terms.append(z3.simplify(h1(c(3)) + x + y + 5))
    terms.append(z3.simplify(x + y))
    terms.append(z3.Sum(h2(x, c(1)), y, c(2)) if hasattr(z3, "Sum") else h2(x, c(1)) + y + 2)
    out = []
    for layout in ("solidity", "generic"):
        sevm, args = sevmdrv.mk_sevm(storage_layout=layout)
        ex = sevmdrv.mk_ex(sevm, args, b"\x00")
        for _ in range(3):
            vals = {"a0": rng.choice([0, 1, 2, rng.randrange(W)]), "a1": rng.choice([0, 1, 2, rng.randrange(W)]),
                    "a2": rng.randrange(W), "k8": rng.randrange(256)}
            for t in terms:
                out.append((layout, sevm, ex, t, vals))
    return out


def normalize_family(ctx):
    """sevm.normalize on Concat shapes, directly: the result must have the same width and the same value under random valuations
    (the model takes `normalize` as a meaning-preserving parameter).  Shapes: the byte-split word
    Concat(Extract(255, 8, op(x, y)), op(Extract(7, 0, x), Extract(7, 0, y))) that normalize folds back into op(x, y), in first / middle /
    last position among other operands (symbols, constants, hashes, other split words, near-miss pairs that must NOT fold)."""
    import z3
    from vlib.zeval import Evaluator
    from halmos.sevm import normalize

    rng = ctx.rng
    D = _engine()
    x, y, a, b = (z3.BitVec(n, 256) for n in ("a0", "a1", "a2", "a3"))
    ops = {"add": lambda p, q: p + q, "sub": lambda p, q: p - q, "mul": lambda p, q: p * q, "and": lambda p, q: p & q,
           "or": lambda p, q: p | q, "xor": lambda p, q: p ^ q}

    def split(op, p, q):
        return [z3.Extract(255, 8, ops[op](p, q)), ops[op](z3.Extract(7, 0, p), z3.Extract(7, 0, q))]

    def near_miss(p, q):     # looks similar, must stay: different operands / different cut
        k = rng.randrange(3)
        if k == 0:
            return [z3.Extract(255, 8, p + q), z3.Extract(7, 0, p) + z3.Extract(7, 0, a)]
        if k == 1:
            return [z3.Extract(255, 16, p + q), z3.Extract(15, 0, p) + z3.Extract(15, 0, q)]
        return [z3.Extract(255, 8, p + q), z3.Extract(7, 0, p)]

    def other():
        k = rng.randrange(5)
        return [[a], [b], [z3.BitVecVal(rng.choice([0, 1, 2, 7, W - 1]), 256)], [z3.BitVecVal(rng.randrange(256), 8)],
                [z3.Extract(159, 0, a)]][k]

    n = ctx.scale(150, 2000)
    for i in range(n):
        nseg = rng.randrange(1, 6)
        segs, descr = [], []
        for _ in range(nseg):
            k = rng.random()
            if k < 0.45:
                op = rng.choice(sorted(ops))
                p, q = rng.sample([x, y, a, b], 2)
                segs += split(op, p, q)
                descr.append("split-" + op)
            elif k < 0.6:
                segs += near_miss(*rng.sample([x, y, a, b], 2))
                descr.append("near-miss")
            else:
                segs += other()
                descr.append("other")
        if len(segs) < 2:
            segs += other()
            descr.append("other")
        t = z3.Concat(*segs)
        # z3py builds left-nested binary Concats; halmos' memory reads give n-ary ones: flatten through simplify-free rebuild
        flat = z3.BitVecRef(z3.Z3_mk_concat(t.ctx_ref(), segs[0].as_ast(), segs[1].as_ast()), t.ctx)
        for sg in segs[2:]:
            flat = z3.BitVecRef(z3.Z3_mk_concat(t.ctx_ref(), flat.as_ast(), sg.as_ast()), t.ctx)
        for form, term in (("nested", flat), ("nary", z3.simplify(z3.Concat(*[z3.BitVec(f"q{j}", sg.size()) for j, sg in enumerate(segs)])))):
            if form == "nary":       # an n-ary Concat node with the real operands substituted in
                term = z3.substitute(term, *[(z3.BitVec(f"q{j}", sg.size()), sg) for j, sg in enumerate(segs)])
            try:
                out = normalize(term)
            except Exception as e:  # noqa: BLE001
                ctx.violation(f"C08|normalize|exception:{type(e).__name__}", f"normalize raised {e!r:.120} on {str(term)[:200]}", {"term": term.sexpr()[:2000]})
                continue
            shape = "+".join(descr)
            ctx.count("normalize:" + form + ":args=" + str(min(term.num_args(), 9)))
            ctx.case(("normalize", form, term.sexpr()))
            if out.decl().name() != "concat" or out.num_args() < term.num_args():
                ctx.count("normalize:folded:" + form)
            if out.size() != term.size():
                pos = "first" if descr[0].startswith("split") else "middle-or-last"
                ctx.violation(f"C08|normalize|width-changed|split-word-{pos}|{form}",
                              f"sevm.normalize changed the width of a {term.size()}-bit Concat to {out.size()} bits (operands after a folded "
                              f"byte-split word are lost): shape {shape}: {str(term)[:300]} -> {str(out)[:200]}",
                              {"term": term.sexpr()[:3000], "normalized": out.sexpr()[:3000], "shape": shape})
                continue
            for _ in range(3):
                env = {f"a{j}": rng.choice([0, 1, 0xFF, 0x100, W - 1, rng.randrange(W)]) for j in range(4)}
                ev = Evaluator(dict(env), default_uf=D._default_uf)
                if int(ev(term)) != int(ev(out)):
                    ctx.violation(f"C08|normalize|value-changed|{form}", f"sevm.normalize changed the value of {str(term)[:300]} (shape {shape}) under {env}",
                                  {"term": term.sexpr()[:3000], "normalized": out.sexpr()[:3000], "env": {k: hex(v) for k, v in env.items()}})
                    break


class _Fixed:
    """rng stand-in: every initial value is `v`"""

    def __init__(self, v):
        self.v = v

    def choice(self, xs):
        return self.v

    def randrange(self, *a):
        return self.v


class _ValsEval:
    """PathEval-like evaluator for bare terms under explicit values"""

    def __init__(self, vals):
        from vlib.zeval import Evaluator

        D = _engine()
        self.ev = Evaluator(dict(vals), default_uf=D._default_uf)

    def word(self, t):
        return int(self.ev(t))


# ======================================================================================================================
# the check
# ======================================================================================================================
def packed_literal_split():
    """does SolidityStorage.decode split a fully concrete packed preimage f_sha3_264(<constant>) into (base, key, 0)?"""
    import z3
    from vlib import sevmdrv

    sevm, args = sevmdrv.mk_sevm(storage_layout="solidity")
    ex = sevmdrv.mk_ex(sevm, args, b"\x00")
    f264 = z3.Function("f_sha3_264", z3.BitVecSort(264), z3.BitVecSort(256))
    try:
        d = sevm.storage_model.decode(ex, f264(z3.BitVecVal((1 << 256) + 4, 264)))
    except Exception:  # noqa: BLE001
        return False
    return len(d) == 3


def generic_literal_split():
    """does GenericStorage.decode decode the base word of a fully concrete packed preimage f_sha3_264(<key ‖ keccak(2)>)?"""
    import z3
    from vlib import sevmdrv

    sevm, args = sevmdrv.mk_sevm(storage_layout="generic")
    ex = sevmdrv.mk_ex(sevm, args, b"\x00")
    f264 = z3.Function("f_sha3_264", z3.BitVecSort(264), z3.BitVecSort(256))
    h2 = slot_of(("arr", ("lit", 2)), ())
    try:
        d = sevm.storage_model.decode(ex, f264(z3.BitVecVal((1 << 256) + h2, 264)))
    except Exception:  # noqa: BLE001
        return False
    return d.size() > 264 + 257


def harvest_literals():
    """integer literals in the source of the functions under test (and ±1)"""
    out = set()
    want = {"sevm.py": {"StorageData", "KeccakRegistry", "SolidityStorage", "GenericStorage", "normalize", "select", "sha3_data",
                        "assume_sha3_distinct", "sha3_hash", "sha3_expr", "fresh_transient_storage", "sload", "sstore"},
            "utils.py": {"OffsetMap", "mk_precomputed_keccak_registry", "match_dynamic_array_overflow_condition"}}
    for fn, names in want.items():
        tree = ast.parse((FsPath(REPO) / "src" / "halmos" / fn).read_text())
        for node in ast.walk(tree):
            if isinstance(node, (ast.FunctionDef, ast.ClassDef)) and node.name in names:
                for n in ast.walk(node):
                    if isinstance(n, ast.Constant) and type(n.value) is int and 0 <= n.value < W:
                        out |= {n.value, n.value + 1, max(n.value - 1, 0)}
                    # 2**k written as a power
                    if isinstance(n, ast.BinOp) and isinstance(n.op, ast.Pow) and isinstance(n.left, ast.Constant) \
                            and isinstance(n.right, ast.Constant) and n.left.value == 2 and isinstance(n.right.value, int) and n.right.value <= 256:
                        v = 2 ** n.right.value
                        out |= {v % W, (v + 1) % W, v - 1}
    return sorted(out)


def correspond(ctx):
    t_start = time.time()
    D = _engine()
    from props import keccak_probe, offsetmap_probe as OP

    # ---------------------------------------------------------------- 1. probes
    OM = OP.load_offsetmap()
    variant = OP.probe(OM)
    ctx.count("offsetmap-variant:" + variant)
    ctx.extra["offsetmap_variant"] = variant
    ctx.extra["offsetmap_source"] = OP.source_variant()
    if variant == "current":
        cex = OP.replay_cex(OM)
        if cex is not None:
            ctx.violation(KEY_OM, "OffsetMap.__getitem__ probes only the bucket of the key: after m[k] = v, m[k + d] is (None, None) "
                          "when k % 2^16 + d crosses the bucket boundary (witness of Lean offsetmap_lookup_cex: "
                          f"k = keccak(17573), d = 5): {cex}", cex)
        ctx.extra["offsetmap_differential"] = OP.differential(OM, ctx.rng, ctx.scale(300, 5000), "current", ctx.count, ctx.case)
    elif variant == "fixed":
        ctx.extra["offsetmap_differential"] = OP.differential(OM, ctx.rng, ctx.scale(300, 5000), "fixed", ctx.count, ctx.case)
        bad = OP.spec_violations(OM, ctx.rng, ctx.scale(300, 3000), ctx.count)
        for b in bad[:3]:
            ctx.violation(f"C08:offsetmap-lookup:bits={b['bits']}:crossing={b['crossing']}", f"OffsetMap: m[k]=v then m[k+d] != (v, d): {b}", b)
    else:
        bad = OP.spec_violations(OM, ctx.rng, ctx.scale(400, 4000), ctx.count)
        seen = set()
        for b in bad:
            k = f"C08:offsetmap-lookup:bits={b['bits']}:crossing={b['crossing']}"
            if k not in seen:
                seen.add(k)
                ctx.violation(k, f"OffsetMap (neither the pinned nor the corrected behaviour): m[k]=v then m[k+d] != (v, d): {b}", b)
    ctx.extra["keccak_probe"] = keccak_probe.validate(ctx.rng, ctx.scale(600, 5000), count=ctx.count)

    t_probes = time.time() - t_start
    pool = sorted(set(harvest_literals()) | {0, 1, 2, 3, 5, 17573, 143, 193, 0xFFFF, 0x10000, (1 << 64) - 1, 1 << 64, W - 1})
    ctx.extra["harvested_literals"] = len(pool)
    global CONCRETE_PACKED_OK
    CONCRETE_PACKED_OK = packed_literal_split()
    model_variant = variant if variant in ("current", "fixed") else "current"
    global GENERIC_SPLIT_OK
    GENERIC_SPLIT_OK = generic_literal_split()
    if GENERIC_SPLIT_OK:
        model_variant += "+gsplit"      # /repo carries the repair of KEY_GNEST
    if CONCRETE_PACKED_OK:
        model_variant += "+packed"      # /repo carries the repair of KEY_PACKED: the model uses normalizeMSplit
    ctx.extra["model_variant"] = model_variant

    model_lines, model_expected, model_descr = [], [], []

    def queue_model(sr, layout, inputs, prog):
        """model correspondence requests for the first covering (path, input) pairs of this run"""
        done = set()
        for inp in inputs:
            for j, p, pe in covering_paths(D, sr, inp, ctx):
                if j in done or p.kind.startswith("stuck:"):
                    continue
                done.add(j)
                lines, exp, descr = model_requests(D, sr, p, pe, layout, model_variant)
                model_lines.extend(lines)
                model_expected.extend(exp)
                model_descr.extend([(prog.name or prog.code().hex()[:40], layout, d, [hex(a) for a in inp.args]) for d in descr])
            if len(done) == len(sr.paths):
                break

    # ---------------------------------------------------------------- 2. + 3. programs
    corpus_dir = VERIF / "corpus" / ID
    stored, stored_multi, skipped_names = [], [], set()
    if corpus_dir.is_dir():
        for f in sorted(corpus_dir.glob("*.json")):
            d = json.loads(f.read_text())
            if d.get("tier") == "thorough" and ctx.tier == "quick":
                skipped_names.add(d.get("name", f.stem))
                continue
            if "multi" in d:
                stored_multi.append(Multi({n: Prog(list(_tuplify(st)), d["nargs"]) for n, st in d["multi"].items()}, d["nargs"], name=d.get("name", f.stem)))
                ctx.count("corpus-file")
                continue
            stored.append((Prog(list(_tuplify(d["stmts"])), d["nargs"], name=d.get("name", f.stem)), d.get("expect")))
            ctx.count("corpus-file")
    directed = directed_programs(ctx, variant, have={p.name for p, _ in stored} | skipped_names)
    n_gen = ctx.scale(45, 200)
    generated = []
    for i in range(n_gen):
        p = gen_program(ctx.rng, pool)
        generated.append((p, None))
        for k in p.kinds():
            ctx.count("gen:" + k)
        for s in p.stmts:
            ctx.count("gen-op:" + s[0])
    t_sym = t_ref = t_cmp = 0.0
    expected_seen = {}
    all_progs = stored + directed + generated
    CHUNK = 40      # SymRun objects (Exec, solver) are released after each chunk
    for c0 in range(0, len(all_progs), CHUNK):
        jobs, batch = [], Batch()
        for prog, expect in all_progs[c0:c0 + CHUNK]:
            scn = scenario_of(prog)
            for layout in ("solidity", "generic"):
                _t = time.time()
                sr = D.symbolic_run(scn, storage_layout=layout)
                t_sym += time.time() - _t
                ctx.count(f"paths:{min(len(sr.paths), 9)}")
                for p in sr.paths:
                    ctx.count(f"pathkind:{layout}:{p.kind}")
                if sr.escaped:
                    ctx.violation(f"C08|escaped:{sr.escaped.split(':')[0]}|{layout}",
                                  f"an internal exception escaped SEVM.run on a storage program: {sr.escaped[:200]}", replay_body(prog, layout, {}))
                    continue
                inputs = choose_inputs(ctx, prog, sr, scn, ctx.scale(1, 4), pool, minimal=prog.name.startswith("sweep-"))
                bi = batch.add(D, scn, inputs)
                jobs.append((prog, layout, sr, inputs, expect, bi))
        _t = time.time()
        concs = batch.run(ctx, D)
        t_ref += time.time() - _t
        _t = time.time()
        for prog, layout, sr, inputs, expect, bi in jobs:
            mism = []
            compare_outputs(ctx, D, prog, layout, sr, inputs, concs[bi], mism.append)
            stuck = [p.kind for p in sr.paths if p.kind.startswith("stuck:")]
            if prog.name:
                ctx.count("directed:" + ("mismatch" if mism else "agree"))
            if expect:       # "KEY" | "KEY@layout" | "KEY1@solidity|KEY2@generic"
                alts = [e.partition("@") for e in expect.split("|")]
                expect = next((k for k, _, lay in alts if not lay or lay == layout), None)
            elif not prog.name and layout == "generic" and "below-hash+index" in prog.kinds():
                expect = KEY_NEGGEN     # generated (hash - k) + i in the generic layout: the known zero-extension finding
            if mism:
                info = mism[0]
                if expect == KEY_LARGE and not REPORT_LARGE_PREIMAGE and info["kind"] == "loaded-value":
                    ctx.count("large-preimage:spellings-differ(documented: hashes of preimages > 128 bytes are not tracked)")
                elif expect and (variant != "fixed" or not expect.startswith(KEY_OM)) and info["kind"] == "loaded-value":
                    expected_seen.setdefault(expect, []).append((prog, layout, info))
                else:
                    kinds = ",".join(sorted(prog.kinds()))
                    key = (f"C08|{info['kind']}|{layout}|" + (f"directed:{prog.name}" if prog.name else f"kinds:{kinds}"))
                    ctx.violation(key, f"[{prog.name or 'generated'} / {layout}] the value the SEVM loads differs from the EVM "
                                  f"({info['kind']}): {json.dumps({k: v for k, v in info.items() if k != 'evm' or isinstance(v, list)}, default=str)[:600]}",
                                  replay_body(prog, layout, info))
            elif expect and variant == "current" and expect.startswith(KEY_OM):
                ctx.note(f"directed case {prog.name} / {layout}: expected the bucket-boundary defect ({expect}) but outputs agree")
                ctx.count("directed:expected-defect-not-reproduced")
            if stuck and prog.name:
                ctx.count("directed-stuck:" + stuck[0])
            # model correspondence on every program in quick, on a third of the sweep programs in thorough
            if not prog.name.startswith("sweep-") or ctx.tier == "quick" or ctx.rng.random() < 0.33:
                queue_model(sr, layout, inputs, prog)
        t_cmp += time.time() - _t
        del jobs, batch, concs
        import gc
        gc.collect()
    for key, lst in expected_seen.items():
        prog, layout, info = lst[0]
        what = {
            KEY_17573: "dynamic array at slot 17573 (keccak low 16 bits 0xffff): sstore(keccak(slot) + i, 0x77) on the path i == 5, then "
                       "sload(PUSH32 (hash + 5)) returns 0 (EVM: 0x77); the same program with base slot 1 returns 0x77",
            KEY_143: "dynamic array at slot 143: index 193 crosses the 2^16 bucket of OffsetMap, sload(PUSH32 (hash + 193)) returns 0 (EVM 0x77); index 192 is fine",
            KEY_SWEEP: "hash constants of the precomputed tables plus the smallest offset that crosses their 2^16 bucket are not recognised "
                       f"({len(lst)} program/layout pairs, first: {prog.name})",
            KEY_PACKED: "mapping with a packed (1-byte) key at slot 4: sstore(keccak(bytes1(a0) ‖ 4), 0x66) then, on the path a0 == 1, "
                        "sload(keccak(0x01 ‖ 4)) returns 0 (EVM 0x66): a hash whose whole preimage is concrete comes back from reverse_lookup as "
                        "f_sha3_264(<constant>), which decode does not split (it expects a Concat), so the location becomes the scalar cell at "
                        "the literal hash instead of (4, key, 0)",
            KEY_GNEST: "generic layout: mapping(bytes1 => uint) as element 0 of the dynamic array at slot 2 (base = keccak(2)): sstore(keccak(0x01 ‖ keccak(2)), 0x66) "
                       "with the concrete key, then sload(keccak(bytes1(a0) ‖ keccak(2))) returns 0 for a0 == 1 (EVM 0x66), and after sstore(symbolic spelling, 0x67) "
                       "the load through the concrete spelling returns the stale 0x66: the registered hash comes back from reverse_lookup as "
                       "f_sha3_264(<constant>), and GenericStorage.decode keeps the whole constant (simple_hash(decode(const))) without decoding its low "
                       "256 bits, while the symbolic spelling Concat(key, keccak(2)) decodes the base to simple_hash(2): two cells for one slot",
            KEY_LARGE: "sha3_data returns the hash of a concrete preimage longer than 128 bytes as a bare constant without registering it, so the "
                       "element of mapping(bytes => uint) reached with a concrete 97-byte key is a scalar slot while the same element reached with a "
                       "symbolic key decodes to the mapping cell: store through one spelling, load through the other returns 0 / a stale value",
            KEY_NEGGEN: "generic layout: sstore((keccak(2) - 1) + i, 0x77) — the compiler's a[i - 1] — then on the path i == 3 "
                        "sload(PUSH32 (keccak(2) + 2)) returns 0 (EVM 0x77): reverse_lookup gives keccak(2) + (2^256 - 1) and GenericStorage.add_all "
                        f"zero-extends that 256-bit negative delta to the 513-bit decoded width, so (hash - 1) + i never wraps back to hash + (i - 1) "
                        f"({len(lst)} program/layout pairs; the solidity layout adds in 256 bits and agrees)",
            KEY_DOWN: "generic layout: (keccak(2) - k) + i with hash - k below the 2^16 bucket of the hash (not recognised by OffsetMap) is kept as the "
                      "raw 256-bit slot `constant + i`, while the same element written hash + j is decoded structurally: sload(PUSH32 (hash + 2)) "
                      "after sstore((hash - k) + i, 0x77) on the path i == k + 2 returns 0 (EVM 0x77); the solidity layout is stuck on it (fail-safe)",
            KEY_NESTPACK_G: "generic layout: the decoded location of nested packed-key mappings is key2 ‖ key1 ‖ slot ‖ pads and cells are keyed by the "
                            "total width only: in mapping(string => mapping(string => uint)) m['b']['\\0cd'] and m['db']['\\0c'] decode to the same "
                            "802-bit value, so a store to one is read through the other (EVM: different slots, reads 0)",
            KEY_NESTPACK: "solidity layout: StorageData cells are keyed by (slot, num_keys, total key bits) and indexed by the concatenation of the "
                          "keys: in mapping(string => mapping(string => uint)) at slot 0, m['a']['\\0cd'] (key widths 8, 24) and m['a\\0']['cd'] "
                          "(16, 16) get the same cell (0, 4, 544) and the same concatenated key, so a store to one is read through the other "
                          "(EVM: different slots, reads 0)",
            KEY_BIGOFF: "PUSH32 (keccak(1) + 200000): constant offsets ≥ 2^17 (beyond the reach of OffsetMap, also with the previous-bucket probe of the proposed fix) are not "
                        "recognised as an element of the array: the load returns 0 (EVM 0x77)",
        }.get(key, key)
        if key.startswith(KEY_CONCAT.split("%")[0]):
            what = ("generic layout: dynamic array whose data slot hash has zero low bits: sstore(hash + i, 0xdead); sstore(hash + (i & 3), 0x77); "
                    "sload(hash + i) returns 0xdead for i < 4 (EVM 0x77): the sum with the masked index reaches GenericStorage.decode as "
                    "Concat(hash[255:2], i[1:0]), which is kept as an opaque 256-bit slot, while hash + i is decoded structurally — two cells "
                    "for one slot (the solidity layout raises 'symbolic storage base slot' on the same term: stuck, fail-safe)")
        ctx.violation(key, f"[{prog.name} / {layout}] {what}; SEVM {info.get('sevm')} vs EVM {info.get('evm')} for args {[hex(a) for a in info['args']]}",
                      replay_body(prog, layout, info))

    t_main = time.time() - t_start - t_probes
    # ---------------------------------------------------------------- several accounts, run_message, two transactions
    _t = time.time()
    multi_account_family(ctx, D, pool, stored_multi)
    t_multi = time.time() - _t
    # ---------------------------------------------------------------- transient storage across transactions
    tcases = [(("lit", 3), ("lit", 3), False), (("map", ("a", 0), ("lit", 1), 32), ("map", ("c", 1), ("lit", 1), 32), True),
              (("off", ("arr", ("lit", 2)), ("a", 0), False), ("off", ("arr", ("lit", 2)), ("c", 2), True), True),
              (("map", ("a", 0), ("lit", 1), 32), ("map", ("a", 0), ("lit", 1), 32), True)]
    for layout in ("solidity", "generic"):
        for ls, ll, symk in tcases:
            code, verdicts = transient_two_tx(ctx, layout, variant, ls, ll, symk)
            for v, info in verdicts:
                ctx.count("transient-two-tx:" + v)
                ctx.case(("transient", layout, code, json.dumps(info, default=str)))
                if v != "ok":
                    ctx.violation(f"C08|transient-two-transactions|{layout}|{v}",
                                  f"transient storage / storage across two run_message transactions ({layout}): {info}",
                                  {"code": code.hex(), "layout": layout, "info": json.loads(json.dumps(info, default=str))})

    # ---------------------------------------------------------------- symbolic storage (unconstrained initial values)
    sym_jobs, sbatch = [], Batch()
    for i in range(ctx.scale(14, 50)):
        prog = gen_program(ctx.rng, pool)
        prog.stmts = [(("s" + s[0][1:]) if s[0] in ("tstore", "tload") else s[0],) + tuple(s[1:]) for s in prog.stmts]
        scn = scenario_of(prog)
        sr = symbolic_run_with_storage(D, scn, "solidity")
        ctx.count("symbolic-storage:programs")
        if sr.escaped:
            ctx.violation(f"C08|symbolic-storage|escaped:{sr.escaped.split(':')[0]}", f"exception escaped SEVM.run with symbolic storage: {sr.escaped[:200]}",
                          replay_body(prog, "solidity", {}))
            continue
        inputs = choose_inputs(ctx, prog, sr, scn, 1, pool, solver=False)[: ctx.scale(8, 16)]
        for inp in inputs:
            flat, uf, conflicts = initial_storage_for(D, prog, inp.args, ctx.rng)
            inp.initial_uf = uf
            if conflicts:
                ctx.count("symbolic-storage:cell-conflict")
            bi = sbatch.add(D, scn, [inp], pre_storage={(D.MAIN, k): v for k, v in flat.items() if v})
            sym_jobs.append((prog, sr, inp, bi))
    sdirected = {}
    for prog, arglists, expect in symbolic_directed():
        scn = scenario_of(prog)
        sr = symbolic_run_with_storage(D, scn, "solidity")
        ctx.count("symbolic-storage:directed")
        sdirected[prog.name] = expect
        for a in arglists:
            inp = mk_inputs(D, a)
            flat, uf, _ = initial_storage_for(D, prog, inp.args, _Fixed(0xAB))     # every touched slot initially 0xab
            inp.initial_uf = uf
            bi = sbatch.add(D, scn, [inp], pre_storage={(D.MAIN, k): v for k, v in flat.items()})
            sym_jobs.append((prog, sr, inp, bi))
    sconcs = sbatch.run(ctx, D)
    for prog, sr, inp, bi in sym_jobs:
        mism = []
        compare_outputs(ctx, D, prog, "solidity+symbolic-storage", sr, [inp], sconcs[bi], mism.append)
        ctx.count("symbolic-storage:" + ("mismatch" if mism else "agree"))
        if mism and sdirected.get(prog.name) == KEY_TAXIOM and mism[0]["kind"] == "uncovered":
            ctx.violation(KEY_TAXIOM, f"[{prog.name}] solidity layout, symbolic persistent storage: TLOAD(m[k]) appends the emptiness axiom "
                          "Select(storage_<addr>_<slot>_<nk>_<sz>_00, k) == 0 for the *transient* cell, but SolidityStorage.empty gives the transient and the "
                          "persistent cell the same array name, so the axiom also forces the unconstrained initial persistent value of m[k] to 0: "
                          f"an initial storage with m[k] = 0xab is covered by no path (args {[hex(a) for a in inp.args]}; EVM returns (0, 0xab))",
                          replay_body(prog, "solidity", dict(mism[0], symbolic_storage=True)))
        elif mism:
            info = mism[0]
            ctx.violation(f"C08|symbolic-storage|{info['kind']}|" + (f"directed:{prog.name}" if prog.name else f"kinds:{','.join(sorted(prog.kinds()))}"),
                          f"[symbolic storage] with an arbitrary initial storage the loaded values differ from the EVM: "
                          f"{json.dumps({k: v for k, v in info.items() if k != 'evm' or isinstance(v, list)}, default=str)[:600]}",
                          replay_body(prog, "solidity", dict(info, symbolic_storage=True)))

    # ---------------------------------------------------------------- normalize on Concat shapes, directly
    normalize_family(ctx)

    # ---------------------------------------------------------------- 5. direct decoder cases
    for layout, sevm, ex, t, vals in direct_decode_cases(ctx, variant):
        pe = _ValsEval(vals)
        ser = Ser(pe)
        try:
            term = ser(t)
            exp = real_decode(D, sevm, ex, t, pe, layout)
        except D.Unknown:
            continue
        except Exception as e:  # noqa: BLE001   z3 sort errors inside decode etc.
            exp = "exc " + type(e).__name__
        L = "G" if layout == "generic" else "S"
        model_lines.append(f"decode {L} {model_variant} | - | {term} | {ser.env_str()}")
        model_expected.append(exp)
        model_descr.append(("direct", layout, ("decode", str(t)[:160]), vals))
        ctx.count("direct-decode:" + exp.split(" ")[0] + (":" + exp.split(" ")[1] if exp.startswith("err") else ""))

    # ---------------------------------------------------------------- 4. the Lean model on everything queued
    _t = time.time()
    replies = ctx.lean("Storage").ask(model_lines) if model_lines else []
    t_model = time.time() - _t
    bad = []
    for line, exp, got, descr in zip(model_lines, model_expected, replies, model_descr):
        kind = descr[2][0]
        ctx.count("model:" + kind + ":" + ("agree" if exp == got else "differ"))
        ctx.case(("model", line))
        if exp != got:
            if got.startswith("err symbolicSlot") and exp.startswith("ok") and "c:" in line:
                ctx.count("model:concretization-of-a-subterm-not-modelled")   # int_of substitutes inside the base slot term
                continue
            bad.append((descr, exp, got, line))
    ctx.extra["model_requests"] = len(model_lines)
    ctx.extra["programs"] = len(stored) + len(directed) + len(generated)
    ctx.extra["phase_wall_s"] = {"symbolic_run": round(t_sym, 1), "reference_evm": round(t_ref, 1), "compare": round(t_cmp, 1),
                                 "model_driver": round(t_model, 1), "probes": round(t_probes, 1), "multi_account": round(t_multi, 1), "programs_total": round(t_main, 1), "total": round(time.time() - t_start, 1)}
    if len(ctx.samples) < 3 and generated:
        ctx.sample(generated[0][0].describe())
    if bad:
        # implementation vs model: if the SEVM-vs-EVM comparison found nothing, the model is stale (broken obligation)
        descr, exp, got, line = bad[0]
        raise RuntimeError(f"Lean Model.Storage disagrees with the real decoder/storage on {len(bad)} of {len(model_lines)} requests; "
                           f"first: {descr}: real={exp!r} model={got!r} request={line[:400]}")


def _tuplify(x):
    if isinstance(x, list):
        return tuple(_tuplify(e) for e in x)
    return x


def replay(ctx, data):
    """re-run one stored program on the real SEVM and the reference EVM; True if the outputs still differ"""
    D = _engine()
    body = data.get("replay", data)
    if "multi" in body:
        md = body["multi"]
        mp = Multi({n: Prog(list(_tuplify(st)), md["nargs"]) for n, st in md["multi"].items()}, md["nargs"], name=md.get("name", ""))
        before = len(ctx.violations)
        multi_account_family_one(ctx, D, mp)
        for v in ctx.violations[before:]:
            print("still differs:", v["what"][:400])
        return len(ctx.violations) > before
    if "program" not in body and "key" in body and "delta" in body:
        from props import offsetmap_probe as OP

        r = OP.replay_cex(OP.load_offsetmap(), int(body["key"], 16), int(body["delta"]), body.get("value", 1))
        print("OffsetMap witness:", r if r is not None else "the lookup now returns (value, delta)")
        return r is not None
    if "program" not in body:
        print("nothing to replay for this record (see 'what')")
        return True
    pd = body["program"]
    prog = Prog(list(_tuplify(pd["stmts"])), pd["nargs"], name=pd.get("name", ""))
    layout = body.get("layout", "solidity")
    scn = scenario_of(prog)
    sr = D.symbolic_run(scn, storage_layout=layout)
    args = [int(a, 16) for a in body.get("args", [])] or [0] * prog.nargs
    inputs = [mk_inputs(D, args)]
    b = Batch()
    bi = b.add(D, scn, inputs)
    concs = b.run(ctx, D)
    mism = []
    compare_outputs(ctx, D, prog, layout, sr, inputs, concs[bi], mism.append)
    for m in mism:
        print("still differs:", json.dumps(m, default=str)[:500])
    return bool(mism)
