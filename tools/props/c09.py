"""C09 — message calls are atomic and see the right context: the SEVM-vs-reference-EVM comparison on call-tree scenarios."""
ID = "C09"
EXTRACTORS = []
LEAN_MODULES = ["HalmosVerif.Props.C09", "HalmosVerif.Props.C09Core"]
RULE = ("call trees up to depth 4 over a pool of generated callee contracts (each reporting CALLER/CALLVALUE/ADDRESS/ORIGIN/"
        "SELFBALANCE/arguments, writing storage/transient storage, logging, ending in return/revert/invalid/out-of-bounds), "
        "every call kind (CALL/STATICCALL/DELEGATECALL/CALLCODE/CREATE), concrete and symbolic values and arguments; the real "
        "SEVM's end states are compared with the Lean reference EVM on concrete inputs: success flags and returndata seen by "
        "each caller, storage/transient storage/balances/created code after the tree, value conservation")
TRUSTED = ["Spec.Evm (Lean reference interpreter, frames with snapshot/rollback written from the Yellow Paper)",
           "tools/vlib/callsmodel.py + Driver/Calls.lean: the two compilers of a call tree (to EVM contracts / to a Model.Calls.Frame) follow the same conventions (checked against each other through the reference EVM on every case)"]
ASSUMPTIONS = ["CREATE addresses follow halmos' deterministic allocator; gas stipends and the 63/64 rule are not modelled"]

FEATURES = {"calls": True, "create": True, "static": True, "value_in_static": False}
CFGS = [{}, {"storage_layout": "generic"}]


def gen_tree(rng):
    """deeper call trees than the default generator: 3-4 callees chained, main makes 2-4 calls"""
    from vlib import asm, proggen
    from vlib.evmdiff import MAIN, Scenario

    f = dict(FEATURES)
    addrs = [0x2000 + i for i in range(rng.choice([2, 3, 4]))]
    contracts, hist, value_callees = {}, {}, set()
    for i, a in reversed(list(enumerate(addrs))):
        g = proggen.Gen(rng, 0, addrs[i + 1:], f)
        g.value_callees = value_callees
        body = g.callee_body()
        if addrs[i + 1:] and rng.random() < 0.8:   # force nesting
            g2 = proggen.Gen(rng, 0, addrs[i + 1:], f)
            g2.value_callees = value_callees
            body = g2.call_stmt() + body
            g.uses_value = g.uses_value or g2.uses_value
            for k, v in g2.hist.items():
                hist[k] = hist.get(k, 0) + v
        contracts[a] = asm.assemble(g.finish(body))
        if g.uses_value:
            value_callees = value_callees | {a}
        for k, v in g.hist.items():
            hist[k] = hist.get(k, 0) + v
    nargs = rng.choice([1, 2])
    g = proggen.Gen(rng, nargs, addrs, f)
    g.value_callees = value_callees
    items = []
    for _ in range(rng.randrange(2, 5)):
        items += g.call_stmt() if rng.random() < 0.8 else g.create_stmt()
        if rng.random() < 0.4:
            items += g.stmt(1)
    # expose balances and storage touched by the tree
    items += [("push", rng.choice(addrs)), "BALANCE", ("push", 0xA0), "MSTORE", ("push", rng.randrange(2)), "SLOAD", ("push", 0x80), "MSTORE"]
    items += g.terminator()
    contracts[MAIN] = asm.assemble(g.finish(items))
    for k, v in g.hist.items():
        hist[k] = hist.get(k, 0) + v
    return Scenario(contracts, nargs=nargs), hist


def correspond(ctx):
    from vlib import sevmcheck

    sevmcheck.run(ctx, ID, dict(FEATURES), n_scenarios=ctx.scale(70, 1500), n_random_inputs=ctx.scale(6, 12), cfgs=CFGS, gen=gen_tree)
    # model-vs-implementation: random call trees on the real SEVM, on Model.Calls (Driver/Calls.lean) and on the reference EVM
    from vlib import callsmodel

    callsmodel.run(ctx, n_trees=ctx.scale(150, 1200), n_inputs=ctx.scale(3, 4))


def replay(ctx, data):
    inner = data.get("replay", data)
    if isinstance(inner, dict) and inner.get("kind") == "callsmodel":
        from vlib import callsmodel

        return callsmodel.replay(ctx, inner)
    print("stored program and inputs are in the replay file; re-run ./check C09 to re-evaluate the corpus")
    return True
