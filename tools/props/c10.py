"""C10 — incomplete exploration is always reported.

Three layers:
 (a) SEVM level (vlib/sevmcheck.py on loop-heavy scenarios): an input covered by no reported path must come with a flag
     (bounded loop / stuck / warning); loops with a concrete trip count are never cut whatever --loop says;
 (b) exact model-vs-implementation comparison of the exploration flags on core programs (vlib/coremodel.py);
 (c) end to end through the real run_contract on hand-assembled test contracts with counted loops: a test whose failure
     lies beyond the unrolling bound may be reported PASS only together with the loop-bound warning / num_bounded_loops;
     the same for --width and --depth cuts, for setUp, and for the calls made during invariant testing.
"""
ID = "C10"
EXTRACTORS = []
LEAN_MODULES = ["HalmosVerif.Props.C10"]
RULE = ("(a) generated programs with counted loops (concrete and symbolic trip counts) under --loop in {1,2,3}: every concrete "
        "input is run on the reference EVM and must be covered by a reported path or the run must carry a flag; concrete-count "
        "loops longer than --loop must be fully explored; (b) core programs with a fixed oracle: flags equal the Lean model's; "
        "(c) test contracts check_loop(n) failing only at iteration k, for k below/above --loop, with --width/--depth cuts, in "
        "setUp and in invariant targets: PASS without the corresponding warning is a violation; a case = (program, config, input)")
TRUSTED = ["Spec.Evm ground truth; the artifact fabricator; halmos' logger as the observation point for warnings"]
ASSUMPTIONS = ["the `halmos` logger (incl. halmos.unique) is the channel through which warnings reach the user"]

LOOP_FEATURES = {"calls": False, "create": False, "sha3": False, "storage": True, "tstorage": False, "balance": False, "extcode": False}


def gen_loopy(rng):
    """programs dominated by counted loops; results accumulate in memory so that the iteration count is observable"""
    from vlib import asm, proggen
    from vlib.evmdiff import MAIN, Scenario

    g = proggen.Gen(rng, rng.choice([1, 2]), (), LOOP_FEATURES)
    items = []
    for _ in range(rng.randrange(1, 3)):
        top, end = g.fresh("loop"), g.fresh("lend")
        cnt = 0xC0
        if rng.random() < 0.5:
            n = [("push", rng.randrange(0, 7))]
            g.count("loop:concrete")
        else:
            n = g.arg() + [("push", rng.choice([3, 7])), "AND"]
            g.count("loop:symbolic")
        body = [("push", 1), ("push", 0x20), "MLOAD", "ADD", ("push", 0x20), "MSTORE"] + (g.stmt(0) if rng.random() < 0.5 else [])
        if rng.random() < 0.5:
            # while-shape: exit on the taken branch, loop back by JUMP
            items += (n + [("push", cnt), "MSTORE", ("label", top), ("push", cnt), "MLOAD", "ISZERO", ("ref", end), "JUMPI"] + body
                      + [("push", 1), ("push", cnt), "MLOAD", "SUB", ("push", cnt), "MSTORE", ("ref", top), "JUMP", ("label", end)])
            g.count("loop:while-shape")
        else:
            # do-while shape: the back edge is the TAKEN branch of the JUMPI (body runs n+1 times)
            items += (n + [("push", cnt), "MSTORE", ("label", top)] + body
                      + [("push", cnt), "MLOAD", "DUP1", ("push", 1), "SWAP1", "SUB", ("push", cnt), "MSTORE", ("ref", top), "JUMPI"])
            g.count("loop:do-while-shape")
        if rng.random() < 0.5:
            items += g.stmt(1)
    # outcome depends on the iteration count
    k = rng.randrange(0, 8)
    bad = g.fresh("bad")
    items += [("push", k), ("push", 0x20), "MLOAD", "EQ", ("ref", bad), "JUMPI", ("push", 0x40), ("push", 0), "RETURN",
              ("label", bad), ("push", 0x20), ("push", 0), "REVERT"]
    return Scenario({MAIN: asm.assemble(g.finish(items))}, nargs=g.nargs), g.hist


def concrete_loops_uncut(ctx):
    """a loop whose condition is concrete is never cut: trip counts up to 12 with --loop 1..3 must yield exactly one path,
    no bounded-loop flag, and the right result"""
    from vlib import asm
    from vlib import evmdiff as D

    for n in (0, 1, 2, 3, 5, 12):
        for loop in (1, 2, 3):
            code = asm.assemble_text(
                f"PUSH1 {n} top: DUP1 ISZERO PUSH @end JUMPI PUSH1 0x01 PUSH0 MLOAD ADD PUSH0 MSTORE PUSH1 0x01 SWAP1 SUB PUSH @top JUMP "
                f"end: POP PUSH1 0x20 PUSH0 RETURN")
            sr = D.symbolic_run(D.Scenario({D.MAIN: code}, nargs=1), loop=loop)
            ctx.case(("concrete-loop", n, loop))
            ctx.count("concrete-loop")
            ok = (len(sr.paths) == 1 and sr.paths[0].kind == "success" and not sr.bounded_loops
                  and D.PathEval(D.Inputs([0], 0xCAFE, 0xCAFE, 0, {})).bytes_of(sr.paths[0].data) == n.to_bytes(32, "big"))
            if not ok:
                ctx.violation(f"C10|concrete-loop-cut|loop={loop}",
                              f"a loop with the concrete trip count {n} was not explored to its end under --loop {loop}: "
                              f"paths={[p.kind for p in sr.paths]} bounded={len(sr.bounded_loops)}",
                              {"code": code.hex(), "trip_count": n, "loop": loop})


def e2e(ctx):
    from vlib import asm
    from vlib.artifacts import Fn, TestContract, run_contract_offline

    def loop_then_fail(k, mask=7):
        """n = arg0 & mask iterations; Panic(1) iff the loop ran exactly k times"""
        top, end = asm.fresh("top"), asm.fresh("end")
        return (asm.calldata_arg(0) + [("push", mask), "AND", ("label", top), "DUP1", "ISZERO", ("ref", end), "JUMPI",
                                        ("push", 1), ("push", 0x20), "MLOAD", "ADD", ("push", 0x20), "MSTORE",
                                        ("push", 1), "SWAP1", "SUB", ("ref", top), "JUMP", ("label", end), "POP"]
                + asm.if_then(asm.eq_const([("push", 0x20), "MLOAD"], k), asm.panic(1)))

    def loop_then_fail_store(k, mask=7):
        """n = arg0 & mask iterations; SSTORE(0, 1) iff the loop ran exactly k times"""
        top, end = asm.fresh("top"), asm.fresh("end")
        return (asm.calldata_arg(0) + [("push", mask), "AND", ("label", top), "DUP1", "ISZERO", ("ref", end), "JUMPI",
                                        ("push", 1), ("push", 0x20), "MLOAD", "ADD", ("push", 0x20), "MSTORE",
                                        ("push", 1), "SWAP1", "SUB", ("ref", top), "JUMP", ("label", end), "POP"]
                + asm.if_then(asm.eq_const([("push", 0x20), "MLOAD"], k), [("push", 1), ("push", 0), "SSTORE"]))

    def dowhile_then_fail(k, mask=7):
        """do { i++ } while (i < (arg0 & mask)); Panic(1) iff i == k — the back edge is the taken branch"""
        top = asm.fresh("dtop")
        return ([("label", top), ("push", 1), ("push", 0x20), "MLOAD", "ADD", "DUP1", ("push", 0x20), "MSTORE"]
                + asm.calldata_arg(0) + [("push", mask), "AND", "GT", ("ref", top), "JUMPI"]
                + asm.if_then(asm.eq_const([("push", 0x20), "MLOAD"], k), asm.panic(1)))

    def warned(run, what):
        text = " ".join(run.warnings) + " " + run.stdout
        return what in text

    rng = ctx.rng
    cases = []
    for k in (1, 2, 3, 5):
        for loop in (1, 2, 3, 6):
            cases.append((k, loop))
    if ctx.tier == "quick":
        cases = rng.sample(cases, 10)
    for k, loop in cases:
        shape = rng.choice(["while", "dowhile"])
        ctx.count("e2e:shape-" + shape)
        body = loop_then_fail(k) if shape == "while" else dowhile_then_fail(k)
        c = TestContract("LoopT", [Fn("check_loop(uint256 n)", body)])
        run = run_contract_offline(c, loop=loop)
        r = run.results[0]
        ctx.case(("e2e-loop", k, loop))
        ctx.count(f"e2e:verdict-{r.exitcode}")
        reachable_within = k <= loop
        flagged = (r.num_bounded_loops or 0) > 0 or warned(run, "loop")
        if r.exitcode == 0 and not flagged:
            ctx.violation(f"C10|e2e|clean-PASS-with-failure-beyond-loop-bound|regular|{shape}",
                          f"check_loop ({shape} loop) fails after exactly {k} iterations; with --loop {loop} halmos reports PASS without a loop-bound warning",
                          {"k": k, "loop": loop, "shape": shape, "stdout": run.stdout[-600:]})
        if reachable_within and r.exitcode == 0:
            ctx.count("e2e:PASS-though-reachable-within-bound")   # that is C03's subject; recorded here as information
    # --width / --depth cuts
    many = []
    for i in range(4):
        many += asm.if_then(asm.eq_const(asm.calldata_arg(0), 10 + i), [("push", i), "POP"])
    many += asm.if_then(asm.eq_const(asm.calldata_arg(0), 99), asm.panic(1))
    for opt, val, word in (("width", 2, "--width"), ("depth", 12, "--depth")):
        c = TestContract("CutT", [Fn("check_cut(uint256 n)", many)])
        run = run_contract_offline(c, **{opt: val})
        r = run.results[0]
        ctx.case(("e2e-cut", opt))
        ctx.count(f"e2e:{opt}-verdict-{r.exitcode}")
        if r.exitcode == 0 and not warned(run, "incomplete"):
            ctx.violation(f"C10|e2e|clean-PASS-with-{opt}-cut",
                          f"exploration was cut by --{opt} {val} (a failing path exists beyond the cut) but PASS came without the "
                          f"incomplete-execution warning", {"option": opt, "value": val, "stdout": run.stdout[-600:]})
    # a path stopped by an unsupported feature inside a NESTED frame (the test calls a helper of its own contract): the
    # stop must surface as a non-PASS status / warning exactly as it does at the top level
    def self_call(sig):
        return (asm.selector_word(asm.selector(sig)) + [("push", 0), "MSTORE",
                ("push", 0), ("push", 0), ("push", 4), ("push", 0), ("push", 0), "ADDRESS", "GAS", "CALL", "POP"])

    stoppers = {
        "blobhash": [("push", 0), ("raw", b"\x49"), "POP", "STOP"],
        "blobbasefee": [("raw", b"\x4a"), "POP", "STOP"],
        "symbolic-mload-offset": asm.svm_create_uint256(b"o") + ["MLOAD", "POP", "STOP"],
    }
    for tag, body in stoppers.items():
        for depth in (0, 1, 2):
            fns = [Fn("helper()", body), Fn("helper2()", self_call("helper()") + ["STOP"])]
            test_body = {0: body, 1: self_call("helper()") + ["STOP"], 2: self_call("helper2()") + ["STOP"]}[depth]
            c = TestContract("StuckT", fns + [Fn("check_stop(uint256 n)", test_body)])
            try:
                run = run_contract_offline(c)
            except Exception as e:  # noqa: BLE001
                ctx.note(f"nested-stuck case error ({tag}, depth {depth}): {type(e).__name__}: {e}")
                continue
            r = [x for x in run.results if "check_stop" in x.name][0]
            ctx.case(("e2e-nested-stuck", tag, depth))
            ctx.count(f"e2e:nested-stuck:{tag}:depth{depth}:exit{r.exitcode}")
            if r.exitcode == 0 and not (warned(run, "Unsupported") or warned(run, "symbolic") or warned(run, "incomplete")):
                ctx.violation(f"C10|e2e|clean-PASS-with-stuck-path|{tag}|depth{depth}",
                              f"a path of check_stop is stopped by an unsupported feature ({tag}) at call depth {depth} "
                              f"but the test is reported PASS without any warning",
                              {"stopper": tag, "depth": depth, "stdout": run.stdout[-600:]})
    # an unsupported symbolic memory offset / size on one side of an equality branch on the same word: the other side pins the
    # word to a constant (n == c), which must not make the unsupported use on THIS side look concrete
    pinned_uses = {
        "mload": ["MLOAD", "POP", "STOP"],
        "mstore": [("push", 1), "SWAP1", "MSTORE", "STOP"],
        "return-size": [("push", 0), "RETURN"],
        "calldatacopy-dest": [("push", 4), "SWAP1", ("push", 0), "SWAP1", "CALLDATACOPY", "STOP"],
    }
    for use, tail in pinned_uses.items():
        for shape in ("eq-first", "ne-first"):
            c = rng.choice([5, 7, 64])
            n = asm.calldata_arg(0)
            if shape == "eq-first":      # if (n == c) stop; else use(n)
                body = n + [("push", c), "EQ", ("ref", "pe"), "JUMPI"] + n + tail + [("label", "pe"), "STOP"]
            else:                        # if (n != c) use(n); else stop
                body = n + [("push", c), "EQ", "ISZERO", ("ref", "pu"), "JUMPI", "STOP", ("label", "pu")] + n + tail
            try:
                run = run_contract_offline(TestContract("PinT", [Fn("check_pinned(uint256 n)", body)]))
            except Exception as e:  # noqa: BLE001
                ctx.note(f"pinned-symbolic-use case error ({use}, {shape}): {type(e).__name__}: {e}")
                continue
            r = run.results[0]
            ctx.case(("e2e-pinned-symbolic-use", use, shape))
            ctx.count(f"e2e:pinned-symbolic-use:{use}:{shape}:exit{r.exitcode}")
            if r.exitcode == 0 and not (warned(run, "symbolic") or warned(run, "Unsupported") or warned(run, "incomplete")):
                ctx.violation(f"C10|e2e|clean-PASS-with-stuck-path|symbolic-{use}-beside-equality-branch|{shape}",
                              f"check_pinned uses its argument n as a memory offset / size ({use}) on the n != {c} side of a branch; that use is "
                              f"unsupported (symbolic) and stops the path, yet the test is reported PASS without any warning",
                              {"use": use, "shape": shape, "c": c, "stdout": run.stdout[-600:]})
    # the SAME unsupported point reached by several tests of one contract: setUp CREATEs a helper whose deployed code is one
    # symbolic byte (init code returns the low byte of a word made by svm.createUint256, appended to the init code as a
    # constructor argument), so executing the helper stops at "symbolic opcode at pc=0"; every test that calls it must be
    # reported non-PASS / warned — the second and third visit of that pc (same shared Contract object) like the first
    init = asm.assemble([("push", 1), ("push", 12 + 31, 1), ("push", 0, 1), "CODECOPY", ("push", 1), ("push", 0, 1), "RETURN"], push0=False)
    if len(init) == 12:
        setup_sym = (asm.svm_create_uint256(b"c") + [("push", 32), "MSTORE",                      # mem[32..64) = symbolic word
                     ("push", int.from_bytes(init, "big"), 12), ("push", 0), "MSTORE",            # mem[20..32) = init code
                     ("push", 44), ("push", 20), ("push", 0), "CREATE", ("push", 0), "SSTORE"])   # slot 0 = helper address
        call_helper = [("push", 0), ("push", 0), ("push", 0), ("push", 0), ("push", 0), ("push", 0), "SLOAD", "GAS", "CALL", "POP", "STOP"]
        for ntests in (2, 3):
            fns = [Fn("setUp()", setup_sym)] + [Fn(f"check_visit{i}(uint256 n)", list(call_helper)) for i in range(ntests)]
            try:
                run = run_contract_offline(TestContract("SymOpT", fns))
            except Exception as e:  # noqa: BLE001
                ctx.note(f"symbolic-opcode case error: {type(e).__name__}: {e}")
                continue
            ctx.case(("e2e-symbolic-opcode-revisited", ntests))
            text = " ".join(run.warnings) + " " + run.stdout
            for i, r in enumerate(x for x in run.results if "check_visit" in x.name):
                ctx.count(f"e2e:symbolic-opcode:visit{i}:exit{r.exitcode}")
                if r.exitcode == 0:
                    ctx.violation(f"C10|e2e|clean-PASS-with-stuck-path|symbolic-opcode|visit{min(i, 1)}",
                                  f"{r.name} calls a helper whose code is a symbolic byte (execution stops at 'symbolic opcode at pc=0'); "
                                  f"it is test #{i} of the contract to reach that pc and is reported PASS",
                                  {"visit": i, "tests": ntests, "stdout": run.stdout[-800:]})
    else:
        ctx.note(f"symbolic-opcode case skipped: init code is {len(init)} bytes")
    # setUp with a symbolic-count loop (via a symbolic value created in setUp)
    setup_body = (asm.svm_create_uint256(b"s") + [("push", 7), "AND", ("label", "st"), "DUP1", "ISZERO", ("ref", "se"), "JUMPI",
                                                  ("push", 1), "SWAP1", "SUB", ("ref", "st"), "JUMP", ("label", "se"), "POP"])
    c = TestContract("SetupT", [Fn("setUp()", setup_body), Fn("check_ok(uint256 n)", asm.return_empty())])
    try:
        run = run_contract_offline(c, loop=2)
        ctx.case(("e2e-setup-loop",))
        ok = all(r.exitcode == 0 for r in run.results) and run.results
        if ok and not warned(run, "loop"):
            ctx.violation("C10|e2e|setup-loop-cut-not-reported",
                          "setUp contains a loop with a symbolic trip count cut by --loop 2; the tests PASS without a loop-bound warning",
                          {"stdout": run.stdout[-600:]})
    except Exception as e:  # noqa: BLE001
        ctx.count("e2e:setup-case-error:" + type(e).__name__)
    # invariant mode: the loop is inside a target function called during invariant testing
    from vlib import e2e as E

    target_body = loop_then_fail_store(5)
    scn = E.Scenario("InvLoop", [E.Target("Tgt", [E.TFn("step(uint256 n)", target_body, domains=[[0, 5]]),
                                        E.TFn("slot0()", [("push", 0), "SLOAD", ("push", 0), "MSTORE", ("push", 32), ("push", 0), "RETURN"],
                                              mutability="view")])],
                     [E.Inv("invariant_slot0_not_one", asm.if_then(asm.eq_const(E.call_view(E.FIRST_CREATED, asm.selector('slot0()')), 1), asm.panic(1)))])
    try:
        desc, others = scn.build()
        run = run_contract_offline(desc, others=others, loop=2, invariant_depth=1)
        ctx.case(("e2e-invariant-loop",))
        for r in run.results:
            ctx.count(f"e2e:invariant-verdict-{r.exitcode}")
            if r.exitcode == 0 and not ((r.num_bounded_loops or 0) > 0 or warned(run, "loop")):
                ctx.violation("C10|e2e|invariant-target-loop-cut-not-reported",
                              "step(n) runs n&7 iterations and stores 1 only after exactly 5; with --loop 2 the target call is cut "
                              "(run_target_function creates a local SEVM whose logs are dropped): the invariant `slot0 != 1` is "
                              "reported PASS without any loop-bound warning although step(5) violates it",
                              {"stdout": run.stdout[-800:]})
    except Exception as e:  # noqa: BLE001
        ctx.count("e2e:invariant-case-error:" + type(e).__name__)
        ctx.note(f"invariant case error: {type(e).__name__}: {e}")

    # invariant mode: a target function gets stuck on an unsupported feature, directly and inside a nested call; the stop
    # must be reported (error / warning) whatever the call depth, and the half-executed state must not count as explored
    def self_call2(sig):
        return (asm.selector_word(asm.selector(sig)) + [("push", 0), "MSTORE",
                ("push", 0), ("push", 0), ("push", 4), ("push", 0), ("push", 0), "ADDRESS", "GAS", "CALL", "POP"])

    stop_body = [("push", 0), ("raw", b"\x49"), "POP", "STOP"]
    for tag, poke_body in (("direct", stop_body + [("push", 1), ("push", 0), "SSTORE", "STOP"]),
                           ("nested", self_call2("helper()") + [("push", 1), ("push", 0), "SSTORE", "STOP"])):
        scn = E.Scenario("InvStuck" + tag, [E.Target("Tgt", [E.TFn("poke()", poke_body), E.TFn("helper()", stop_body, mutability="view"),   # view: not itself a target
                                                             E.TFn("slot0()", [("push", 0), "SLOAD", ("push", 0), "MSTORE", ("push", 32), ("push", 0), "RETURN"],
                                                                   mutability="view")])],
                         [E.Inv("invariant_slot0_not_one", asm.if_then(asm.eq_const(E.call_view(E.FIRST_CREATED, asm.selector('slot0()')), 1), asm.panic(1)))])
        try:
            desc, others = scn.build()
            run = run_contract_offline(desc, others=others, invariant_depth=1)
            ctx.case(("e2e-invariant-stuck", tag))
            text = " ".join(run.warnings) + " " + " ".join(getattr(run, "errors", []) or []) + " " + run.stdout
            reported = "Unsupported opcode" in text or "HalmosException" in text or "stuck" in text.lower()
            for r in run.results:
                ctx.count(f"e2e:invariant-stuck:{tag}:exit{r.exitcode}:reported={reported}")
                if r.exitcode == 0 and not reported:
                    ctx.violation(f"C10|e2e|invariant-target-stuck-not-reported|{tag}",
                                  f"target poke() is stopped by an unsupported opcode ({tag}) during invariant testing; the invariant is "
                                  f"reported PASS and nothing (error, warning) says that the call was not explored",
                                  {"case": tag, "stdout": run.stdout[-800:]})
        except Exception as e:  # noqa: BLE001
            ctx.count("e2e:invariant-stuck-case-error:" + type(e).__name__)
            ctx.note(f"invariant stuck case error ({tag}): {type(e).__name__}: {e}")

    # invariant body with a loop whose trip count is read from storage; several frontier states, the loop is cut only on
    # some of them (symbolic slot after set(x), concrete after one()/zero()): the cut must be reported whatever the order
    # in which the frontier states are visited
    def inv_body(k):
        top, end = asm.fresh("itop"), asm.fresh("iend")
        return (E.call_view(E.FIRST_CREATED, asm.selector("slot0()")) + [("push", 7), "AND", ("label", top), "DUP1", "ISZERO", ("ref", end), "JUMPI",
                 ("push", 1), ("push", 0x80), "MLOAD", "ADD", ("push", 0x80), "MSTORE", ("push", 1), "SWAP1", "SUB", ("ref", top), "JUMP",
                 ("label", end), "POP"] + asm.if_then(asm.eq_const([("push", 0x80), "MLOAD"], k), asm.panic(1)))

    view = E.TFn("slot0()", [("push", 0), "SLOAD", ("push", 0), "MSTORE", ("push", 32), ("push", 0), "RETURN"], mutability="view")
    setx = lambda name: E.TFn(f"{name}(uint256 x)", asm.calldata_arg(0) + [("push", 0), "SSTORE"], domains=[[0, 1, 5]])
    const = lambda name, v: E.TFn(f"{name}()", [("push", v), ("push", 0), "SSTORE"], domains=[])
    for tag, fns in (("sym-first", [setx("aset"), const("zone", 1), view]), ("sym-last", [const("aone", 1), setx("zset"), view]),
                     ("sym-middle", [const("aone", 1), setx("mset"), const("zzero", 0), view])):
        scn = E.Scenario("InvLoop2" + tag.replace("-", ""), [E.Target("Tgt", fns)], [E.Inv("invariant_count_not_five", inv_body(5))])
        try:
            desc, others = scn.build()
            run = run_contract_offline(desc, others=others, loop=2, invariant_depth=1)
            ctx.case(("e2e-invariant-frontier-loop", tag))
            for r in run.results:
                ctx.count(f"e2e:invariant-frontier-verdict-{r.exitcode}")
                if r.exitcode == 0 and not ((r.num_bounded_loops or 0) > 0 or warned(run, "loop")):
                    ctx.violation(f"C10|e2e|invariant-body-loop-cut-on-one-frontier-state-not-reported|{tag}",
                                  "the invariant body loops slot0&7 times and panics after exactly 5; after set(x) the trip count is symbolic "
                                  "and --loop 2 cuts it (set(5) violates the invariant), after the constant setters it is concrete: the test is "
                                  "reported PASS without any loop-bound warning",
                                  {"order": tag, "stdout": run.stdout[-800:]})
        except Exception as e:  # noqa: BLE001
            ctx.count("e2e:invariant-frontier-case-error:" + type(e).__name__)
            ctx.note(f"invariant frontier case error ({tag}): {type(e).__name__}: {e}")


def correspond(ctx):
    from vlib import coremodel, sevmcheck

    concrete_loops_uncut(ctx)
    cfgs = [{"loop": 0}, {"loop": 1}, {"loop": 2}, {"loop": 3}, {"loop": 2, "solver_timeout_branching": 0}]
    # (a) under C10 an uncovered input without any flag is this property's violation as well
    def report_as_c10(prop, key, what, replay):
        pass
    sevmcheck.run(ctx, "C02", LOOP_FEATURES, n_scenarios=ctx.scale(40, 800), n_random_inputs=ctx.scale(8, 16), cfgs=cfgs,
                  gen=gen_loopy, corpus=True, corpus_as="C10")
    # (a') the same with the branching solver answering `unknown` to a seeded subset of the queries (what a 1 ms
    # --solver-timeout-branching does on hard conditions): a side dropped at the loop bound must be flagged whatever the
    # solver said about it
    import z3

    from halmos import sevm as S

    orig = S.Path.check
    rng = ctx.rng

    def stressed(self, cond):
        if rng.random() < 0.5:
            ctx.count("oracle-stress:forced-unknown")
            return z3.unknown
        return orig(self, cond)

    S.Path.check = stressed
    try:
        sevmcheck.run(ctx, "C02", LOOP_FEATURES, n_scenarios=ctx.scale(30, 600), n_random_inputs=ctx.scale(8, 16), cfgs=cfgs,
                      gen=gen_loopy, corpus=False)
    finally:
        S.Path.check = orig
    # sevmcheck reported uncovered-without-flag inputs under the key prefix C02|uncovered: re-key them for this property
    for v in ctx.violations:
        if v["key"].startswith("C02|uncovered"):
            v["key"] = "C10|sevm|" + v["key"][4:]
            v["what"] = "exploration was cut short without any flag: " + v["what"]
    stale = coremodel.compare_core(ctx, ctx.scale(60, 1200))
    e2e(ctx)
    if stale:
        raise RuntimeError(f"Model.Sevm disagrees with the real SEVM exploration on {len(stale)} core programs; first: {stale[0]}")


def replay(ctx, data):
    print("re-run ./check C10: the e2e and concrete-loop cases are deterministic")
    return True
