"""C12 — Symbolic calldata is a fully general, well-formed ABI encoding.

Differential runs (all randomness from ctx.rng):

 (M) model vs implementation: the real `mk_calldata` (uid pinned from the harness, `new_symbol_id` a counter or
     absent) is serialised chunk by chunk and compared with `Model.Calldata.create` (Lean driver `Abi`): items, sizes,
     symbol names, widths, the `dyn_params` list; `parse_type` on valid and malformed type strings vs `parseType`.
 (S) implementation vs Spec: for values with lengths among the configured candidates the calldata is instantiated
     (size symbol := length, leaf symbol := the word / padded payload) and `Spec.Abi.dec` must return the value; when
     all lengths are maximal and the padding is zero the bytes must equal `Spec.Abi.enc` (canonical encoding);
     symbols pairwise distinct; candidate lists in `dyn_params` = the configured ones; fixedMxN / function types raise.
 (B) candidate branching on the real SEVM: CALLDATALOAD of a size symbol yields one successor per candidate with the
     candidate on the stack and `size == candidate` in the path; a leaf symbol does not branch; a second load in the
     same path does not branch again.
 (L)  several functions of one contract in one process, each with its own configuration layered the real way (command line,
     contract `@custom:halmos` via with_natspec, function `@custom:halmos` via with_devdoc — all through the singleton arg
     parser) with `--array-lengths` annotations naming different parameter subsets, in several orders: the candidates of every
     dynamic parameter (dyn_params, and the successors of CALLDATALOAD) = the entry for that name in the winning layer, else
     the defaults; parser level: parsing A then B yields B's own entries only and leaves the Config built from A unchanged.
 (B2) two or three symbolic calldata registered on ONE path — by repeated mk_calldata + process_dyn_params, and by the
     real `cheatcodes.create_calldata_generic` (svm.createCalldata) on a fabricated build output: the path's candidate
     map is the accumulation of all registrations and every size symbol, also of an earlier calldata read after the
     later registrations, branches over exactly its configured candidates.
"""
from __future__ import annotations

import ast
import itertools
import json
import re
from pathlib import Path

from vlib.impl import use_repo
from vlib.runner import REPO, VERIF

ID = "C12"
LEAN_MODULES = ["HalmosVerif.Props.C12"]
LEAN_EXTRA_TARGETS = ["HalmosVerif.Model.Calldata", "HalmosVerif.Spec.Abi"]
RULE = (
    "ABI type trees from a grammar over {uintN,intN,address,bool,bytesN,bytes,string,T[],T[k],tuple} (nesting <= 4, arity <= 4) "
    "x candidate-length configurations (--array-lengths by parameter path, --default-array-lengths, --default-bytes-lengths) "
    "x symbol-id supply; a case is distinct by (type signature with names, configuration, supply mode, value); non-trivial = "
    "at least one parameter; exhaustive small scope: all single-parameter trees of depth <= 2 over {uint256,bool,bytes}"
)
TRUSTED = [
    "tools/props/c12.py: chunk-level serialiser of halmos ByteVec, the harness' own walk of parameter paths / candidate lists",
    "lean/Driver/Abi.lean JSON glue",
]
ASSUMPTIONS = [
    "candidate lists are non-empty lists of naturals (config.ensure_non_empty); total calldata size < 2^256",
    "symbol independence relies on distinct (name, uid, counter) triples: discharged for uniquely named parameter paths, "
    "28 random bits of uid() otherwise (unnamed / duplicate names with the default new_symbol_id)",
    "zero-length fixed arrays of a dynamic element type (T[0], not expressible in Solidity) are outside the supported fragment",
]

UNSUPPORTED = [
    "fixed", "ufixed", "fixed128x18", "ufixed128x18", "fixed8x1", "ufixed256x80", "function",
    "fixed128x18[]", "ufixed8x8[3]", "function[]", "function[2][]", "fixed[][2]",
]


# ----------------------------------------------------------------------------------------------------------------
# type trees (harness' own representation): ("uint",N) ("int",N) "address" "bool" ("bytesN",N) "bytes" "string"
# ("darr",t) ("farr",t,k) ("tuple",[(name,t),...]);   alias flag for uint/int: ("uint",256,"alias")
# ----------------------------------------------------------------------------------------------------------------

def abi_type_str(t):
    if isinstance(t, str):
        return t
    k = t[0]
    if k in ("uint", "int"):
        return k if len(t) > 2 else f"{k}{t[1]}"
    if k == "bytesN":
        return f"bytes{t[1]}"
    if k == "darr":
        return abi_type_str(t[1]) + "[]"
    if k == "farr":
        return abi_type_str(t[1]) + f"[{t[2]}]"
    if k == "tuple":
        return "tuple"
    raise ValueError(t)


def core_tuple(t):
    while not isinstance(t, str) and t[0] in ("darr", "farr"):
        t = t[1]
    return t if (not isinstance(t, str) and t[0] == "tuple") else None


def abi_item(name, t):
    item = {"name": name, "type": abi_type_str(t)}
    ct = core_tuple(t)
    if ct is not None:
        item["components"] = [abi_item(n, c) for n, c in ct[1]]
    return item


def spec_ty(t):
    if isinstance(t, str):
        return t
    k = t[0]
    if k in ("uint", "int", "bytesN"):
        return [k, t[1]]
    if k == "darr":
        return ["darr", spec_ty(t[1])]
    if k == "farr":
        return ["farr", spec_ty(t[1]), t[2]]
    return ["tuple", [spec_ty(c) for _, c in t[1]]]


def is_dyn(t):
    if isinstance(t, str):
        return t in ("bytes", "string")
    k = t[0]
    if k == "darr":
        return True
    if k == "farr":
        return is_dyn(t[1])
    if k == "tuple":
        return any(is_dyn(c) for _, c in t[1])
    return False


def kinds(t, acc=None):
    acc = set() if acc is None else acc
    if isinstance(t, str):
        acc.add(t)
    else:
        acc.add(t[0])
        if t[0] in ("darr", "farr"):
            kinds(t[1], acc)
        elif t[0] == "tuple":
            for _, c in t[1]:
                kinds(c, acc)
    return acc


def has_zero_farr_dyn(t):
    if isinstance(t, str):
        return False
    if t[0] == "farr":
        return (t[2] == 0 and is_dyn(t[1])) or has_zero_farr_dyn(t[1])
    if t[0] == "darr":
        return has_zero_farr_dyn(t[1])
    if t[0] == "tuple":
        return any(has_zero_farr_dyn(c) for _, c in t[1])
    return False


def sig_of(t):
    """type signature (no names), for distinctness keys"""
    if isinstance(t, str):
        return t
    if t[0] == "tuple":
        return "(" + ",".join(sig_of(c) for _, c in t[1]) + ")"
    if t[0] == "darr":
        return sig_of(t[1]) + "[]"
    if t[0] == "farr":
        return sig_of(t[1]) + f"[{t[2]}]"
    return abi_type_str(t)


NAMES = ["a", "b", "x", "y", "data", "x_length", "length", "arr", "s1", "_v", "A0", "p_q", "to", "n_0"]


class Gen:
    def __init__(self, rng, lits):
        self.rng = rng
        self.arr_pool = [0, 1, 2, 3]
        self.bytes_pool = sorted({0, 1, 2, 31, 32, 33, 63, 64, 65, 66, 96, 100, 255, 256, 257, 1024}
                                 | {v for l in lits for v in (l - 1, l, l + 1) if 0 <= v <= 1100})
        self.k_pool = [0, 1, 1, 2, 2, 3, 4]

    def base(self):
        r = self.rng
        c = r.random()
        if c < 0.22:
            if r.random() < 0.1:
                return ("uint", 256, "alias")
            return ("uint", r.choice([8, 16, 32, 64, 128, 160, 248, 256, 256, 256, 8 * r.randint(1, 32)]))
        if c < 0.36:
            if r.random() < 0.1:
                return ("int", 256, "alias")
            return ("int", r.choice([8, 16, 128, 256, 256, 8 * r.randint(1, 32)]))
        if c < 0.46:
            return "address"
        if c < 0.56:
            return "bool"
        if c < 0.68:
            return ("bytesN", r.choice([1, 4, 20, 31, 32, r.randint(1, 32)]))
        if c < 0.86:
            return "bytes"
        return "string"

    def names(self, n, allow_dup=False):
        r = self.rng
        if allow_dup:
            return [r.choice(NAMES + ["", ""]) for _ in range(n)]
        return r.sample(NAMES, n)

    def ty(self, depth, allow_dup=False):
        r = self.rng
        if depth <= 0 or r.random() < 0.3:
            return self.base()
        c = r.random()
        if c < 0.35:
            return ("darr", self.ty(depth - 1, allow_dup))
        if c < 0.6:
            return ("farr", self.ty(depth - 1, allow_dup), r.choice(self.k_pool))
        n = r.choice([0, 1, 1, 2, 2, 3, 4]) if depth < 4 else r.choice([1, 2, 3])
        return ("tuple", list(zip(self.names(n, allow_dup), [self.ty(depth - 1, allow_dup) for _ in range(n)])))

    def cand(self, is_arr):
        r = self.rng
        pool = self.arr_pool if is_arr else self.bytes_pool
        n = r.choice([1, 1, 2, 2, 3])
        return [r.choice(pool) for _ in range(n)]


def idx_name(name, i):
    return f"{name}[{i}]"


class Walk:
    """The harness' own reading of the documented behaviour: which dynamic parameter paths exist (elements are laid
    out for the maximal candidate) and which candidate list each gets (`--array-lengths` by path, else defaults)."""

    def __init__(self, cfg):
        self.cfg = cfg
        self.dyn = []       # (path, sizes, is_arr) in creation order
        self.leaves = 0

    def sizes(self, path, is_arr):
        s = self.cfg["al"].get(path)
        if s is None:
            s = self.cfg["da"] if is_arr else self.cfg["db"]
        return s

    def walk(self, path, t):
        if isinstance(t, str) or t[0] in ("uint", "int", "bytesN"):
            self.leaves += 1
            if t in ("bytes", "string"):
                s = self.sizes(path, False)
                self.dyn.append((path, list(s), False))
                self.leaves += max(s) // 32
            return
        k = t[0]
        if k == "tuple":
            pre = f"{path}." if path else ""
            for n, c in t[1]:
                self.walk(pre + n, c)
        elif k == "farr":
            for i in range(t[2]):
                self.walk(idx_name(path, i), t[1])
        elif k == "darr":
            s = self.sizes(path, True)
            self.dyn.append((path, list(s), True))
            for i in range(max(s)):
                self.walk(idx_name(path, i), t[1])


def gen_cfg(g, top, explicit_prob=0.4):
    """choose a configuration top-down: explicit --array-lengths entries for some dynamic paths"""
    r = g.rng
    cfg = {"al": {}, "da": g.cand(True), "db": g.cand(False)}

    def go(path, t):
        if isinstance(t, str):
            if t in ("bytes", "string") and r.random() < explicit_prob:
                cfg["al"].setdefault(path, g.cand(False))
            return
        k = t[0]
        if k == "tuple":
            pre = f"{path}." if path else ""
            for n, c in t[1]:
                go(pre + n, c)
        elif k == "farr":
            for i in range(t[2]):
                go(idx_name(path, i), t[1])
        elif k == "darr":
            if r.random() < explicit_prob:
                cfg["al"].setdefault(path, g.cand(True))
            s = cfg["al"].get(path, cfg["da"])
            for i in range(max(s)):
                go(idx_name(path, i), t[1])

    go("", top)
    return cfg


# ----------------------------------------------------------------------------------------------------------------
# values
# ----------------------------------------------------------------------------------------------------------------

def rand_val(r, cfg, path, t, mode, env, pad_junk):
    """Return VAL json; record in env the intended bytes of each symbol, keyed by (path, kind).
    mode 'max': every dynamic length is the maximal candidate; 'rand': a random candidate."""
    if isinstance(t, str) or t[0] in ("uint", "int", "bytesN"):
        kind = abi_type_str(t)
        if t in ("bytes", "string"):
            s = cfg["al"].get(path)
            if s is None:
                s = cfg["db"]
            n = max(s) if mode == "max" else r.choice(s)
            payload = bytes(r.getrandbits(8) for _ in range(n))
            width = (max(s) + 31) // 32 * 32
            fill = bytes(r.getrandbits(8) for _ in range(width - n)) if pad_junk else bytes(width - n)
            env[(path, kind)] = payload + fill
            env[(path, "length")] = n.to_bytes(32, "big")
            return ["by" if t == "bytes" else "st", payload.hex()]
        if t == "address":
            x = r.choice([0, 1, 2**160 - 1, r.getrandbits(160)])
            env[(path, kind)] = x.to_bytes(32, "big")
            return ["a", str(x)]
        if t == "bool":
            b = r.random() < 0.5
            env[(path, kind)] = int(b).to_bytes(32, "big")
            return ["b", b]
        if t[0] == "uint":
            n = t[1]
            x = r.choice([0, 1, 2**n - 1, 2 ** (n - 1), r.getrandbits(n)])
            env[(path, kind)] = x.to_bytes(32, "big")
            return ["u", str(x)]
        if t[0] == "int":
            n = t[1]
            x = r.choice([0, 1, -1, 2 ** (n - 1) - 1, -(2 ** (n - 1)), r.getrandbits(n) - 2 ** (n - 1)])
            env[(path, kind)] = (x % 2**256).to_bytes(32, "big")
            return ["i", str(x)]
        if t[0] == "bytesN":
            bs = bytes(r.getrandbits(8) for _ in range(t[1]))
            env[(path, kind)] = bs + bytes(32 - t[1])
            return ["fb", bs.hex()]
    k = t[0]
    if k == "tuple":
        pre = f"{path}." if path else ""
        return ["l", [rand_val(r, cfg, pre + n, c, mode, env, pad_junk) for n, c in t[1]]]
    if k == "farr":
        return ["l", [rand_val(r, cfg, idx_name(path, i), t[1], mode, env, pad_junk) for i in range(t[2])]]
    if k == "darr":
        s = cfg["al"].get(path)
        if s is None:
            s = cfg["da"]
        n = max(s) if mode == "max" else r.choice(s)
        env[(path, "length")] = n.to_bytes(32, "big")
        return ["l", [rand_val(r, cfg, idx_name(path, i), t[1], mode, env, pad_junk) for i in range(n)]]
    raise ValueError(t)


# ----------------------------------------------------------------------------------------------------------------
# the real code
# ----------------------------------------------------------------------------------------------------------------

class Real:
    def __init__(self):
        use_repo()
        import halmos.calldata as hc
        from halmos.bytevec import ConcreteChunk, SymbolicChunk
        from halmos.config import ConfigSource, ParseArrayLengths, ParseCSVInt, default_config

        self.hc = hc
        self.ConcreteChunk, self.SymbolicChunk = ConcreteChunk, SymbolicChunk
        self.ConfigSource = ConfigSource
        self.default_config = default_config
        self.ParseArrayLengths, self.ParseCSVInt = ParseArrayLengths, ParseCSVInt
        self.orig_uid = hc.uid

    def config(self, cfg, via_strings=False):
        al, da, db = cfg["al"], cfg["da"], cfg["db"]
        if via_strings:
            # the same values through the option parsers (--array-lengths NAME={..},.. etc.)
            s = ",".join(f"{k}={{{','.join(map(str, v))}}}" if len(v) != 1 else f"{k}={v[0]}" for k, v in al.items())
            al = self.ParseArrayLengths.parse(s)
            da = self.ParseCSVInt.parse(",".join(map(str, da)))
            db = self.ParseCSVInt.parse(",".join(map(str, db)))
        return self.default_config().with_overrides(
            self.ConfigSource.command_line, array_lengths=al, default_array_lengths=da, default_bytes_lengths=db)

    def names_ok_for_strings(self, cfg):
        return all(k and not re.search(r"[=,{}\s]", k) for k in cfg["al"])

    def create(self, inputs, cfg, selector, uid_mode, sid_mode, fname="f", via_strings=False, use_get_abi=True,
               sig=None, before=(), after=()):
        """run mk_calldata; returns ("ok", items, dyn, length) or ("err", kind).
        `sig`: the canonical signature computed by the harness (what __main__ takes from methodIdentifiers); the ABI
        item is then found through the real get_abi / str_abi map.  `before`/`after`: input lists of further overloads
        of the same function name listed before / after it in the contract ABI."""
        hc = self.hc
        item = {"type": "function", "name": fname, "inputs": inputs}
        try:
            if sig is None:
                sig = hc.str_abi(item)
                abi = hc.get_abi({"abi": [item]}) if use_get_abi else {sig: item}
            else:
                lst = ([{"type": "function", "name": fname, "inputs": i} for i in before] + [item]
                       + [{"type": "function", "name": fname, "inputs": i} for i in after]
                       + [{"type": "event", "name": fname, "inputs": []}])
                abi = hc.get_abi({"abi": lst})
        except Exception as e:  # malformed inputs (missing components …)
            sig = fname + "()"
            abi = {sig: item}
            _ = e
        cnt = itertools.count()
        if uid_mode[0] == "ctr":
            hc.uid = lambda: f"{next(cnt):07x}"
        elif uid_mode[0] == "const":
            hc.uid = lambda: uid_mode[1]
        else:
            hc.uid = self.orig_uid
        sid = None
        if sid_mode[0] == "ctr":
            c2 = itertools.count(sid_mode[1])
            sid = lambda: next(c2)  # noqa: E731
        try:
            args = self.config(cfg, via_strings)
            cd, dyn = hc.mk_calldata(abi, hc.FunctionInfo("C", fname, sig, selector), args, sid)
        except NotImplementedError:
            return ("err", "notSupported")
        except KeyError:
            return ("err", "keyError")
        except ValueError as e:
            return ("err", "sizeMismatch" if isinstance(e.args[0] if e.args else None, hc.EncodingResult) else "valueError")
        finally:
            hc.uid = self.orig_uid
        return ("ok", self.ser(cd), self.ser_dyn(dyn), len(cd), cd, dyn)

    def ser(self, cd):
        items, acc, pos = [], b"", 0
        for start, chunk in cd.chunks.items():
            if start != pos:
                items.append(["GAP", pos, start])
            if isinstance(chunk, self.ConcreteChunk):
                acc += bytes(chunk.unwrap())
            else:
                if acc:
                    items.append(["C", acc.hex()])
                    acc = b""
                d = chunk.data
                import z3
                if not (z3.is_const(d) and d.decl().kind() == z3.Z3_OP_UNINTERPRETED):
                    items.append(["T", str(d), d.size(), chunk.start, chunk.length])
                elif chunk.start != 0 or chunk.length * 8 != d.size():
                    items.append(["P", d.decl().name(), d.size(), chunk.start, chunk.length])
                else:
                    items.append(["S", d.decl().name(), d.size()])
            pos = start + len(chunk)
        if acc:
            items.append(["C", acc.hex()])
        if pos != len(cd):
            items.append(["LEN", pos, len(cd)])
        return items

    def ser_dyn(self, dyn):
        out = []
        for d in dyn:
            assert d.size_symbol.size() == 256
            out.append([d.name, list(d.size_choices), d.size_symbol.decl().name()])
        return out

    def parse(self, var, typ, item):
        hc = self.hc
        try:
            return {"ok": self.ser_ty(hc.parse_type(var, typ, item))}
        except NotImplementedError:
            return {"err": "notSupported"}
        except KeyError:
            return {"err": "keyError"}

    def ser_ty(self, t):
        hc = self.hc
        if isinstance(t, hc.BaseType):
            return ["base", t.var, t.typ]
        if isinstance(t, hc.FixedArrayType):
            return ["farr", t.var, self.ser_ty(t.base), t.size]
        if isinstance(t, hc.DynamicArrayType):
            return ["darr", t.var, self.ser_ty(t.base)]
        if isinstance(t, hc.TupleType):
            return ["tuple", t.var, [self.ser_ty(i) for i in t.items]]
        raise TypeError(t)


SYM_RE = re.compile(r"^p_(.*)_([^_]+)_([^_]+)_([^_]+)$", re.S)


def split_sym(name):
    m = SYM_RE.match(name)
    return (m.group(1), m.group(2), m.group(3), m.group(4)) if m else None


def instantiate(r, items, dyn, env):
    """bytes of the calldata under: size/leaf symbols of present parts from env (keyed by (path, kind)),
    the others random (leaf: random bytes; size symbol: a random candidate). Returns (bytes, problems)."""
    cands = {d[2]: d[1] for d in dyn}
    out, problems, used = b"", [], {}
    for it in items:
        if it[0] == "C":
            out += bytes.fromhex(it[1])
        elif it[0] == "S":
            name, bits = it[1], it[2]
            if name in used:
                problems.append(f"symbol {name} occurs twice")
                out += used[name]
                continue
            sp = split_sym(name)
            want = env.get((sp[0], sp[1])) if sp else None
            if want is None:
                if name in cands:
                    want = r.choice(cands[name]).to_bytes(32, "big")
                else:
                    want = bytes(r.getrandbits(8) for _ in range(bits // 8))
            elif name not in cands and sp[1] == "length":
                problems.append(f"size symbol {name} has no candidate list")
            if len(want) * 8 != bits:
                problems.append(f"symbol {name} has {bits} bits, value needs {len(want) * 8}")
                want = (want + bytes(bits // 8))[: bits // 8]
            used[name] = want
            out += want
        else:
            problems.append(f"unexpected item {it[:2]}")
    missing = [k for k in env if not any(split_sym(n) and split_sym(n)[:2] == k for n in used)]
    # a bytes leaf with maximal size 0 legitimately has no data symbol
    missing = [k for k in missing if len(env[k]) > 0]
    if missing:
        problems.append(f"no symbol for {missing[:3]}")
    return out, problems


# ----------------------------------------------------------------------------------------------------------------

def harvest_literals():
    src = (REPO / "src/halmos/calldata.py").read_text()
    tree = ast.parse(src)
    lits = set()
    for node in ast.walk(tree):
        if isinstance(node, (ast.FunctionDef,)) and node.name in (
                "encode", "encode_tuple", "get_dyn_sizes", "create", "parse_type", "parse_tuple_type", "head_size"):
            for n in ast.walk(node):
                if isinstance(n, ast.Constant) and isinstance(n.value, int) and not isinstance(n.value, bool):
                    lits.add(n.value)
    src2 = (REPO / "src/halmos/sevm.py").read_text()
    for node in ast.walk(ast.parse(src2)):
        if isinstance(node, ast.FunctionDef) and node.name in ("calldataload", "process_dyn_params"):
            for n in ast.walk(node):
                if isinstance(n, ast.Constant) and isinstance(n.value, int) and not isinstance(n.value, bool):
                    lits.add(n.value)
    return sorted(lits)


def small_scope_types(depth):
    """all single-parameter type trees of the given depth over {uint256,bool,bytes}; arrays T[], T[2]; tuples of arity 1..2"""
    base = [("uint", 256), "bool", "bytes"]
    if depth == 0:
        return base
    sub = small_scope_types(depth - 1)
    out = list(base)
    for s in sub:
        out.append(("darr", s))
        out.append(("farr", s, 2))
        out.append(("tuple", [("a", s)]))
    for s1 in sub:
        for s2 in sub:
            out.append(("tuple", [("a", s1), ("b", s2)]))
    return out


def leaves_estimate(top, cfg):
    w = Walk(cfg)
    w.walk("", top)
    return w.leaves, w.dyn


class Case:
    __slots__ = ("inputs_t", "cfg", "uid", "sid", "selector", "via_strings", "stream", "real", "vals", "top", "before", "after")


def mk_case(top, cfg, uid, sid, selector, stream, via_strings=False, before=(), after=()):
    """before/after: type trees (tuples of inputs) of overloads of the same name listed before/after in the ABI"""
    c = Case()
    c.top, c.cfg, c.uid, c.sid, c.selector, c.stream, c.via_strings = top, cfg, uid, sid, selector, stream, via_strings
    c.before, c.after = list(before), list(after)
    c.vals = []
    return c


def case_json(c):
    return {"top": c.top, "cfg": c.cfg, "uid": c.uid, "sid": c.sid, "selector": c.selector, "via_strings": c.via_strings,
            "before": c.before, "after": c.after}


def top_from_json(t):
    if isinstance(t, str):
        return t
    if t[0] == "tuple":
        return ("tuple", [(n, top_from_json(c)) for n, c in t[1]])
    if t[0] == "darr":
        return ("darr", top_from_json(t[1]))
    if t[0] == "farr":
        return ("farr", top_from_json(t[1]), t[2])
    return tuple(t)


def lean_create_req(c):
    return json.dumps({
        "op": "create",
        "cfg": {"al": [[k, v] for k, v in c.cfg["al"].items()], "da": c.cfg["da"], "db": c.cfg["db"]},
        "selector": c.selector,
        "inputs": [abi_item(n, t) for n, t in c.top[1]],
        "uid": c.uid, "sid": c.sid,
    })


def unique_paths(top):
    """parameter paths are unique and non-empty at every tuple level"""
    def go(t):
        if isinstance(t, str):
            return True
        if t[0] in ("darr", "farr"):
            return go(t[1])
        if t[0] == "tuple":
            ns = [n for n, _ in t[1]]
            return len(set(ns)) == len(ns) and all(ns) and all(go(c) for _, c in t[1])
        return True
    return go(top)


def run_cases(ctx, real, cases):
    """(M) + (S) for a list of cases; returns list of model mismatches"""
    r = ctx.rng
    reqs, plan = [], []
    for c in cases:
        inputs = [abi_item(n, t) for n, t in c.top[1]]
        # looked up by the canonical signature (harness' own rendering) through the real get_abi / str_abi map
        c.real = real.create(inputs, c.cfg, c.selector, c.uid, c.sid, via_strings=c.via_strings, sig="f" + sig_of(c.top),
                             before=[[abi_item(n, t) for n, t in o[1]] for o in c.before],
                             after=[[abi_item(n, t) for n, t in o[1]] for o in c.after])
        plan.append(("create", c, None))
        reqs.append(lean_create_req(c))
        if c.real[0] != "ok":
            continue
        if not unique_paths(c.top) or has_zero_farr_dyn(c.top):
            continue
        for mode in ("max", "rand", "rand"):
            env = {}
            junk = mode == "rand" and r.random() < 0.5
            val = rand_val(r, c.cfg, "", c.top, mode, env, junk)
            data, problems = instantiate(r, c.real[1], c.real[2], env)
            plan.append(("spec", c, (mode, val, data, problems, junk)))
            reqs.append(json.dumps({"op": "spec", "ty": spec_ty(c.top), "val": val, "hex": data[4:].hex()}))
    replies = ctx.lean("Abi").ask(reqs)
    mismatches = []
    bad_cases = set()
    for (kind, c, extra), rep in zip(plan, replies):
        rep = json.loads(rep)
        sig = sig_of(c.top)
        cls = "+".join(sorted(k for k in kinds(c.top) if k in ("darr", "farr", "tuple", "bytes", "string")) or ["static"])
        if kind == "create":
            ctx.case(("create", json.dumps(case_json(c), sort_keys=True)), nontrivial=bool(c.top[1]))
            ctx.count(f"stream:{c.stream}")
            ctx.count(f"class:{cls}")
            ctx.count(f"supply:uid={c.uid[0]},sid={c.sid[0]}")
            ctx.count(f"params:{min(len(c.top[1]), 4)}")
            if c.real[0] == "ok":
                _, items, dyn, length = c.real[:4]
                ctx.count("result:ok")
                ctx.count(f"dyn_params:{min(len(dyn), 6)}{'+' if len(dyn) > 6 else ''}")
                # --- property checks that need no model -------------------------------------------------
                names = [it[1] for it in items if it[0] == "S"]
                if any(it[0] not in ("C", "S") for it in items):
                    ctx.violation("C12:calldata-not-built-from-whole-symbols-and-constants",
                                  f"unexpected chunk in calldata for {sig}: {[it for it in items if it[0] not in ('C', 'S')][:2]}",
                                  {"kind": "create", **case_json(c)})
                    bad_cases.add(id(c))
                if len(set(names)) != len(names) and (c.uid[0] != "const" or c.sid[0] == "ctr" or unique_paths(c.top)):
                    dup = sorted({n for n in names if names.count(n) > 1})[:3]
                    ctx.violation("C12:symbols-not-pairwise-distinct",
                                  f"symbol used more than once in calldata for {sig}: {dup}", {"kind": "create", **case_json(c)})
                    bad_cases.add(id(c))
                elif len(set(names)) != len(names):
                    ctx.count("note:name-collision-with-constant-uid-and-no-counter (documented assumption)")
                # candidate lists: the configured ones, per path
                _, want_dyn = leaves_estimate(c.top, c.cfg)
                got = [(d[0], d[1]) for d in dyn]
                if got != [(p, s) for p, s, _ in want_dyn]:
                    ctx.violation("C12:dyn-params-differ-from-configured-candidates",
                                  f"dyn_params {got[:4]} != configured {[(p, s) for p, s, _ in want_dyn][:4]} for {sig}",
                                  {"kind": "create", **case_json(c)})
                    bad_cases.add(id(c))
                sized = {d[2] for d in dyn}
                excused = c.uid[0] == "const" and c.sid[0] != "ctr" and not unique_paths(c.top)
                if not sized <= set(names) or (len(sized) != len(dyn) and not excused):
                    ctx.violation("C12:size-symbol-not-in-calldata", f"a dyn_params size symbol does not occur in the calldata for {sig}",
                                  {"kind": "create", **case_json(c)})
                    bad_cases.add(id(c))
                if "items" in rep:
                    if rep["items"] != items or rep["dyn"] != dyn or rep["size"] != length:
                        mismatches.append((c, "items" if rep["items"] != items else "dyn/size", rep, c.real[1:4]))
                else:
                    mismatches.append((c, "model-error", rep, c.real[1:4]))
            else:
                ctx.count(f"result:{c.real[1]}")
                # every generated signature is built from supported types and non-empty candidate lists
                ctx.violation(f"C12:supported-signature-rejected:{c.real[1]}",
                              f"mk_calldata raises {c.real[1]} for f{sig} cfg={c.cfg}", {"kind": "create", **case_json(c)})
                bad_cases.add(id(c))
                if rep.get("err") != c.real[1]:
                    mismatches.append((c, "error-kind", rep, c.real))
        else:
            mode, val, data, problems, junk = extra
            ctx.case(("spec", json.dumps(case_json(c), sort_keys=True), json.dumps(val)))
            ctx.count(f"spec:{mode}{'+junk-padding' if junk else ''}")
            rj = {"kind": "spec", **case_json(c), "val": val}
            if not (rep["valid"] and rep["wt"] and rep["dec_enc"] == val):
                raise RuntimeError(f"harness/Spec bug: value not accepted by the Spec: {sig} {val} {rep}")
            if data[:4].hex() != c.selector:
                ctx.violation("C12:selector-wrong", f"calldata does not start with the selector for {sig}", rj)
            if problems:
                ctx.violation(f"C12:not-an-instance:{cls}",
                              f"value {json.dumps(val)[:200]} is not an instance of the calldata of f{sig}: {problems[:2]}", rj)
                bad_cases.add(id(c))
            elif rep["dec_hex"] != val:
                ctx.violation(f"C12:decodes-to-different-value:{cls}",
                              f"f{sig} cfg={c.cfg}: calldata instantiated for {json.dumps(val)[:200]} decodes to "
                              f"{json.dumps(rep['dec_hex'])[:200]}", rj)
                bad_cases.add(id(c))
            elif mode == "max" and rep["enc"] != data[4:].hex():
                ctx.violation(f"C12:maximal-instance-is-not-the-canonical-encoding:{cls}",
                              f"f{sig}: with all lengths maximal the calldata differs from Abi.enc", rj)
                bad_cases.add(id(c))
            ctx.sample({"sig": "f" + sig, "cfg": c.cfg, "val": val, "calldata_bytes": len(data)}, limit=4)
    return [m for m in mismatches if id(m[0]) not in bad_cases], [m for m in mismatches if id(m[0]) in bad_cases]


def check_parse(ctx, real, g):
    """parse_type on valid and malformed type strings: model vs implementation; unsupported types must raise"""
    r = ctx.rng
    strs = list(UNSUPPORTED)
    strs += ["", " ", "uint256 ", " uint256", "Uint256", "mapping", "uint[", "uint]", "[]", "[3]", "uint256[][-1]", "uint256[ 2]",
             "tuple2", "bytes32x", "addr", "uint256\n", "uint\n[2]", "uint[2]\n", "uint[2]\n\n", "tuple\n", "tuple[]\n", "bytes\n",
             "uint256[٣]", "uint٣", "int", "uint", "bytes0", "bytes33", "uint7", "uint300", "int00008", "uint256[007]", "uint256[0]",
             "bool[][]", "string[2][3][]", "tuple", "tuple[]", "tuple[2][]", "address payable", "uint256[]]", "uint256[[]", "tuplex",
             "byte", "bytes[]", "u", "int[]x", "fixedx", "ufixed128x18 ", "function ", "Function", "FIXED", "uint256[2", "]", "[",
             "string\n\n", "\n", "bool\n[]", "a[1][b]"]
    alphabet = list("uintbyesgaldrofxp[]0123456789 \n")
    for _ in range(ctx.scale(150, 3000)):
        s = r.choice(strs)
        if r.random() < 0.6:
            s = list(s)
            for _ in range(r.randint(1, 2)):
                op = r.random()
                if op < 0.4 and s:
                    s[r.randrange(len(s))] = r.choice(alphabet)
                elif op < 0.7:
                    s.insert(r.randint(0, len(s)), r.choice(alphabet))
                elif s:
                    del s[r.randrange(len(s))]
            s = "".join(s)
        strs.append(s)
    # valid types rendered by the generator
    for _ in range(ctx.scale(60, 1000)):
        strs.append(abi_type_str(g.ty(3)))
    reqs, plan = [], []
    for s in strs:
        for comps in (None, [{"name": "m", "type": "uint8"}, {"name": "n", "type": "bytes[]"}]):
            item = {"name": "v", "type": s}
            if comps is not None:
                item["components"] = comps
            m = re.search(r"\[(\d+)\]", s)
            rr = real.parse("v", s, item)
            plan.append((s, comps is not None, rr))
            reqs.append(json.dumps({"op": "parse", "var": "v", "typ": s, "item": item}))
    replies = ctx.lean("Abi").ask(reqs)
    bad = []
    for (s, has_c, rr), rep in zip(plan, replies):
        rep = json.loads(rep)
        ctx.case(("parse", s, has_c))
        ctx.count("parse:" + ("ok" if "ok" in rr else rr["err"]))
        core = s.split("[")[0]
        if re.fullmatch(r"u?fixed(\d+x\d+)?|function", core) and re.fullmatch(r"(\[\d*\])*", s[len(core):]) and "ok" in rr:
            ctx.violation("C12:unsupported-type-accepted", f"parse_type accepts unsupported type {s!r}: {rr}",
                          {"kind": "parse", "typ": s, "components": has_c})
        elif rep != rr:
            bad.append((s, has_c, rr, rep))
    # the same through mk_calldata: never an encoding
    for s in UNSUPPORTED:
        for wrap in (lambda t: [{"name": "x", "type": t}],
                     lambda t: [{"name": "k", "type": "uint8"}, {"name": "x", "type": t}],
                     lambda t: [{"name": "s", "type": "tuple[]", "components": [{"name": "q", "type": "bytes"}, {"name": "x", "type": t}]}]):
            res = real.create(wrap(s), {"al": {}, "da": [1], "db": [32]}, "01020304", ["ctr"], ["none"])
            ctx.case(("unsupported-create", s, len(wrap(s))))
            ctx.count("unsupported-create:" + (res[1] if res[0] == "err" else "ACCEPTED"))
            if res[0] != "err" or res[1] != "notSupported":
                ctx.violation("C12:unsupported-type-accepted", f"mk_calldata with parameter type {s!r} gives {res[:2]}",
                              {"kind": "unsupported-create", "typ": s})
    if bad:
        s, has_c, rr, rep = bad[0]
        raise RuntimeError(f"model/implementation mismatch in parse_type({s!r}, components={has_c}): real={rr} model={rep} "
                           f"({len(bad)} mismatches)")


def check_empty_candidates(ctx, real):
    """an empty candidate list is rejected with ValueError (max of empty), never encoded"""
    for inputs, cfg in (([{"name": "x", "type": "bytes"}], {"al": {}, "da": [1], "db": []}),
                        ([{"name": "x", "type": "uint8[]"}], {"al": {}, "da": [], "db": [1]}),
                        ([{"name": "x", "type": "uint8[]"}], {"al": {"x": []}, "da": [1], "db": [1]})):
        res = real.create(inputs, cfg, "01020304", ["ctr"], ["none"])
        ctx.case(("empty-candidates", json.dumps(cfg)))
        ctx.count("empty-candidates:" + (res[1] if res[0] == "err" else "ACCEPTED"))
        if res[0] != "err":
            ctx.violation("C12:empty-candidate-list-accepted", f"mk_calldata with empty candidate list gives an encoding: {cfg}",
                          {"kind": "empty", "inputs": inputs, "cfg": cfg})


# ----------------------------------------------------------------------------------------------------------------
# (B) candidate branching on the real SEVM
# ----------------------------------------------------------------------------------------------------------------

def branch_run(real, inputs, cfg, offsets, sid_start=None):
    """program: for each offset: PUSH2 off CALLDATALOAD PUSH2 mem MSTORE; RETURN(0, 32*len). Returns list of
    (returned words (int or str), path conditions as strings)"""
    import z3
    from z3 import Array, BitVec, BitVecSort

    from halmos.__main__ import mk_block, mk_solver
    from halmos.sevm import SEVM, CallContext, Contract, Message, Path
    from halmos.utils import EVM
    hc = real.hc
    item = {"type": "function", "name": "f", "inputs": inputs}
    sig = hc.str_abi(item)
    args = real.config(cfg)
    cnt = itertools.count()
    hc.uid = lambda: f"{next(cnt):07x}"
    try:
        cd, dyn = hc.mk_calldata({sig: item}, hc.FunctionInfo("C", "f", sig, "aabbccdd"), args)
    finally:
        hc.uid = real.orig_uid
    code = b""
    for i, off in enumerate(offsets):
        code += bytes([0x61]) + off.to_bytes(2, "big") + bytes([0x35, 0x61]) + (32 * i).to_bytes(2, "big") + bytes([0x52])
    code += bytes([0x61]) + (32 * len(offsets)).to_bytes(2, "big") + bytes([0x5F, 0xF3])
    this = BitVec("this_address", 160)
    pgm = Contract(code)
    msg = Message(target=this, caller=BitVec("msg_sender", 160), origin=BitVec("tx_origin", 160), value=BitVec("msg_value", 256),
                  data=cd, call_scheme=EVM.CALL)
    sevm = SEVM(args, hc.FunctionInfo("C", "f", sig, "aabbccdd"))
    path = Path(mk_solver(args))
    path.process_dyn_params(dyn)
    ex = sevm.mk_exec(code={this: pgm}, storage={this: {}}, transient_storage={this: {}},
                      balance=Array("balance_0", BitVecSort(160), BitVecSort(256)), block=mk_block(),
                      context=CallContext(msg), pgm=pgm, path=path)
    out = []
    for e in sevm.run(ex):
        data = e.context.output.data
        words = []
        for i in range(len(offsets)):
            w = data.get_word(32 * i) if data is not None else None
            if hasattr(w, "as_z3"):
                w = w.as_z3()
            if z3.is_bv_value(w):
                w = w.as_long()
            elif isinstance(w, (bytes, bytearray)):
                w = int.from_bytes(w, "big")
            elif not isinstance(w, int):
                w = str(w)
            words.append(w)
        out.append((words, sorted(str(c) for c in e.path.conditions), str(e.context.output.error)))
    return out, real.ser(cd), real.ser_dyn(dyn)


def offsets_of(items):
    pos, offs = 0, {}
    for it in items:
        if it[0] == "C":
            pos += len(it[1]) // 2
        else:
            offs[it[1]] = pos
            pos += it[2] // 8
    return offs


def check_branching(ctx, real, g):
    r = ctx.rng
    n = ctx.scale(40, 400)
    for _ in range(n):
        # a function with a few dynamic parameters
        k = r.randint(1, 3)
        names = r.sample(["a", "b", "c", "d"], k)
        inputs, cfg = [], {"al": {}, "da": g.cand(True), "db": [r.choice([0, 1, 32, 33, 65]) for _ in range(r.randint(1, 3))]}
        for nm in names:
            t = r.choice(["bytes", "uint256[]", "string", "bytes[]", "uint8"])
            inputs.append({"name": nm, "type": t})
            if t != "uint8" and r.random() < 0.5:
                cfg["al"][nm] = g.cand(t.endswith("[]"))
        # first pass to learn the layout
        try:
            _, items, dyn = branch_run(real, inputs, cfg, [])
        except ValueError as e:
            ctx.count("branch:mk_calldata-raised")
            ctx.violation("C12:supported-signature-rejected:valueError", f"mk_calldata raises {type(e).__name__} for {inputs} cfg={cfg}",
                          {"kind": "branch", "inputs": inputs, "cfg": cfg, "scenario": "layout"})
            continue
        offs = offsets_of(items)
        size_syms = [d for d in dyn]
        if not size_syms:
            continue
        d = r.choice(size_syms)
        leafs = [nmm for nmm in offs if nmm not in {x[2] for x in dyn}]
        scenario = r.choice(["one", "twice", "two", "leaf"])
        if scenario == "leaf" and not leafs:
            scenario = "one"
        if scenario == "two" and len(size_syms) < 2:
            scenario = "twice"
        rj = {"kind": "branch", "inputs": inputs, "cfg": cfg, "scenario": scenario, "sym": d[2]}
        if scenario == "one":
            res, _, _ = branch_run(real, inputs, cfg, [offs[d[2]]])
            want = sorted(([c], [f"{d[2]} == {c}"]) for c in d[1])
        elif scenario == "twice":
            res, _, _ = branch_run(real, inputs, cfg, [offs[d[2]], offs[d[2]]])
            want = sorted(([c, c], [f"{d[2]} == {c}"]) for c in d[1])
        elif scenario == "two":
            d2 = r.choice([x for x in size_syms if x is not d])
            rj["sym2"] = d2[2]
            res, _, _ = branch_run(real, inputs, cfg, [offs[d[2]], offs[d2[2]]])
            want = sorted(([c, c2], sorted([f"{d[2]} == {c}", f"{d2[2]} == {c2}"])) for c in d[1] for c2 in d2[1])
        else:
            lf = r.choice(leafs)
            rj["sym"] = lf
            res, _, _ = branch_run(real, inputs, cfg, [offs[lf]])
            want = None
        ctx.case(("branch", json.dumps(rj, sort_keys=True)))
        ctx.count(f"branch:{scenario}")
        ctx.count(f"branch-candidates:{len(d[1])}")
        if want is None:
            if len(res) != 1 or res[0][1]:
                ctx.violation("C12:calldataload-branches-on-a-leaf-symbol", f"{len(res)} successors / conditions {res[0][1] if res else None}", rj)
            continue
        got = sorted((w, [c for c in conds]) for w, conds, err in res)
        if any(err != "None" for _, _, err in res) or got != want:
            ctx.violation(f"C12:calldataload-candidates-not-all-branched:{scenario}",
                          f"CALLDATALOAD of {d[2]} with candidates {d[1]}: successors {got[:6]}, expected {want[:6]}", rj)


# ----------------------------------------------------------------------------------------------------------------
# (B2) several symbolic calldata registered on ONE path (svm.createCalldata creates one per function of the target
#      contract; mk_calldata + process_dyn_params may be repeated): every size symbol — also of a calldata registered
#      EARLIER — must still branch over exactly its configured candidates, and the path's candidate map must be the
#      accumulation of all registrations (Model.Calldata.processDynParams).
# ----------------------------------------------------------------------------------------------------------------

def _load_program(offsets):
    code = b""
    for i, off in enumerate(offsets):
        code += bytes([0x61]) + off.to_bytes(2, "big") + bytes([0x35, 0x61]) + (32 * i).to_bytes(2, "big") + bytes([0x52])
    return code + bytes([0x61]) + (32 * len(offsets)).to_bytes(2, "big") + bytes([0x5F, 0xF3])


def _run_loads(sevm, cd, path, offsets):
    import z3
    from z3 import Array, BitVec, BitVecSort

    from halmos.__main__ import mk_block
    from halmos.sevm import CallContext, Contract, Message
    from halmos.utils import EVM
    this = BitVec("this_address", 160)
    pgm = Contract(_load_program(offsets))
    msg = Message(target=this, caller=BitVec("msg_sender", 160), origin=BitVec("tx_origin", 160), value=BitVec("msg_value", 256),
                  data=cd, call_scheme=EVM.CALL)
    ex = sevm.mk_exec(code={this: pgm}, storage={this: {}}, transient_storage={this: {}},
                      balance=Array("balance_0", BitVecSort(160), BitVecSort(256)), block=mk_block(),
                      context=CallContext(msg), pgm=pgm, path=path)
    out = []
    for e in sevm.run(ex):
        data = e.context.output.data
        words = []
        for i in range(len(offsets)):
            w = data.get_word(32 * i) if data is not None else None
            if hasattr(w, "as_z3"):
                w = w.as_z3()
            if z3.is_bv_value(w):
                w = w.as_long()
            elif isinstance(w, (bytes, bytearray)):
                w = int.from_bytes(w, "big")
            elif not isinstance(w, int):
                w = str(w)
            words.append(w)
        out.append((words, sorted(str(c) for c in e.path.conditions if "_length_" in str(c)), str(e.context.output.error)))
    return out


def multi_setup(real, funs, cfg, mode):
    """Create the symbolic calldata of all `funs` = [(name, inputs)] on one path.
    mode 'direct': mk_calldata + path.process_dyn_params per function (as run_test / the cheatcode do);
    mode 'cheatcode': the real cheatcodes.create_calldata_generic on a fabricated build output.
    Returns (sevm, path, [(fname, calldata ByteVec, items)], candidates dict {symbol name: choices} of the path)."""
    from z3 import Array, BitVec, BitVecSort

    from halmos.__main__ import mk_block, mk_solver
    from halmos.sevm import SEVM, CallContext, Contract, Message, Path
    from halmos.utils import EVM
    hc = real.hc
    args = real.config(cfg)
    items = [{"type": "function", "name": n, "stateMutability": "nonpayable", "inputs": inp} for n, inp in funs]
    sigs = [hc.str_abi(it) for it in items]
    sels = ["%08x" % (0xA0000000 + i) for i in range(len(funs))]
    sevm = SEVM(args, hc.FunctionInfo("T", "test", "test()", "f8a8fd6d"))
    path = Path(mk_solver(args))
    cnt = itertools.count()
    hc.uid = lambda: f"{next(cnt):07x}"
    created = []
    try:
        if mode == "direct":
            c2 = itertools.count(1)
            abi = dict(zip(sigs, items))
            for (n, _), sig, sel in zip(funs, sigs, sels):
                cd, dyn = hc.mk_calldata(abi, hc.FunctionInfo("Tgt", n, sig, sel), args, lambda: next(c2))
                path.process_dyn_params(dyn)
                created.append((n, cd, real.ser(cd)))
        else:
            import halmos.cheatcodes as cheat
            from halmos.mapper import BuildOut
            cheat_uid = cheat.uid
            cheat.uid = hc.uid
            bo = BuildOut()
            saved = (bo._build_out_map, bo._build_out_map_reverse, bo._build_out_map_code)
            cj = {"abi": items, "methodIdentifiers": dict(zip(sigs, sels))}
            bo._build_out_map, bo._build_out_map_reverse, bo._build_out_map_code = {"Tgt.sol": {"Tgt": (cj, "contract", None)}}, None, None
            try:
                this = BitVec("this_address", 160)
                pgm = Contract(b"\x00")
                msg = Message(target=this, caller=BitVec("msg_sender", 160), origin=BitVec("tx_origin", 160),
                              value=BitVec("msg_value", 256), data=real_empty_bytevec(), call_scheme=EVM.CALL)
                ex = sevm.mk_exec(code={this: pgm}, storage={this: {}}, transient_storage={this: {}},
                                  balance=Array("balance_0", BitVecSort(160), BitVecSort(256)), block=mk_block(),
                                  context=CallContext(msg), pgm=pgm, path=path)
                res = cheat.create_calldata_generic(ex, sevm, "Tgt", None, False)
                path = ex.path
                # results: [empty, fallback, one per function]; each is abi.encode(bytes): 64-byte header + calldata
                for (n, _), enc in zip(funs, res[2:]):
                    cd = enc.slice(64, len(enc))
                    created.append((n, cd, real.ser(cd)))
            finally:
                bo._build_out_map, bo._build_out_map_reverse, bo._build_out_map_code = saved
                cheat.uid = cheat_uid
    finally:
        hc.uid = real.orig_uid
    cands = {k.decl().name(): list(v) for k, v in path.concretization.candidates.items()}
    return sevm, path, created, cands


def real_empty_bytevec():
    from halmos.bytevec import ByteVec
    return ByteVec()


def check_multi_registration(ctx, real, g):
    r = ctx.rng
    model_checks = []
    n = ctx.scale(24, 300)
    dyn_types = ["bytes", "uint256[]", "string", "bytes[]", "uint8[][]"]
    for it in range(n):
        mode = "cheatcode" if it % 3 == 2 else "direct"
        nf = r.choice([2, 2, 3])
        funs, cfg = [], {"al": {}, "da": g.cand(True), "db": [r.choice([0, 1, 32, 33, 65]) for _ in range(r.randint(1, 3))]}
        for fi in range(nf):
            inputs = []
            for pi in range(r.randint(1, 2)):
                nm = f"{r.choice('abcd')}{fi}{pi}"
                t = r.choice(dyn_types + ["uint8"]) if pi else r.choice(dyn_types)
                inputs.append({"name": nm, "type": t})
                if t != "uint8" and r.random() < 0.5:
                    cfg["al"][nm] = g.cand(t.endswith("]"))
            funs.append((f"fn{fi}", inputs))
        rj = {"kind": "multi", "funs": funs, "cfg": cfg, "mode": mode}
        try:
            sevm, path, created, cands = multi_setup(real, funs, cfg, mode)
        except Exception as e:  # the handler itself failing on a plain ABI is a broken obligation, not a finding
            raise RuntimeError(f"multi_setup({mode}) failed for {funs}: {type(e).__name__}: {e}") from e
        # expected accumulation: every size symbol of every calldata, with the harness' own reading of the configuration
        want = {}
        for (fname, inputs), (_, cd, items) in zip(funs, created):
            top = ("tuple", [(i["name"], {"bytes": "bytes", "string": "string", "uint8": ("uint", 8),
                                          "uint256[]": ("darr", ("uint", 256)), "bytes[]": ("darr", "bytes"),
                                          "uint8[][]": ("darr", ("darr", ("uint", 8)))}[i["type"]]) for i in inputs])
            _, wd = leaves_estimate(top, cfg)
            bypath = {p: s for p, s, _ in wd}
            for it2 in items:
                if it2[0] == "S":
                    sp = split_sym(it2[1])
                    if sp and sp[1] == "length":
                        want[it2[1]] = bypath.get(sp[0])
        ctx.case(("multi", json.dumps(rj, sort_keys=True)))
        ctx.count(f"multi:{mode}:{nf}-functions")
        # the Lean model of process_dyn_params / calldataload on the same registrations (one registration per calldata)
        regs = []
        for _, _, items in created:
            regs.append([[it2[1], want[it2[1]]] for it2 in items if it2[0] == "S" and it2[1] in want])
        model_checks.append((regs, dict(cands), rj))
        if cands != want:
            lost = sorted(set(want) - set(cands))
            ctx.violation(f"C12:candidates-of-earlier-calldata-lost-after-later-registration:{mode}",
                          f"after registering the calldata of {[f for f, _ in funs]} on one path the candidate map lacks {lost[:3]} "
                          f"(has {len(cands)} of {len(want)} size symbols)" if lost else
                          f"candidate map {dict(list(cands.items())[:3])} != configured {dict(list(want.items())[:3])}", rj)
        # probe: read a size symbol of each calldata (the earlier ones AFTER the later ones were registered)
        for ci, (fname, cd, items) in enumerate(created):
            offs = offsets_of(items)
            sizes = [nm for nm in offs if nm in want]
            if not sizes:
                continue
            sym = r.choice(sizes)
            # fresh, identical setup for every probe (a run adds conditions to nothing, but keep probes independent)
            sevm2, path2, created2, _ = multi_setup(real, funs, cfg, mode)
            res = _run_loads(sevm2, created2[ci][1], path2, [offs[sym]])
            got = sorted((w, conds) for w, conds, err in res)
            exp = sorted(([c], [f"{sym} == {c}"]) for c in want[sym])
            ctx.case(("multi-probe", json.dumps(rj, sort_keys=True), ci, sym))
            ctx.count(f"multi-probe:{'last' if ci == len(created) - 1 else 'earlier'}-registered")
            if any(err != "None" for _, _, err in res) or got != exp:
                ctx.violation(f"C12:calldataload-candidates-not-all-branched:multi-registration:{mode}:"
                              f"{'last' if ci == len(created) - 1 else 'earlier'}",
                              f"{mode}: calldata #{ci} of {len(created)} registered on one path: CALLDATALOAD of {sym} with candidates "
                              f"{want[sym]} gives successors {got[:5]}, expected {exp[:5]}", {**rj, "probe": ci, "sym": sym})
    # model vs implementation: registered symbols and what a load of the first calldata's first size symbol branches to
    reqs = [json.dumps({"op": "cands", "regs": regs, "probe": regs[0][0][0] if regs[0] else ""}) for regs, _, _ in model_checks]
    for (regs, cands, rj), rep in zip(model_checks, ctx.lean("Abi").ask(reqs)):
        rep = json.loads(rep)
        spec_ok = all(cands.get(nm) == ch for reg in regs for nm, ch in reg) and len(cands) == sum(len(x) for x in regs)
        if sorted(rep["registered"]) != sorted(cands) or (regs[0] and rep["branches"] != cands.get(regs[0][0][0])):
            if spec_ok:
                raise RuntimeError(f"model/implementation mismatch in process_dyn_params: model {rep} real {cands}")


# ----------------------------------------------------------------------------------------------------------------

# ----------------------------------------------------------------------------------------------------------------
# (L) layered configurations: several functions of one contract in ONE process, each with its own config built the
#     real way — command line -> contract `@custom:halmos` (with_natspec) -> function `@custom:halmos` (with_devdoc) —
#     through the module-level singleton arg parser; `--array-lengths` annotations mention different parameter subsets.
#     Size candidates of every dynamic parameter = configured for that name in the winning layer, else the defaults.
# ----------------------------------------------------------------------------------------------------------------

def render_al(al):
    return ",".join(f"{k}={{{','.join(map(str, v))}}}" if (len(v) != 1) else f"{k}={v[0]}" for k, v in al.items())


def render_layer(layer):
    """layer: {"al": dict|None, "da": list|None, "db": list|None} -> option string"""
    parts = []
    if layer.get("al") is not None:
        parts += ["--array-lengths", render_al(layer["al"])]
    if layer.get("da") is not None:
        parts += ["--default-array-lengths", ",".join(map(str, layer["da"]))]
    if layer.get("db") is not None:
        parts += ["--default-bytes-lengths", ",".join(map(str, layer["db"]))]
    return " ".join(parts)


def effective_cfg(cli, contract, fn):
    """option-wise precedence: command line (5) > function annotation (4) > contract annotation (3) > default (1)"""
    out = {"al": {}, "da": [0, 1, 2], "db": [0, 65, 1024]}
    for layer in (contract, fn, cli):
        for k in ("al", "da", "db"):
            if layer.get(k) is not None:
                out[k] = layer[k]
    return out


LAYER_TYPES = {"bytes": "bytes", "string": "string", "uint256[]": ("darr", ("uint", 256)), "bytes[]": ("darr", "bytes"),
               "uint8": ("uint", 8)}


def check_parser_isolation(ctx, real, g):
    """parser level: parsing annotation A and then B through the singleton parser gives B exactly its own entries, and
    leaves the namespace / Config obtained from A unchanged"""
    import copy
    import shlex

    from halmos.config import ConfigSource, arg_parser, default_config
    r = ctx.rng
    for _ in range(ctx.scale(60, 1000)):
        seq = []
        for _ in range(r.randint(2, 4)):
            names = r.sample(["a", "b", "c", "d", "a[0]", "xs", "data"], r.randint(0, 3))
            al = {n: g.cand(r.random() < 0.5) for n in names} if (names or r.random() < 0.5) else None
            if al == {}:
                al = None       # an empty --array-lengths value is not expressible; the option is simply absent
            seq.append({"al": al, "da": g.cand(True) if r.random() < 0.3 else None, "db": None})
        held = []
        for i, layer in enumerate(seq):
            text = render_layer(layer)
            ns = arg_parser().parse_args(shlex.split(text))
            cfgobj = default_config().with_overrides(ConfigSource.function_annotation, **vars(ns))
            got = ns.array_lengths
            ctx.case(("parser-seq", json.dumps(seq), i))
            ctx.count(f"parser-isolation:parse#{min(i, 3)}")
            rj = {"kind": "parser", "seq": seq, "index": i}
            if got != layer["al"]:
                ctx.violation("C12:array-lengths-of-earlier-parse-leak-into-later-parse",
                              f"parsing {[render_layer(x) for x in seq[:i + 1]]} in one process: the last parse yields array_lengths={got}, "
                              f"alone it yields {layer['al']}", rj)
            want_eff = layer["al"] if layer["al"] is not None else {}
            if cfgobj.array_lengths != want_eff:
                ctx.violation("C12:array-lengths-of-earlier-parse-leak-into-later-parse",
                              f"Config from annotation {text!r} after {[render_layer(x) for x in seq[:i]]}: array_lengths="
                              f"{cfgobj.array_lengths}, expected {want_eff}", rj)
            held.append((ns, cfgobj, copy.deepcopy(got), copy.deepcopy(cfgobj.array_lengths)))
            for j, (ns0, cfg0, snap_ns, snap_cfg) in enumerate(held[:-1]):
                if ns0.array_lengths != snap_ns or cfg0.array_lengths != snap_cfg:
                    ctx.violation("C12:earlier-config-mutated-by-later-array-lengths-parse",
                                  f"Config built from parse #{j} ({render_layer(seq[j])!r}) had array_lengths={snap_cfg}, after parse #{i} "
                                  f"({text!r}) it reads {cfg0.array_lengths}", rj)


def check_layered_configs(ctx, real, g):
    import copy
    import shlex

    from halmos.__main__ import mk_solver, with_devdoc, with_natspec
    from halmos.config import ConfigSource, arg_parser, default_config
    from halmos.sevm import SEVM, Path
    hc = real.hc
    r = ctx.rng
    reqs, plan = [], []
    for it in range(ctx.scale(40, 600)):
        nf = r.randint(2, 4)
        pool = ["a", "b", "c", "d"]
        funs = []
        for fi in range(nf):
            ps = r.sample(pool, r.randint(1, 3))
            inputs = [{"name": nm, "type": r.choice(["bytes", "string", "uint256[]", "bytes[]", "uint8"] if i else
                                                     ["bytes", "string", "uint256[]", "bytes[]"])} for i, nm in enumerate(ps)]
            # annotation mentions a subset of the parameters (possibly none, possibly names of OTHER functions' parameters)
            mention = [nm for nm in pool if r.random() < 0.4]
            al = {}
            for nm in mention:
                ty = next((i["type"] for i in inputs if i["name"] == nm), "uint256[]")
                al[nm] = g.cand(ty.endswith("]"))
                if ty == "bytes[]" and r.random() < 0.5:
                    al[nm + "[0]"] = g.cand(False)
            fn_layer = {"al": al or None, "da": g.cand(True) if r.random() < 0.2 else None,
                        "db": [r.choice([0, 1, 32, 33, 65])] if r.random() < 0.2 else None}
            if r.random() < 0.2:
                fn_layer = {"al": None, "da": None, "db": None}     # no annotation at all
            funs.append((f"fn{fi}", inputs, fn_layer))
        small = lambda: [r.choice([0, 1, 2, 3]) for _ in range(r.randint(1, 3))]  # noqa: E731  (fits arrays and bytes alike)
        contract_layer = {"al": ({r.choice(pool): small()} if r.random() < 0.3 else None),
                          "da": g.cand(True) if r.random() < 0.3 else None, "db": None}
        cli_layer = {"al": ({r.choice(pool): small()} if r.random() < 0.12 else None),
                     "da": None, "db": [r.choice([0, 1, 32, 33, 65]) for _ in range(r.randint(1, 2))] if r.random() < 0.5 else None}
        items = [{"type": "function", "name": n, "stateMutability": "nonpayable", "inputs": inp} for n, inp, _ in funs]
        sigs = [n + "(" + ",".join(i["type"] for i in inp) + ")" for n, inp, _ in funs]
        methods = {sig: {"custom:halmos": render_layer(l)} for sig, (_, _, l) in zip(sigs, funs) if render_layer(l)}
        contract_json = {"abi": items, "metadata": {"output": {"devdoc": {"methods": methods}}}}
        natspec = {"text": f"some contract @custom:halmos {render_layer(contract_layer)}"} if render_layer(contract_layer) else None
        # the real layering, one process, singleton parser
        base = default_config().with_overrides(ConfigSource.command_line,
                                               **vars(arg_parser().parse_args(shlex.split(render_layer(cli_layer)))))
        order = list(range(nf))
        r.shuffle(order)
        if it % 3 == 0:
            order = order + [order[0]]          # the first function once more after the others
        abi = hc.get_abi(contract_json)
        cnt = itertools.count()
        hc.uid = lambda: f"{next(cnt):07x}"
        held = []
        try:
            for pos, fi in enumerate(order):
                fname, inputs, fn_layer = funs[fi]
                cargs = with_natspec(base, "Tgt", natspec)
                fargs = with_devdoc(cargs, sigs[fi], contract_json)
                c2 = itertools.count(1)
                cd, dyn = hc.mk_calldata(abi, hc.FunctionInfo("Tgt", fname, sigs[fi], "%08x" % (0xB0000000 + fi)), fargs,
                                         lambda: next(c2))
                eff = effective_cfg(cli_layer, contract_layer, fn_layer)
                top = ("tuple", [(i["name"], LAYER_TYPES[i["type"]]) for i in inputs])
                _, want_dyn = leaves_estimate(top, eff)
                got = [(d.name, list(d.size_choices)) for d in dyn]
                want = [(p, list(s)) for p, s, _ in want_dyn]
                rj = {"kind": "layered", "funs": funs, "contract": contract_layer, "cli": cli_layer, "order": order, "pos": pos}
                ctx.case(("layered", json.dumps(rj, sort_keys=True)))
                ctx.count(f"layered:function#{min(pos, 4)}-in-process")
                ctx.count("layered:annotation-" + ("with-array-lengths" if fn_layer["al"] else "without-array-lengths"))
                if got != want:
                    ctx.violation("C12:layered-config-candidates-differ-from-configured",
                                  f"{sigs[fi]} processed #{pos} in one process (function annotation {render_layer(fn_layer)!r}, contract "
                                  f"{render_layer(contract_layer)!r}, cli {render_layer(cli_layer)!r}): dyn_params {got} != configured "
                                  f"(name's entry in the winning layer, else defaults) {want}", rj)
                else:
                    # the explored candidates on the real SEVM, for one size symbol
                    if dyn and r.random() < 0.35:
                        d = r.choice(dyn)
                        items_ser = real.ser(cd)
                        offs = offsets_of(items_ser)
                        sym = d.size_symbol.decl().name()
                        path = Path(mk_solver(fargs))
                        path.process_dyn_params(dyn)
                        sevm = SEVM(fargs, hc.FunctionInfo("Tgt", fname, sigs[fi], "b0000000"))
                        res = _run_loads(sevm, cd, path, [offs[sym]])
                        gotb = sorted((w, conds) for w, conds, err in res)
                        expb = sorted(([c], [f"{sym} == {c}"]) for c in dict(want)[d.name])
                        ctx.count("layered:branch-probe")
                        if gotb != expb:
                            ctx.violation("C12:calldataload-candidates-not-all-branched:layered",
                                          f"{sigs[fi]}: CALLDATALOAD of {sym}: successors {gotb[:5]} expected {expb[:5]}", rj)
                    # the Lean model with the effective configuration
                    c = mk_case(top, eff, ["ctr"], ["ctr", 1], "%08x" % (0xB0000000 + fi), "layered")
                    plan.append((c, real.ser_dyn(dyn), sigs[fi]))
                    reqs.append(lean_create_req(c))
                # earlier configs must not change
                snap = (copy.deepcopy(fargs.array_lengths), copy.deepcopy(fargs.default_array_lengths), copy.deepcopy(fargs.default_bytes_lengths))
                for (f0, s0, sig0) in held:
                    now = (f0.array_lengths, f0.default_array_lengths, f0.default_bytes_lengths)
                    if now != s0:
                        ctx.violation("C12:earlier-config-mutated-by-later-array-lengths-parse",
                                      f"config of {sig0} was {s0}, after building the config of {sigs[fi]} it reads {now}", rj)
                held.append((fargs, snap, sigs[fi]))
                cnt = itertools.count()
                hc.uid = lambda: f"{next(cnt):07x}"
        finally:
            hc.uid = real.orig_uid
    # uid restarts per function, so the model's names match
    for (c, dyn, sig), rep in zip(plan, ctx.lean("Abi").ask(reqs)):
        rep = json.loads(rep)
        if rep.get("dyn") != dyn:
            raise RuntimeError(f"model/implementation mismatch (layered config) on {sig} cfg={c.cfg}: model {rep.get('dyn')} real {dyn}")


def wrap_dims(t, dims):
    """dims innermost first: None = [], k = [k]"""
    for d in dims:
        t = ("darr", t) if d is None else ("farr", t, d)
    return t


def struct_dim_cases(ctx, g):
    r = ctx.rng
    out = []
    structs = [("tuple", [("p", ("uint", 256)), ("q", "bool")]),                      # static struct
               ("tuple", [("p", "bytes"), ("q", ("uint", 8))]),                          # dynamic struct
               ("tuple", [("p", ("darr", ("uint", 256)))])]
    dim_sets = [list(d) for n in (2, 3) for d in itertools.product([None, 1, 2, 3], repeat=n)]
    if ctx.tier == "quick" and not ctx.search:
        dim_sets = [d for d in dim_sets if len(d) == 2] + r.sample([d for d in dim_sets if len(d) == 3], 16)
    cfgs = [{"al": {}, "da": [1, 2], "db": [0, 33]}, {"al": {"x": [1], "x[0]": [2, 0]}, "da": [0, 1], "db": [32]}]
    for dims in dim_sets:
        for si, st in enumerate(structs):
            if ctx.tier == "quick" and not ctx.search and len(dims) == 3 and si != (len(out) % 3):
                continue
            t = wrap_dims(st, dims)
            cfg = r.choice(cfgs)
            # (a) top-level parameter, (b) nested field of another struct, (c) next to other parameters
            tops = [("tuple", [("x", t)]),
                    ("tuple", [("k", ("uint", 8)), ("o", ("tuple", [("x", t), ("z", "address")]))]),
                    ("tuple", [("a", "bytes"), ("x", t), ("b", ("farr", ("uint", 256), 2))])]
            for top in (tops if len(dims) == 2 else [r.choice(tops)]):
                if leaves_estimate(top, cfg)[0] <= 300:
                    out.append(mk_case(top, cfg, ["ctr"], ["none"], "%08x" % r.getrandbits(32), "struct-dims"))
            # overload sets differing only in inner dimensions: S[outer], S[d1][outer], S[d2][outer] (+ different order)
            outer = dims[-1]
            fam = [wrap_dims(st, [outer]), wrap_dims(st, dims), wrap_dims(st, [r.choice([None, 2, 4])] + [outer])]
            fam_tops = []
            for f in fam:
                top = ("tuple", [("x", f)])
                if sig_of(top) not in [sig_of(x) for x in fam_tops]:
                    fam_tops.append(top)
            order = list(fam_tops)
            r.shuffle(order)
            if r.random() < 0.5:
                order = list(fam_tops)   # truncated signature listed first
            for i, top in enumerate(order):
                if leaves_estimate(top, cfg)[0] <= 300:
                    out.append(mk_case(top, cfg, ["ctr"], ["ctr", 1], "%08x" % r.getrandbits(32), "struct-dims-overloads",
                                       before=order[:i], after=order[i + 1:]))
    return out


def corpus_cases():
    d = VERIF / "corpus" / ID
    out = []
    if d.is_dir():
        for p in sorted(d.glob("*.json")):
            j = json.loads(p.read_text())
            out.append(mk_case(top_from_json(j["top"]), j["cfg"], j.get("uid", ["ctr"]), j.get("sid", ["none"]),
                               j.get("selector", "a9059cbb"), "corpus", j.get("via_strings", False),
                               before=[top_from_json(o) for o in j.get("before", [])],
                               after=[top_from_json(o) for o in j.get("after", [])]))
    return out


def correspond(ctx):
    real = Real()
    lits = harvest_literals()
    ctx.note(f"harvested literals: {lits}")
    g = Gen(ctx.rng, lits)
    r = ctx.rng

    def supply():
        uid = ["ctr"] if r.random() < 0.8 else ["const", r.choice(["fffffff", "0000000", "abc1234"])]
        sid = ["none"] if r.random() < 0.4 else ["ctr", r.choice([1, 2, 9, 10, 99, 100, r.randint(1, 500)])]
        return uid, sid

    cases = corpus_cases()
    # exhaustive small scope
    small = small_scope_types(2)
    if ctx.tier == "quick" and not ctx.search:
        small = small_scope_types(1) + r.sample(small, 150)
    else:
        ctx.extra["exhaustive"] = True
    for t in small:
        for cfg in ({"al": {}, "da": [0, 1, 2], "db": [0, 65, 1024] if ctx.tier != "quick" else [0, 65]},
                    {"al": {"x": [2], "x[0]": [1, 33]}, "da": [1], "db": [33, 1]}):
            top = ("tuple", [("x", t)])
            if leaves_estimate(top, cfg)[0] <= 400:
                cases.append(mk_case(top, cfg, ["ctr"], ["none"], "12345678", "small-scope"))
    # structs under 2-3 array dimensions (all static/dynamic mixes), top level and as a nested field, looked up by the
    # canonical signature; overload sets whose members differ only in the inner dimensions
    cases += struct_dim_cases(ctx, g)
    # random trees
    n = ctx.scale(800, 20000)
    made = 0
    while made < n:
        dup = r.random() < 0.15
        arity = r.choice([1, 1, 2, 2, 3, 3, 4]) if made % 40 else 0
        top = ("tuple", list(zip(g.names(arity, dup), [g.ty(r.choice([0, 1, 2, 3, 3]), dup) for _ in range(arity)])))
        for _ in range(3):
            cfg = gen_cfg(g, top)
            if leaves_estimate(top, cfg)[0] > 250:
                continue
            uid, sid = supply()
            vs = r.random() < 0.25 and real.names_ok_for_strings(cfg) and all(len(v) > 0 for v in cfg["al"].values())
            cases.append(mk_case(top, cfg, uid, sid, "%08x" % r.getrandbits(32), "random", via_strings=bool(vs)))
        made += 1
    # run in chunks (one driver batch each)
    model_bad, impl_bad = [], []
    chunk = 600
    for i in range(0, len(cases), chunk):
        mb, ib = run_cases(ctx, real, cases[i:i + chunk])
        model_bad += mb
        impl_bad += ib

    # zero-length fixed arrays of a dynamic element type: record what happens (finding, see ASSUMPTIONS)
    check_zero_fixed(ctx, real)
    check_parse(ctx, real, g)
    check_empty_candidates(ctx, real)
    check_real_uid(ctx, real, g)
    check_branching(ctx, real, g)
    check_multi_registration(ctx, real, g)
    check_parser_isolation(ctx, real, g)
    check_layered_configs(ctx, real, g)

    if model_bad:
        c, what, rep, got = model_bad[0]
        raise RuntimeError(
            f"model/implementation mismatch ({what}) on f{sig_of(c.top)} cfg={c.cfg} uid={c.uid} sid={c.sid}: "
            f"model={json.dumps(rep)[:600]} real={json.dumps(got, default=str)[:600]} ({len(model_bad)} mismatching cases, "
            f"Spec-level checks of these cases passed, so the model is stale)")
    if impl_bad:
        ctx.note(f"{len(impl_bad)} cases also differ from the model (the model mirrors the unmodified code)")


def check_zero_fixed(ctx, real):
    """T[0] with dynamic T: the specification makes it dynamic (head = offset); halmos emits nothing for it"""
    cfg = {"al": {}, "da": [1], "db": [32]}
    reqs, plan = [], []
    val = ["l", [["l", []], ["u", "7"]]]
    for t in (("farr", "bytes", 0), ("farr", ("darr", ("uint", 256)), 0)):
        top = ("tuple", [("x", t), ("y", ("uint", 256))])
        c = mk_case(top, cfg, ["ctr"], ["none"], "01020304", "zero-fixed")
        res = real.create([abi_item(n, tt) for n, tt in top[1]], cfg, c.selector, c.uid, c.sid)
        env = {("y", "uint256"): (7).to_bytes(32, "big")}
        ctx.case(("zero-fixed", sig_of(top)))
        ctx.count("zero-fixed-array-of-dynamic")
        if res[0] != "ok":
            continue
        data, _ = instantiate(ctx.rng, res[1], res[2], env)
        plan.append((top, c, data))
        reqs.append(json.dumps({"op": "spec", "ty": spec_ty(top), "val": val, "hex": data[4:].hex()}))
    for (top, c, data), rep in zip(plan, ctx.lean("Abi").ask(reqs)):
        rep = json.loads(rep)
        if rep["dec_hex"] != val:
            ctx.violation("C12:zero-length-fixed-array-of-dynamic-type-encoded-as-static",
                          f"f{sig_of(top)}: ABI spec makes T[0] with dynamic T a dynamic type (32-byte offset in the head); halmos "
                          f"emits no head slot, so the calldata ({len(data) - 4} bytes) does not decode to (x=[], y=7): {rep['dec_hex']}",
                          {"kind": "zero-fixed", **case_json(c)})


def check_real_uid(ctx, real, g):
    """with the real uid(): names well-formed and pairwise distinct, also for unnamed / duplicate parameter names"""
    r = ctx.rng
    for _ in range(ctx.scale(40, 600)):
        arity = r.randint(1, 4)
        top = ("tuple", list(zip(g.names(arity, True), [g.ty(r.choice([0, 1, 2]), True) for _ in range(arity)])))
        cfg = gen_cfg(g, top)
        if leaves_estimate(top, cfg)[0] > 150:
            continue
        res = real.create([abi_item(n, t) for n, t in top[1]], cfg, "01020304", ["real"], ["none"])
        if res[0] != "ok":
            continue
        names = [it[1] for it in res[1] if it[0] == "S"]
        ctx.case(("real-uid", sig_of(top), json.dumps(cfg, sort_keys=True)))
        ctx.count("real-uid")
        if len(set(names)) != len(names) or not all(re.search(r"_[0-9a-f]{7}_00$", n) for n in names):
            ctx.violation("C12:symbols-not-pairwise-distinct", f"with the real uid(): {names[:4]}",
                          {"kind": "real-uid", "top": top, "cfg": cfg})


def replay(ctx, data) -> bool:
    real = Real()
    rp = data.get("replay", data)
    kind = rp.get("kind")
    before = len(ctx.violations)
    if kind in ("create", "spec", "zero-fixed"):
        c = mk_case(top_from_json(rp["top"]), rp["cfg"], rp["uid"], rp["sid"], rp["selector"], "replay", rp.get("via_strings", False),
                    before=[top_from_json(o) for o in rp.get("before", [])], after=[top_from_json(o) for o in rp.get("after", [])])
        if kind == "zero-fixed":
            check_zero_fixed(ctx, real)
        else:
            for _ in range(5):
                run_cases(ctx, real, [c])
    elif kind == "parse":
        item = {"name": "v", "type": rp["typ"]}
        if rp.get("components"):
            item["components"] = [{"name": "m", "type": "uint8"}]
        return "ok" in real.parse("v", rp["typ"], item)
    elif kind == "unsupported-create":
        res = real.create([{"name": "x", "type": rp["typ"]}], {"al": {}, "da": [1], "db": [32]}, "01020304", ["ctr"], ["none"])
        return res[0] != "err"
    elif kind == "empty":
        return real.create(rp["inputs"], rp["cfg"], "01020304", ["ctr"], ["none"])[0] != "err"
    elif kind == "parser":
        check_parser_isolation(ctx, real, Gen(ctx.rng, harvest_literals()))
    elif kind == "layered":
        check_layered_configs(ctx, real, Gen(ctx.rng, harvest_literals()))
    elif kind == "multi":
        g = Gen(ctx.rng, harvest_literals())
        check_multi_registration(ctx, real, g)
    elif kind == "branch":
        g = Gen(ctx.rng, harvest_literals())
        for _ in range(30):
            check_branching(ctx, real, g)
    elif kind == "real-uid":
        g = Gen(ctx.rng, harvest_literals())
        check_real_uid(ctx, real, g)
    return len(ctx.violations) > before
