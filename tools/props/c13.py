"""C13 — assume and assert cheatcodes have exactly their stated meaning.

Correspondence (see DESIGN.md "### C13"):

 level 1 (direct)  for every key of `assert_cheatcode_handler` and for `vm.assume`: ABI-encoded calldata (concrete / symbolic /
                   mixed operands, arrays, bytes, messages, truncated and malformed encodings) is handed to the real
                   `hevm_cheat_code.handle(sevm, ex, arg, stack)` on an execution state with a chosen path condition π.
                   Compared with the Lean model (Driver/Assertions.lean: `Model.Assertions` with the constant folder as
                   simplifier): which exception is raised, the shape of the condition, its value under sampled inputs
                   (independent z3-ast evaluator), the successors (continues / FailCheatcode, path extended or not) given
                   the oracle's answers, the value of the appended condition — and with the Lean Spec
                   (`Spec.Forge.runAssert` on the concrete calldata, signature taken from the Keccak-proved selector table).
 level 2 (SEVM)    generated programs that build the calldata in memory and CALL the cheatcode address, at nesting depth
                   0..3 (callee contracts reached by CALL / DELEGATECALL / STATICCALL), one or several cheatcode calls in
                   a row, run on the real SEVM with symbolic calldata words.  For sampled inputs (boundary pairs, random,
                   solver models of each path): input ⊨ some FailCheatcode path  ⇔  Spec says the test fails;
                   Spec continues ⇒ a success path covers the input; `is_global_fail_set` holds on the yielded state of
                   every FailCheatcode path (the real function from __main__); for the continuing path the returned
                   observation (success flag, RETURNDATASIZE, return area, storage slot, argument memory) and the storage
                   equal what the Lean reference EVM (`Spec.Evm`, where the cheatcode address is an empty account) computes.
 end-to-end        `run_contract_offline`: assertion failing only for x == 42 → FAIL with x = 42; vm.assume(x != 42) in
                   front → PASS; the same failure inside a nested call → FAIL.
"""
from __future__ import annotations

import json
import time
from dataclasses import dataclass, field
from pathlib import Path

from vlib.runner import VERIF

ID = "C13"
EXTRACTORS = ["selectors", "hashtables", "assert_table"]
LEAN_MODULES = ["HalmosVerif.Props.C13", "HalmosVerif.Props.C13Derive", "HalmosVerif.Props.C13DeriveA", "HalmosVerif.Props.C13DeriveB",
                "HalmosVerif.Props.C13Tables", "HalmosVerif.Props.C13TablesA",
                "HalmosVerif.Props.C13TablesB", "HalmosVerif.Props.C13TablesC", "HalmosVerif.Props.KeccakAgree"]
LEAN_EXTRA_TARGETS = ["HalmosVerif.Model.SimpFold", "HalmosVerif.Spec.Evm"]
RULE = ("a case = (cheatcode selector, calldata layout with concrete/symbolic bytes, path condition, nesting chain); distinct by "
        "(selector, layout, operand values, chain); non-trivial when the relation is decided by the operands (both outcomes "
        "are sampled for symbolic operands) — every selector of the table and vm.assume is covered at every tier")
TRUSTED = [
    "Spec.Forge (documented meaning of forge-std assertions) and the ABI decoder in it",
    "tools/vlib/evmdiff.py PathEval / zeval (evaluation of halmos' path conditions under concrete inputs)",
    "Spec.Evm reference interpreter for the 'nothing else changes' comparison (cheatcode address = empty account)",
    "ast pins of tools/extract/assert_table.py tie Model/Assertions.lean to the source text it mirrors",
]
ASSUMPTIONS = [
    "z3 simplify preserves meaning (SimpSound); the oracle Exec.check answers unsat only for unsatisfiable queries (C01/C02)",
    "non-canonical bool/address words are compared as 256-bit words (compilers emit canonical encodings)",
    "calldata for which the ABI decoder fails (truncated) is outside the theorems' hypothesis; halmos zero-pads it (reported)",
]

W = 1 << 256
HEVM = 0x7109709ECFA91A80626FF3989D68F67F5B1DD12D
ASSUME_SEL = 0x4C63E562
MEM = 0x80
RET_OFF = 0x600
OUT = 0x700
MARKER = 0xAAAAAAAAAAAAAAAAAAAAAAAAAAAAAAAAAAAAAAAAAAAAAAAAAAAAAAAAAAAAAAAA

DIRECTED_PAIRS = [
    (0, 0), (0, 1), (1, 0), (5, 5), (5, 6), (1 << 255, 1), (1, 1 << 255), (W - 1, 0), (0, W - 1), ((1 << 255) - 1, 1 << 255),
    (1 << 255, (1 << 255) - 1), (W - 1, W - 2), (W - 2, W - 1), (W - 1, W - 1), (1 << 255, 1 << 255), (1 << 160, 0),
    ((1 << 160) - 1, (1 << 160) - 1), (1 << 248, 1), (2, 1), (1 << 128, (1 << 128) + 1),
]


# operands on both sides of the signed / unsigned boundary (mod 2^256 this is also the int256 set {-1, -2^255, 2^255-1, 0, 1})
SIGNSET = [0, 1, 5, (1 << 255) - 1, 1 << 255, (1 << 255) + 1, W - 1]
ORDERED = ("assertLt(", "assertGt(", "assertLe(", "assertGe(")


def is_ordered_sig(sig):
    return bool(sig) and sig.startswith(ORDERED)


def cross_sign(x, y):
    return (x >> 255) != (y >> 255)


# --------------------------------------------------------------------------------------------------------- cases

def V(i):
    return ("v", i)


@dataclass
class Case:
    sel: int
    slots: list                  # 32-byte words after the selector: int | ("v", i)
    n: int | None = None         # calldata size (default 4 + 32 * len(slots))
    tag: str = ""
    sig: str | None = None
    meta: dict = field(default_factory=dict)

    def size(self):
        return 4 + 32 * len(self.slots) if self.n is None else self.n

    def nvars(self):
        return 1 + max([s[1] for s in self.slots if isinstance(s, tuple)], default=-1)

    def image(self):
        """per byte: int | (var, byte index)"""
        img = list(self.sel.to_bytes(4, "big"))
        for s in self.slots:
            if isinstance(s, tuple):
                img += [(s[1], j) for j in range(32)]
            else:
                img += list((s % W).to_bytes(32, "big"))
        n = self.size()
        if n <= len(img):
            return img[:n]
        return img + [0] * (n - len(img))

    def layout(self):
        img = self.image()
        if not img:
            return "-"
        out, i = [], 0
        while i < len(img):
            if isinstance(img[i], int):
                j = i
                while j < len(img) and isinstance(img[j], int):
                    j += 1
                out.append("c" + bytes(img[i:j]).hex())
                i = j
            else:
                v, b0 = img[i]
                j = i
                while j < len(img) and isinstance(img[j], tuple) and img[j] == (v, b0 + (j - i)):
                    j += 1
                out.append(f"v{v}:{b0}:{b0 + (j - i)}")
                i = j
        return ",".join(out)

    def concrete(self, vals):
        return bytes(b if isinstance(b, int) else (vals[b[0]] >> (8 * (31 - b[1]))) & 0xFF for b in self.image())

    def key(self):
        return (self.sel, tuple(self.slots), self.n)

    def to_json(self):
        return {"sel": hex(self.sel), "slots": [s if isinstance(s, int) else list(s) for s in self.slots], "n": self.n, "tag": self.tag,
                "sig": self.sig}

    @staticmethod
    def from_json(d):
        return Case(int(d["sel"], 16), [s if isinstance(s, int) else (s[0], s[1]) for s in d["slots"]], d.get("n"), d.get("tag", ""),
                    d.get("sig"))


def words_of_bytes(b: bytes, pad: int = 0):
    """right-padded 32-byte words of a byte string; `pad` fills the padding (0 = canonical)"""
    out = []
    for i in range(0, len(b), 32):
        chunk = b[i:i + 32]
        out.append(int.from_bytes(chunk + bytes([pad]) * (32 - len(chunk)), "big"))
    return out


def encode(sel, ops, msg=None, same_tail=False):
    """ops: list of either a static word (int | V) or ("dyn", length_word, [data words]);  msg: None | (len, [words])"""
    heads, tails = [], []
    items = list(ops) + ([("dyn", msg[0], msg[1])] if msg is not None else [])
    hsize = 32 * len(items)
    pos = hsize
    first_dyn = None
    for it in items:
        if isinstance(it, tuple) and it[0] == "dyn":
            if same_tail and first_dyn is not None and it is not items[-1]:
                heads.append(first_dyn)
                continue
            heads.append(pos)
            if first_dyn is None:
                first_dyn = pos
            t = [it[1]] + list(it[2])
            tails += t
            pos += 32 * len(t)
        else:
            heads.append(it)
    return heads + tails


class Gen:
    def __init__(self, ctx, entries, literals):
        self.ctx = ctx
        self.rng = ctx.rng
        self.entries = entries
        self.pool = sorted({0, 1, 2, 3, 42, 255, 256, (1 << 255) - 1, 1 << 255, (1 << 255) + 1, W - 1, W - 2, (1 << 160) - 1, 1 << 160,
                            1 << 128, 1 << 248} | {(l + d) % W for l in literals for d in (-1, 0, 1)})
        boring = {0, 1, 2, 3, 4, 5, 31, 32, 33, 35, 36, 37, 255, 256, 257}
        self.special = sorted({l % W for l in literals} - boring)      # unusual literals of the source: exercised directly
        self.thorough = ctx.tier != "quick"
        self.lens = [0, 1, 31, 32, 33, 65]
        self.alens = list(range(0, 5 if self.thorough else 3))

    def word(self):
        r = self.rng.random()
        if r < 0.6:
            return self.rng.choice(self.pool)
        if r < 0.8:
            return self.rng.randrange(W)
        return (1 << self.rng.randrange(256)) % W

    def msg(self):
        r = self.rng.random()
        if r < 0.5:
            return (2, [0x4142 << 240])
        if r < 0.7:
            return (0, [])
        if r < 0.85:
            return (33, [int.from_bytes(b"m" * 32, "big"), ord("!") << 248])
        return (3, [0xE282AC << 232])    # "€"

    def static_cases(self, e):
        sel, out = e["sel"], []
        m = (lambda: self.msg()) if e["has_msg"] else (lambda: None)
        pairs = list(DIRECTED_PAIRS)
        self.rng.shuffle(pairs)
        k = len(pairs) if self.thorough else 5
        for x, y in pairs[:k]:
            out.append(Case(sel, encode(sel, [x, y], m()), tag="cc"))
        out.append(Case(sel, encode(sel, [V(0), V(1)], m()), tag="ss"))
        out.append(Case(sel, encode(sel, [V(0), V(0)], m()), tag="ss-same"))
        c = self.word()
        out.append(Case(sel, encode(sel, [V(0), c], m()), tag="sc"))
        out.append(Case(sel, encode(sel, [self.word(), V(0)], m()), tag="cs"))
        for _ in range(6 if self.thorough else 1):
            out.append(Case(sel, encode(sel, [self.word(), self.word()], m()), tag="cc-rand"))
        if e["op"] in ("Lt", "Gt", "Le", "Ge"):
            # ordered comparisons: every pair of operands around the signed / unsigned boundary, concrete and half-symbolic
            for x in SIGNSET:
                for y in SIGNSET:
                    out.append(Case(sel, encode(sel, [x, y], m()), tag="signcc-x" if cross_sign(x, y) else "signcc"))
                out.append(Case(sel, encode(sel, [V(0), x], m()), tag="signsc"))
                out.append(Case(sel, encode(sel, [x, V(0)], m()), tag="signcs"))
        for lit in self.special:
            for d in (-1, 0, 1):
                v = (lit + d) % W
                out.append(Case(sel, encode(sel, [self.word(), v], m()), tag="cc-literal"))
                out.append(Case(sel, encode(sel, [v, self.word()], m()), tag="cc-literal"))
                out.append(Case(sel, encode(sel, [V(0), v], m()), tag="sc-literal"))
            out.append(Case(sel, encode(sel, [lit, lit], m()), tag="cc-literal"))
        return out

    def unary_cases(self, e):
        sel, out = e["sel"], []
        m = (lambda: self.msg()) if e["has_msg"] else (lambda: None)
        for c in [0, 1, 2, 1 << 255, W - 1] + ([self.word() for _ in range(4)] if self.thorough else [self.word()]):
            out.append(Case(sel, encode(sel, [c], m()), tag="c"))
        out.append(Case(sel, encode(sel, [V(0)], m()), tag="s"))
        for lit in self.special:
            out.append(Case(sel, encode(sel, [lit], m()), tag="c-literal"))
        return out

    def _content(self, nbytes_or_words, mode, var0, is_bytes):
        """data words for one dynamic operand"""
        nw = (nbytes_or_words + 31) // 32 if is_bytes else nbytes_or_words
        if mode == "sym":
            return [V(var0 + i) for i in range(nw)], var0 + nw
        return [self.word() for _ in range(nw)], var0

    def dyn_cases(self, e):
        sel, out = e["sel"], []
        is_bytes = e["ty"] in ("bytes", "string") and not e["is_array"]
        lens = self.lens if is_bytes else self.alens
        m = (lambda: self.msg()) if e["has_msg"] else (lambda: None)
        pairs = [(l, l) for l in lens]
        uneq = [(a, b) for a in lens for b in lens if a != b]
        self.rng.shuffle(uneq)
        pairs += uneq[: (len(uneq) if self.thorough else 3)]
        if not self.thorough:
            self.rng.shuffle(pairs)
            pairs = [(0, 0)] + pairs[:5]
        for l1, l2 in pairs:
            modes = ["sym", "conc"] if self.thorough else [self.rng.choice(["sym", "conc"])]
            for mode in modes:
                d1, nv = self._content(l1, mode, 0, is_bytes)
                if l1 == l2 and mode == "conc" and self.rng.random() < 0.7:
                    d2 = list(d1)
                    kind = self.rng.choice(["eq", "last", "pad", "first"])
                    if d2 and kind == "last":
                        # flip the last *used* byte / word
                        if is_bytes:
                            used = l1 - 32 * (len(d2) - 1)
                            d2[-1] ^= 1 << (8 * (32 - used))
                        else:
                            d2[-1] ^= 1
                    elif d2 and kind == "first":
                        d2[0] ^= 1 << 255
                    elif d2 and kind == "pad" and is_bytes and l1 % 32:
                        d2[-1] ^= 1          # differs only in the padding: still equal
                    tag = f"conc-{kind}"
                else:
                    d2, nv = self._content(l2, mode, nv, is_bytes)
                    tag = mode
                out.append(Case(sel, encode(sel, [("dyn", l1, d1), ("dyn", l2, d2)], m()), tag=f"dyn-{tag}-{l1}-{l2}"))
        # both operands share one tail (non-canonical but decodable): always equal
        d, _ = self._content(lens[-1], "sym", 0, is_bytes)
        out.append(Case(sel, encode(sel, [("dyn", lens[-1], d), ("dyn", lens[-1], d)], m(), same_tail=True), tag="dyn-same-tail"))
        # symbolic operand on one side only
        l = self.rng.choice([x for x in lens if x])
        d1, nv = self._content(l, "sym", 0, is_bytes)
        d2, _ = self._content(l, "conc", nv, is_bytes)
        out.append(Case(sel, encode(sel, [("dyn", l, d1), ("dyn", l, d2)], m()), tag=f"dyn-mixed-{l}"))
        return out

    def concrete_relation_cases(self, e):
        """fully CONCRETE dynamic operands of different (and equal) lengths related by leading zeros / trailing zeros /
        prefix / suffix — where a length-insensitive or numeric comparison gives the wrong answer"""
        sel, out = e["sel"], []
        is_bytes = e["ty"] in ("bytes", "string") and not e["is_array"]
        if e["is_array"] and e["ty"] in ("bytes", "string"):
            return out                      # NotImplementedError for bytes[] / string[]
        m = (lambda: self.msg()) if e["has_msg"] else (lambda: None)
        rng = self.rng

        def case(a, b, tag):
            if is_bytes:
                ops = [("dyn", len(a), words_of_bytes(bytes(a))), ("dyn", len(b), words_of_bytes(bytes(b)))]
            else:
                ops = [("dyn", len(a), list(a)), ("dyn", len(b), list(b))]
            out.append(Case(sel, encode(sel, ops, m()), tag=f"dynrel-{tag}-{len(a)}-{len(b)}"))

        def both(a, b, tag):
            case(a, b, tag)
            case(b, a, tag + "-rev")

        if is_bytes:
            lens = [1, 2, 31, 32, 33]
            pick = lens if self.thorough else [1] + rng.sample(lens[1:], 2)
            zero = lambda k: [0] * k
            for L in pick:
                x = [rng.randrange(1, 256)] + [rng.randrange(256) for _ in range(L - 2)] + ([rng.randrange(1, 256)] if L > 1 else [])
                for k in (1, 2):
                    if L + k <= 34 or self.thorough:
                        both(zero(k) + x, x, "lead0")
                        both(x + zero(k), x, "trail0")
                if L > 1:
                    both(x, x[:-1], "prefix")
                    both(x, x[1:], "suffix")
                case(x, list(x), "same")
            both(zero(1), zero(2), "zeros")
            both(zero(32), zero(33), "zeros")
            both(zero(31), zero(32), "zeros")
            both([], zero(1), "empty-vs-zero")
            both([], [7], "empty-vs-one")
        else:
            maxlen = 4 if self.thorough else 3
            for L in range(1, maxlen):
                x = [self.word() or 7 for _ in range(L)]
                x[0] = x[0] or 7
                x[-1] = x[-1] or 9
                for k in range(1, maxlen - L + 1):
                    both([0] * k + x, x, "lead0")
                    both(x + [0] * k, x, "trail0")
                if L > 1:
                    both(x, x[:-1], "prefix")
                    both(x, x[1:], "suffix")
                case(x, list(x), "same")
            both([0], [0, 0], "zeros")
            both([0, 7], [7], "lead0")
            both([], [0], "empty-vs-zero")
            both([], [7], "empty-vs-one")
        if not self.thorough:
            # quick tier: every relation kind once (first occurrence), plus a random handful of the rest
            kinds, keep, rest = set(), [], []
            for c in out:
                k = c.tag.split("-")[1] + ("-rev" if "-rev-" in c.tag else "")
                if k not in kinds:
                    kinds.add(k)
                    keep.append(c)
                else:
                    rest.append(c)
            out = keep + rng.sample(rest, min(len(rest), 4))
        return out

    def error_cases(self, e):
        """encodings on which the code raises / goes stuck (symbolic offset or length, huge length, bad message)"""
        sel, out = e["sel"], []
        if e["operands"] == 2 and (e["is_array"] or e["ty"] in ("bytes", "string")):
            out.append(Case(sel, [V(0), 0x60, 0, 0], tag="err-sym-offset"))
            out.append(Case(sel, [0x40, 0x60, V(0), 0], tag="err-sym-length"))
            out.append(Case(sel, [0x40, 0x60, 1 << 200, 0], tag="err-huge-length"))
            out.append(Case(sel, [1 << 255, 0x40, 0, 0], tag="huge-offset"))
        if e["has_msg"]:
            ops = [V(0), V(1)] if e["operands"] == 2 else [V(0)]
            if not (e["is_array"] or e["ty"] in ("bytes", "string")):
                out.append(Case(sel, encode(sel, ops, (2, [0xFFFE << 240])), tag="err-msg-bad-utf8"))
                out.append(Case(sel, encode(sel, ops, (2, [V(2)])), tag="msg-sym-content"))
                out.append(Case(sel, ops + [V(2), 2, 0x4142 << 240], tag="err-msg-sym-offset"))
        return out

    def truncated_cases(self, e):
        sel, out = e["sel"], []
        if e["operands"] == 2 and not e["is_array"] and e["ty"] not in ("bytes", "string"):
            out.append(Case(sel, [V(0)], tag="trunc-one-operand"))
            out.append(Case(sel, [V(0), V(1)], n=4 + 32 + 7, tag="trunc-mid-word"))
            out.append(Case(sel, [], tag="trunc-selector-only"))
            out.append(Case(sel, [V(0), V(1), 7, 9], tag="extra-words"))
        elif e["operands"] == 1:
            out.append(Case(sel, [], tag="trunc-selector-only"))
            out.append(Case(sel, [V(0)], n=4 + 31, tag="trunc-mid-word"))
        else:
            out.append(Case(sel, [0x40, 0x60, 1], tag="trunc-dyn-tail"))
            out.append(Case(sel, [0x40], tag="trunc-dyn-head"))
        return out

    @staticmethod
    def enc_dynarr(elems):
        """tail of a bytes[] / string[] argument: (count word, [offset table ++ (length, padded data)*]); an element is
        `bytes` or (length, [data words]) for symbolic content"""
        n = len(elems)
        offs, body, pos = [], [], 32 * n
        for el in elems:
            ln, words = (len(el), words_of_bytes(el)) if isinstance(el, bytes) else el
            offs.append(pos)
            body += [ln] + list(words)
            pos += 32 * (1 + len(words))
        return ("dyn", n, offs + body)

    def dynarr_cases(self, e):
        """bytes[] / string[] operands in valid ABI encoding: equal pairs, same shape with different contents, different
        shapes.  (The pinned code refuses these selectors; an implementation that answers must answer element-wise.)"""
        sel, out = e["sel"], []
        m = (lambda: self.msg()) if e["has_msg"] else (lambda: None)
        rng = self.rng
        rb = lambda n: bytes(rng.randrange(1, 256) for _ in range(n))
        long_a = rb(33)
        long_b = long_a[:-1] + bytes([long_a[-1] ^ 1])
        e32 = rb(32)
        pairs = [
            ("same-shape-diff", [b"foo", b"bar"], [b"foo", b"baz"]),
            ("same-shape-diff", [b"fop", b"bar"], [b"foo", b"bar"]),
            ("same-shape-diff", [long_a], [long_b]),
            ("same-shape-diff", [b"a", e32, b""], [b"a", e32[:-1] + bytes([e32[-1] ^ 0x80]), b""]),
            ("same-shape-diff", [b"\x01"], [b"\x02"]),
            ("equal", [b"foo", b"bar"], [b"foo", b"bar"]),
            ("equal", [long_a, b""], [long_a, b""]),
            ("equal", [], []),
            ("equal", [b""], [b""]),
            ("diff-count", [b"foo"], [b"foo", b"bar"]),
            ("diff-count", [], [b""]),
            ("diff-count", [b"", b""], [b""]),
            ("diff-lengths", [b"ab", b"c"], [b"a", b"bc"]),
            ("diff-lengths", [b"\x00a"], [b"a"]),
            ("diff-lengths", [b"a\x00"], [b"a"]),
        ]
        if not self.thorough:
            must = [p for p in pairs if p[0] == "same-shape-diff"][:3] + [pairs[5], pairs[7], pairs[9], pairs[12]]
            rest = [p for p in pairs if p not in must]
            pairs = must + rng.sample(rest, 2)
        for tag, a, b in pairs:
            out.append(Case(sel, encode(sel, [self.enc_dynarr(a), self.enc_dynarr(b)], m()), tag=f"dynarr-{tag}"))
        # symbolic element contents, same shape: equal iff the words agree
        out.append(Case(sel, encode(sel, [self.enc_dynarr([(32, [V(0)]), b"x"]), self.enc_dynarr([(32, [V(1)]), b"x"])], m()), tag="dynarr-sym"))
        return out

    def cases_for(self, e):
        if e["operands"] == 1:
            cs = self.unary_cases(e)
        elif e["is_array"] and e["ty"] in ("bytes", "string"):
            cs = self.dynarr_cases(e) + self.dyn_cases(e)[:2]
        elif e["is_array"] or e["ty"] in ("bytes", "string"):
            cs = self.dyn_cases(e) + self.concrete_relation_cases(e)
        else:
            cs = self.static_cases(e)
        cs += self.error_cases(e)
        for c in cs:
            c.sig = e["sig"]
        return cs

    def assume_cases(self):
        out = [Case(ASSUME_SEL, [c], tag="assume-c", sig="assume(bool)") for c in [0, 1, 2, W - 1, 1 << 255, self.word()]]
        out.append(Case(ASSUME_SEL, [V(0)], tag="assume-s", sig="assume(bool)"))
        return out

    def sign_envs(self, nv, cap=None):
        """valuations from SIGNSET; for two or more variables all pairs, those on opposite sides of 2^255 first"""
        if nv == 1:
            out = [[v] for v in SIGNSET]
        else:
            pairs = [(x, y) for x in SIGNSET for y in SIGNSET]
            pairs = [p for p in pairs if cross_sign(*p)] + [p for p in pairs if not cross_sign(*p)]
            if cap is not None:
                cross = [p for p in pairs if cross_sign(*p)]
                rest = [p for p in pairs if not cross_sign(*p)]
                self.rng.shuffle(cross)
                self.rng.shuffle(rest)
                pairs = cross[: max(cap - 4, cap * 2 // 3)] + rest[: max(4, cap // 3)]
            out = [[x if i % 2 == 0 else y for i in range(nv)] for x, y in pairs]
        return out

    def envs(self, case, k, cap=None):
        """value assignments for the variables of a case"""
        nv = case.nvars()
        if nv == 0:
            return [[]]
        if is_ordered_sig(case.sig):
            if nv >= 2 and cap is None and case.tag != "ss":
                cap = 12            # all 49 pairs only for the plain (a0, a1) case
            return self.sign_envs(nv, cap) + [[self.word() for _ in range(nv)] for _ in range(1 if nv == 1 else 2)]
        out = []
        pairs = list(DIRECTED_PAIRS)
        self.rng.shuffle(pairs)
        for x, y in pairs[: max(2, k // 2)]:
            out.append([x if i % 2 == 0 else y for i in range(nv)])
        out.append([self.word()] * nv)                                      # all equal
        base = [self.word() for _ in range(nv)]
        out.append(list(base))
        if nv >= 2:
            h = nv // 2
            eq = base[:h] + base[:h] + base[2 * h:]                          # second operand = first operand
            out.append(list(eq))
            for bit in (0, 8 * self.rng.randrange(32), 255):
                d = list(eq)
                j = h + self.rng.randrange(h)
                d[j] ^= 1 << bit
                out.append(d)
        while len(out) < k:
            out.append([self.word() for _ in range(nv)])
        seen, res = set(), []
        for e in out:
            t = tuple(e)
            if t not in seen:
                seen.add(t)
                res.append(e)
        return res[: max(k, 6)]


# --------------------------------------------------------------------------------------------------------- real code

class Real:
    """lazy access to the real halmos (imported from $HALMOS_REPO/src)"""

    def __init__(self):
        from vlib.impl import use_repo

        use_repo()
        import z3
        from halmos import assertions, cheatcodes, exceptions, sevm
        from halmos.__main__ import is_global_fail_set
        from halmos.bitvec import HalmosBitVec as BV
        from halmos.bytevec import ByteVec
        from vlib import sevmdrv, zeval

        self.z3, self.assertions, self.cheatcodes, self.exceptions, self.sevm_mod = z3, assertions, cheatcodes, exceptions, sevm
        self.is_global_fail_set, self.BV, self.ByteVec, self.sevmdrv, self.zeval = is_global_fail_set, BV, ByteVec, sevmdrv, zeval
        self.sevm, self.args = sevmdrv.mk_sevm()

    def var(self, i):
        return self.z3.BitVec(f"a{i}", 256)

    def bytevec(self, case):
        bv = self.ByteVec()
        img = case.image()
        i = 0
        while i < len(img):
            if isinstance(img[i], int):
                j = i
                while j < len(img) and isinstance(img[j], int):
                    j += 1
                bv.append(bytes(img[i:j]))
                i = j
            else:
                v, b0 = img[i]
                j = i
                while j < len(img) and isinstance(img[j], tuple) and img[j] == (v, b0 + (j - i)):
                    j += 1
                b1 = b0 + (j - i)
                t = self.var(v)
                if (b0, b1) != (0, 32):
                    t = self.z3.Extract(255 - 8 * b0, 256 - 8 * b1, t)
                bv.append(t)
                i = j
        return bv

    def err_kind(self, exc):
        ex = self.exceptions
        if isinstance(exc, ex.NotConcreteError):
            return "notConcrete"
        if isinstance(exc, NotImplementedError):
            return "notImplemented"
        if isinstance(exc, UnicodeDecodeError):
            return "unicodeDecode"
        if isinstance(exc, OverflowError):
            return "overflow"
        if isinstance(exc, MemoryError):
            return "overflow"
        if isinstance(exc, ex.InfeasiblePath):
            return "infeasible"
        if isinstance(exc, ValueError):
            return "valueError"
        if isinstance(exc, ex.HalmosException):
            return "unsupported"
        return "other:" + type(exc).__name__

    SHAPES = None

    def shape(self, cond):
        z3 = self.z3
        if z3.is_true(cond) or z3.is_false(cond):
            return "lit"
        k = cond.decl().kind()
        table = {z3.Z3_OP_EQ: "eq", z3.Z3_OP_DISTINCT: "ne", z3.Z3_OP_ULT: "ult", z3.Z3_OP_UGT: "ugt", z3.Z3_OP_ULEQ: "ule",
                 z3.Z3_OP_UGEQ: "uge", z3.Z3_OP_SLT: "slt", z3.Z3_OP_SGT: "sgt", z3.Z3_OP_SLEQ: "sle", z3.Z3_OP_SGEQ: "sge"}
        if k == z3.Z3_OP_NOT and cond.arg(0).decl().kind() == z3.Z3_OP_EQ:
            return "ne"
        return table.get(k, "other")

    MIRROR = {"slt": "sgt", "sgt": "slt", "sle": "sge", "sge": "sle"}

    def same_shape(self, model_shape, cond):
        """Python evaluates `term < numeral` through the reflected method of the right operand (BitVecNumRef is a subclass of
        BitVecRef), so z3 receives `numeral > term`: same meaning, mirrored operator and swapped operands.  Accepted only in
        exactly that situation (numeral first, non-numeral second)."""
        real = self.shape(cond)
        if real == model_shape:
            return True
        z3 = self.z3
        return (self.MIRROR.get(model_shape) == real and cond.num_args() == 2 and z3.is_bv_value(cond.arg(0))
                and not z3.is_bv_value(cond.arg(1)))

    def evalb(self, term, vals):
        env = {f"a{i}": v for i, v in enumerate(vals)}
        return bool(self.zeval.Evaluator(env)(term))

    def sat(self, conds):
        s = self.z3.Solver()
        s.set("timeout", 2000)
        for c in conds:
            s.add(c)
        r = s.check()
        return "sat" if r == self.z3.sat else "unsat" if r == self.z3.unsat else "unknown"

    def direct(self, case, pi_builder):
        """call the real handle(); returns a dict describing what happened"""
        z3 = self.z3
        arg = self.bytevec(case)
        ex = self.sevmdrv.mk_ex(self.sevm, self.args, b"\x00", calldata=self.ByteVec())
        ex.fetch_instruction() if hasattr(ex, "fetch_instruction") and not ex.insn else None
        pi = pi_builder(self) if pi_builder else []
        for c in pi:
            ex.path.append(c)
        before = list(ex.path.conditions)
        res = {"pi": before, "cond": None, "cond_err": None}
        if case.sel in self.assertions.assert_cheatcode_handler:
            try:
                res["cond"] = self.assertions.assert_cheatcode_handler[case.sel](self.bytevec(case)).cond
            except BaseException as exc:  # noqa: BLE001
                res["cond_err"] = self.err_kind(exc)
        stack = self.sevm_mod.Worklist()
        # record what the oracle really answers (observation hook on this one object; the code under test is untouched)
        answers = []
        real_check = ex.check

        def recording_check(c):
            r = real_check(c)
            answers.append("sat" if r == z3.sat else "unsat" if r == z3.unsat else "unknown")
            return r

        ex.check = recording_check
        res["oracle"] = answers
        try:
            ret = self.cheatcodes.hevm_cheat_code.handle(self.sevm, ex, arg, stack)
        except BaseException as exc:  # noqa: BLE001
            res["raised"] = self.err_kind(exc)
            res["raised_text"] = f"{type(exc).__name__}: {exc}"[:160]
            return res
        res["raised"] = None
        res["ret_empty"] = isinstance(ret, self.ByteVec) and len(ret) == 0
        succ = []
        after = list(ex.path.conditions)
        grew = after[len(before):]
        if after[:len(before)] != before:
            res["path_rewritten"] = True
        failed = isinstance(ex.context.output.error, self.exceptions.FailCheatcode)
        succ.append((("F" if failed else "C") + ("+" if grew else ""), grew))
        while (nx := stack.pop()) is not None:
            nx.path.activate()
            a2 = list(nx.path.conditions)
            g2 = a2[len(before):]
            f2 = isinstance(nx.context.output.error, self.exceptions.FailCheatcode)
            succ.append((("F" if f2 else "C") + ("+" if g2 else ""), g2))
            if a2[:len(before)] != before:
                res["path_rewritten"] = True
        res["succ"] = succ
        return res


# --------------------------------------------------------------------------------------------------------- programs

SCRATCH = 0x500     # words saved before a branch point (slot kind "m")


def slot_items(asm, s):
    """code pushing one calldata word of a cheatcode call:
       int | ("v", i) CALLDATALOAD of a_i | ("m", i) the copy of a_i saved at SCRATCH before the branch point |
       ("eq", src, c) src == c | ("ne", src, c) src != c | ("lt"/"gt", src, c) | ("not", e) | ("or"/"and", e1, e2)"""
    if isinstance(s, int):
        return [("push", s % W)]
    if s[0] == "v":
        return asm.calldata_arg(s[1])
    if s[0] == "m":
        return [("push", SCRATCH + 32 * s[1]), "MLOAD"]
    if s[0] in ("eq", "ne"):
        return slot_items(asm, s[1]) + [("push", s[2] % W), "EQ"] + (["ISZERO"] if s[0] == "ne" else [])
    if s[0] in ("lt", "gt"):            # unsigned src < c / src > c  (EVM: LT a b = a < b with a on top)
        return [("push", s[2] % W)] + slot_items(asm, s[1]) + ["LT" if s[0] == "lt" else "GT"]
    if s[0] == "not":
        return slot_items(asm, s[1]) + ["ISZERO"]
    if s[0] in ("or", "and"):           # operands are 0/1 words
        return slot_items(asm, s[1]) + slot_items(asm, s[2]) + ["OR" if s[0] == "or" else "AND"]
    raise ValueError(s)


def slot_value(s, vals):
    if isinstance(s, int):
        return s % W
    if s[0] in ("v", "m"):
        return vals[s[1]] % W
    if s[0] in ("eq", "ne"):
        v = int(slot_value(s[1], vals) == s[2] % W)
        return v if s[0] == "eq" else 1 - v
    if s[0] == "lt":
        return int(slot_value(s[1], vals) < s[2] % W)
    if s[0] == "gt":
        return int(slot_value(s[1], vals) > s[2] % W)
    if s[0] == "not":
        return int(slot_value(s[1], vals) == 0)
    if s[0] == "or":
        return slot_value(s[1], vals) | slot_value(s[2], vals)
    if s[0] == "and":
        return slot_value(s[1], vals) & slot_value(s[2], vals)
    raise ValueError(s)


def slot_vars(s):
    if isinstance(s, int):
        return []
    if s[0] in ("v", "m"):
        return [s[1]]
    if s[0] in ("or", "and"):
        return slot_vars(s[1]) + slot_vars(s[2])
    return slot_vars(s[1])


def slot_consts(s):
    """the constants a word expression compares with"""
    if isinstance(s, int) or s[0] in ("v", "m"):
        return []
    if s[0] in ("eq", "ne", "lt", "gt"):
        return [s[2] % W] + slot_consts(s[1])
    if s[0] in ("or", "and"):
        return slot_consts(s[1]) + slot_consts(s[2])
    return slot_consts(s[1])


def concretized(case, vals):
    return Case(case.sel, [slot_value(x, vals) for x in case.slots], case.n, case.tag, case.sig)


def build_call(asm, case, ret_size=32):
    """memory image of the calldata at MEM, then CALL the cheatcode address; leaves the success flag on the stack"""
    items = asm.selector_word(case.sel) + [("push", MEM), "MSTORE"]
    for i, s in enumerate(case.slots):
        items += slot_items(asm, s) + [("push", MEM + 4 + 32 * i), "MSTORE"]
    # beyond the slots the calldata bytes must be zero (Case.image): clear what an earlier call may have left
    extra = case.size() - (4 + 32 * len(case.slots))
    k = 0
    while extra > 0:
        items += [("push", 0), ("push", MEM + 4 + 32 * (len(case.slots) + k)), "MSTORE"]
        extra -= 32
        k += 1
    items += [("push", ret_size), ("push", RET_OFF), ("push", case.size()), ("push", MEM), ("push", 0), ("push", HEVM, 20), "GAS", "CALL"]
    return items


def inner_code(asm, script, static):
    items = []
    if not static:
        items += [("push", 0x77), ("push", 1), "SSTORE"]
    items += [("push", MARKER, 32), ("push", RET_OFF), "MSTORE"]
    for j, case in enumerate(script):
        items += build_call(asm, case)
        items += ["POP"] if j < len(script) - 1 else []
    items += [("push", OUT), "MSTORE", "RETURNDATASIZE", ("push", OUT + 0x20), "MSTORE", ("push", RET_OFF), "MLOAD", ("push", OUT + 0x40), "MSTORE"]
    items += ([("push", 0)] if static else [("push", 1), "SLOAD"]) + [("push", OUT + 0x60), "MSTORE"]
    items += [("push", MEM), "MLOAD", ("push", OUT + 0x80), "MSTORE", ("push", 0xA0), ("push", OUT), "RETURN"]
    return asm.assemble(items)


@dataclass
class BranchProg:
    """if (a_b != 0) { taken arm } else { fall-through arm }: two sibling paths from one JUMPI on an unrelated symbol.
    The fall-through side is explored first by the engine; whatever a cheatcode does on one side must not be visible on
    the other.  `saved`: variables copied to SCRATCH before the branch point (slot kind "m")."""
    bvar: int
    fall: list            # cheatcode calls on the fall-through side (a_b == 0)
    taken: list           # cheatcode calls on the taken side (a_b != 0)
    saved: list
    nargs: int
    tag: str = ""

    def arm(self, args):
        return self.taken if args[self.bvar] % W != 0 else self.fall

    def script_for(self, args):
        return [concretized(c, args) for c in self.arm(args)]

    def all_cases(self):
        return self.fall + self.taken

    def to_json(self):
        def cj(c):
            return {"sel": hex(c.sel), "slots": json.loads(json.dumps(c.slots)), "n": c.n, "tag": c.tag, "sig": c.sig}
        return {"bvar": self.bvar, "fall": [cj(c) for c in self.fall], "taken": [cj(c) for c in self.taken], "saved": self.saved,
                "nargs": self.nargs, "tag": self.tag}

    @staticmethod
    def from_json(d):
        def tup(x):
            return tuple(tup(y) for y in x) if isinstance(x, list) else x

        def cf(c):
            return Case(int(c["sel"], 16), [tup(x) for x in c["slots"]], c.get("n"), c.get("tag", ""), c.get("sig"))
        return BranchProg(d["bvar"], [cf(c) for c in d["fall"]], [cf(c) for c in d["taken"]], d["saved"], d["nargs"], d.get("tag", ""))


def branch_inner_code(asm, bp, static):
    items = []
    if not static:
        items += [("push", 0x77), ("push", 1), "SSTORE"]
    items += [("push", MARKER, 32), ("push", RET_OFF), "MSTORE"]
    for i in bp.saved:
        items += asm.calldata_arg(i) + [("push", SCRATCH + 32 * i), "MSTORE"]
    lt, le = asm.fresh("taken"), asm.fresh("end")
    items += asm.calldata_arg(bp.bvar) + [("ref", lt), "JUMPI"]

    def arm(script):
        out = []
        for j, case in enumerate(script):
            out += build_call(asm, case)
            out += ["POP"] if j < len(script) - 1 else []
        return out

    items += arm(bp.fall) + [("ref", le), "JUMP", ("label", lt)] + arm(bp.taken) + [("label", le)]
    items += [("push", OUT), "MSTORE", "RETURNDATASIZE", ("push", OUT + 0x20), "MSTORE", ("push", RET_OFF), "MLOAD", ("push", OUT + 0x40), "MSTORE"]
    items += ([("push", 0)] if static else [("push", 1), "SLOAD"]) + [("push", OUT + 0x60), "MSTORE"]
    items += [("push", MEM), "MLOAD", ("push", OUT + 0x80), "MSTORE", ("push", 0xA0), ("push", OUT), "RETURN"]
    return asm.assemble(items)


def _case_json(c):
    return {"sel": hex(c.sel), "slots": json.loads(json.dumps(c.slots)), "n": c.n, "tag": c.tag, "sig": c.sig}


def _case_unjson(c):
    def tup(x):
        return tuple(tup(y) for y in x) if isinstance(x, list) else x
    return Case(int(c["sel"], 16), [tup(x) for x in c["slots"]], c.get("n"), c.get("tag", ""), c.get("sig"))


@dataclass
class SeqProg:
    """a straight-line sequence on ONE path: an equality x == c is learned (vm.assume(x == c), or a JUMPI whose other side
    returns), then a cheatcode compares x with a second symbolic word.  steps: Case | ("require_eq", var, c).
    `saved`: variables copied to SCRATCH before the first step (slot kind "m": x read before the equality is learned)."""
    steps: list
    saved: list
    nargs: int
    tag: str = ""
    kind = "seq"

    def script_for(self, args):
        out = []
        for st in self.steps:
            if isinstance(st, tuple):
                holds = slot_value(st[1], args) != 0 if st[0] == "require" else args[st[1]] % W == st[2] % W
                if not holds:
                    break                      # the program returns here: nothing further is executed
                continue
            out.append(concretized(st, args))
        return out

    def all_cases(self):
        return [st for st in self.steps if isinstance(st, Case)]

    def to_json(self):
        return {"kind": "seq", "steps": [list(st) if isinstance(st, tuple) else _case_json(st) for st in self.steps], "saved": self.saved,
                "nargs": self.nargs, "tag": self.tag}

    @staticmethod
    def from_json(d):
        return SeqProg([tuple(st) if isinstance(st, list) else _case_unjson(st) for st in d["steps"]], d["saved"], d["nargs"], d.get("tag", ""))

    def code(self, asm, static):
        items = []
        if not static:
            items += [("push", 0x77), ("push", 1), "SSTORE"]
        items += [("push", MARKER, 32), ("push", RET_OFF), "MSTORE"]
        for i in self.saved:
            items += asm.calldata_arg(i) + [("push", SCRATCH + 32 * i), "MSTORE"]
        le = asm.fresh("end")
        last = max(j for j, st in enumerate(self.steps) if isinstance(st, Case))
        for j, st in enumerate(self.steps):
            if isinstance(st, tuple):
                lc = asm.fresh("cont")
                test = slot_items(asm, st[1]) if st[0] == "require" else asm.calldata_arg(st[1]) + [("push", st[2] % W), "EQ"]
                items += test + [("ref", lc), "JUMPI", ("push", 1), ("ref", le), "JUMP", ("label", lc)]
            else:
                items += build_call(asm, st) + (["POP"] if j != last else [])
        if last != len(self.steps) - 1:
            items += [("push", 1)]
        items += [("label", le)]
        items += [("push", OUT), "MSTORE", "RETURNDATASIZE", ("push", OUT + 0x20), "MSTORE", ("push", RET_OFF), "MLOAD", ("push", OUT + 0x40), "MSTORE"]
        items += ([("push", 0)] if static else [("push", 1), "SLOAD"]) + [("push", OUT + 0x60), "MSTORE"]
        items += [("push", MEM), "MLOAD", ("push", OUT + 0x80), "MSTORE"]
        # the words read again from calldata at the very end: they must still be the inputs, whatever was assumed about them
        for i in range(self.nargs):
            items += asm.calldata_arg(i) + [("push", OUT + 0xA0 + 32 * i), "MSTORE"]
        items += [("push", 0xA0 + 32 * self.nargs), ("push", OUT), "RETURN"]
        return asm.assemble(items)


def seq_programs(ctx, G, entries):
    """x = a0 pinned to a constant on the path (assume / JUMPI), then assert*(x, y) or (y, x) with y = a1 symbolic"""
    rng = G.rng
    by_sig = {e["sig"]: e["sel"] for e in entries}
    X, Y = 0, 1
    sigs = ["assertEq(uint256,uint256)", "assertNotEq(uint256,uint256)", "assertLt(uint256,uint256)", "assertGt(uint256,uint256)",
            "assertLe(int256,int256)", "assertGe(int256,int256)", "assertEq(bytes32,bytes32)", "assertNotEq(address,address)",
            "assertEq(int256,int256,string)"]
    consts = [5, 0, 1, W - 1, 1 << 255, 42]
    progs, k = [], 0
    for load in ("m", "v"):                      # x read before the equality is learned (kept in memory) / re-read after it
        for learn in ("assume", "jumpi"):
            chosen = sigs if ctx.tier != "quick" else sigs[:2] + rng.sample(sigs[2:], 2)
            for sig in chosen:
                for xy in (True, False):
                    c = consts[k % len(consts)]
                    k += 1
                    first = (Case(ASSUME_SEL, [("eq", ("v", X), c)], tag="sq-assume", sig="assume(bool)") if learn == "assume"
                             else ("require_eq", X, c))
                    xs, ys = (load, X), ("v", Y)
                    ops = [xs, ys] if xy else [ys, xs]
                    slots = encode(by_sig[sig], ops, (2, [0x4142 << 240]) if sig.endswith(",string)") else None)
                    steps = [first, Case(by_sig[sig], slots, tag="sq-assert", sig=sig)]
                    if rng.random() < 0.25:
                        steps.append(Case(by_sig["assertTrue(bool)"], [("eq", ys, c)], tag="sq-assertTrue", sig="assertTrue(bool)"))
                    progs.append(SeqProg(steps, [X] if load == "m" else [], 2,
                                         tag=f"{learn}-then|{sig}|{'x,y' if xy else 'y,x'}|x-{'before' if load == 'm' else 'after'}"))
    return progs


def compound_programs(ctx, G, entries):
    """vm.assume / a branch on a compound boolean condition over x = a0 (And / Or / Not nests of equalities and comparisons
    with constants, De Morgan shapes), followed by uses of x that are read AFTER the condition was learned: a cheatcode
    argument compared with the copy saved before, with a constant, the same condition asserted again — and x returned."""
    rng = G.rng
    by_sig = {e["sig"]: e["sel"] for e in entries}
    X, Y = 0, 1
    xa, xb = ("v", X), ("m", X)
    progs = []

    def conds(c1, c2):
        e1, e2 = ("eq", xa, c1), ("eq", xa, c2)
        return [
            ("not-or-eq", ("not", ("or", e1, e2))),
            ("and-ne", ("and", ("ne", xa, c1), ("ne", xa, c2))),
            ("or-eq", ("or", e1, e2)),
            ("not-and-ne", ("not", ("and", ("ne", xa, c1), ("ne", xa, c2)))),
            ("and-eq-xy", ("and", e1, ("eq", ("v", Y), c2))),
            ("not-or-eq-xy", ("not", ("or", e1, ("eq", ("v", Y), c2)))),
            ("range", ("and", ("gt", xa, min(c1, c2)), ("lt", xa, max(c1, c2) + 3))),
            ("not-or-range", ("not", ("or", ("lt", xa, min(c1, c2)), ("gt", xa, max(c1, c2))))),
            ("not-or-eq-lt", ("not", ("or", e2, ("lt", xa, min(c1, c2))))),
            ("not-not-eq", ("not", ("not", e1))),
            ("not-or-3", ("not", ("or", e1, ("or", e2, ("eq", xa, c2 + 2))))),
            ("or-not-eq", ("or", ("not", e1), e2)),
        ]

    pairs = [(5, 7), (0, 1), (W - 2, 1 << 255), (42, 40)]
    k = 0
    for learn in ("assume", "jumpi"):
        for name, cond in conds(*pairs[0]):
            c1, c2 = pairs[k % len(pairs)] if ctx.tier != "quick" and k % 3 == 2 else pairs[0]
            cond = dict(conds(c1, c2))[name]
            k += 1
            first = Case(ASSUME_SEL, [cond], tag="cp-assume", sig="assume(bool)") if learn == "assume" else ("require", cond)
            uses = [
                Case(by_sig["assertEq(uint256,uint256)"], [xa, xb], tag="cp-reread-vs-saved", sig="assertEq(uint256,uint256)"),
                Case(by_sig["assertNotEq(uint256,uint256)"], [xa, c2], tag="cp-vs-const", sig="assertNotEq(uint256,uint256)"),
                Case(by_sig["assertTrue(bool)"], [cond], tag="cp-same-cond", sig="assertTrue(bool)"),
                Case(by_sig["assertLt(uint256,uint256)"], [xa, c2 + 1], tag="cp-vs-const", sig="assertLt(uint256,uint256)"),
                Case(by_sig["assertEq(bytes32,bytes32)"], [xb, xa], tag="cp-reread-vs-saved", sig="assertEq(bytes32,bytes32)"),
            ]
            chosen = uses if ctx.tier != "quick" else [uses[0], rng.choice(uses[1:])] if learn == "assume" else [rng.choice(uses)]
            for u in chosen:
                progs.append(SeqProg([first, u], [X], 2, tag=f"compound-{learn}|{name}|{u.tag}"))
    return progs


def seq_inputs(ctx, D, G, sp, scn, sr):
    consts = sorted({st[2] % W for st in sp.steps if isinstance(st, tuple) and st[0] == "require_eq"} |
                    {k for st in sp.steps if isinstance(st, tuple) and st[0] == "require" for k in slot_consts(st[1])} |
                    {k for c in sp.all_cases() for s in c.slots for k in slot_consts(s)})
    out, seen = [], set()

    def add(x, y, tag):
        if (x, y) not in seen:
            seen.add((x, y))
            out.append(D.Inputs([x % W, y % W], 0xCAFE, 0xCAFE, 0, {}, 0))
            ctx.count("l2-input:" + tag)

    if sp.tag.startswith("compound"):
        xs = sorted({(c + d) % W for c in consts for d in (-1, 0, 1, 2)} | {1, 6, G.word()})
        for x in xs:
            for y in (consts[-1], 1):
                add(x, y, "compound")
        consts = []
    for c in consts:
        for y in (c, c + 1, c - 1, 0, 1 << 255, W - 1, G.word()):
            add(c, y, "seq-x-pinned")            # the path after the equality: y == c and y != c
        for x in (c + 1, c - 1, G.word()):
            for y in (c, x, G.word()):
                add(x, y, "seq-x-other")
    # the directed grid already has inputs on both sides of every constant; solver models only top up small grids (quick)
    budget = time.time() + (0.5 if ctx.tier != "quick" or len(out) < 12 else 0.0)
    for p in sr.paths:
        if time.time() > budget:
            break
        for m in D.solve_inputs(p.conds, scn, n=1, timeout_ms=300):
            add(m.args[0], m.args[1], "path-model")
    return out


def build_branch_scenario(D, asm, bp, chain):
    static = "STATICCALL" in chain
    contracts = {}
    addrs = [D.MAIN] + [0x2000 + k for k in range(len(chain))]
    for k, op in enumerate(chain):
        contracts[addrs[k]] = wrapper_code(asm, addrs[k + 1], op)
    contracts[addrs[len(chain)]] = bp.code(asm, static) if isinstance(bp, SeqProg) else branch_inner_code(asm, bp, static)
    return D.Scenario(contracts, nargs=bp.nargs, name="c13-branch", meta={"chain": chain})


def branch_programs(ctx, G, entries):
    """assume-on-one-branch / assert-on-the-sibling (and assert/assert): x = a0, c a constant, b = a1 the branch symbol"""
    rng = G.rng
    by_sig = {e["sig"]: e["sel"] for e in entries}
    X, B = 0, 1
    progs = []
    sib_sigs = ["assertEq(uint256,uint256)", "assertNotEq(uint256,uint256)", "assertLt(uint256,uint256)", "assertGe(int256,int256)",
                "assertLe(int256,int256)", "assertGt(uint256,uint256)", "assertEq(bytes32,bytes32)", "assertEq(address,address)"]
    consts = [5, 0, 1, W - 1, 1 << 255, G.word()]
    k = 0
    for load in ("v", "m"):                     # sibling loads x after the branch point / uses the copy saved before it
        for assume_on_fall in (True, False):    # which side runs vm.assume(x == c)
            for sig in (sib_sigs if ctx.tier != "quick" else sib_sigs[:4] + [rng.choice(sib_sigs[4:])]):
                c = consts[k % len(consts)]
                k += 1
                src = (load, X)
                assume = Case(ASSUME_SEL, [("eq", ("v", X), c)], tag="br-assume", sig="assume(bool)")
                sib = [Case(by_sig[sig], [src, c], tag="br-assert", sig=sig)]
                if rng.random() < 0.3:
                    sib.append(Case(by_sig["assertTrue(bool)"], [("eq", src, c)], tag="br-assertTrue", sig="assertTrue(bool)"))
                arm_a = [assume] + ([Case(by_sig["assertEq(uint256,uint256)"], [("v", X), c], tag="br-assert", sig="assertEq(uint256,uint256)")]
                                    if rng.random() < 0.4 else [])
                fall, taken = (arm_a, sib) if assume_on_fall else (sib, arm_a)
                progs.append(BranchProg(B, fall, taken, [X] if load == "m" else [], 2,
                                        tag=f"assume-{'fall' if assume_on_fall else 'taken'}|{sig}|x-{'after' if load == 'v' else 'before'}"))
    # assert on one side, different assert on the sibling (a failing fork on one side must not constrain the other)
    for _ in range(ctx.scale(4, 16)):
        s1, s2 = rng.choice(sib_sigs), rng.choice(sib_sigs)
        c1, c2 = rng.choice(consts), rng.choice(consts)
        progs.append(BranchProg(B, [Case(by_sig[s1], [("v", X), c1], tag="br-assert", sig=s1)],
                                [Case(by_sig[s2], [(rng.choice("vm"), X), c2], tag="br-assert", sig=s2)], [X], 2, tag=f"assert|assert"))
    return progs


def branch_inputs(ctx, D, G, bp, scn, sr):
    consts = sorted({s[2] % W for c in bp.all_cases() for s in c.slots if isinstance(s, tuple) and s[0] in ("eq", "ne")} |
                    {s % W for c in bp.all_cases() for s in c.slots if isinstance(s, int)})
    xs = []
    for c in consts:
        xs += [c, (c + 1) % W, (c - 1) % W]
    xs += [7, G.word(), G.word()]
    out, seen = [], set()
    for x in xs:
        for b in (0, 1, G.rng.choice([2, W - 1, 1 << 255])):
            if (x, b) not in seen:
                seen.add((x, b))
                out.append(D.Inputs([x, b], 0xCAFE, 0xCAFE, 0, {}, 0))
                ctx.count("l2-input:branch-directed")
    budget = time.time() + 0.6
    for p in sr.paths:
        if time.time() > budget:
            break
        for m in D.solve_inputs(p.conds, scn, n=1, timeout_ms=300):
            if tuple(m.args) not in seen:
                seen.add(tuple(m.args))
                out.append(D.Inputs(list(m.args), 0xCAFE, 0xCAFE, 0, {}, 0))
                ctx.count("l2-input:path-model")
    return out


def wrapper_code(asm, target, op):
    ok = asm.fresh("ok")
    items = ["CALLDATASIZE", ("push", 0), ("push", 0), "CALLDATACOPY", ("push", 0), ("push", 0), "CALLDATASIZE", ("push", 0)]
    if op == "CALL":
        items += [("push", 0)]
    items += [("push", target, 2), "GAS", op, "RETURNDATASIZE", ("push", 0), ("push", 0), "RETURNDATACOPY", ("ref", ok), "JUMPI",
              "RETURNDATASIZE", ("push", 0), "REVERT", ("label", ok), "RETURNDATASIZE", ("push", 0), "RETURN"]
    return asm.assemble(items)


def build_scenario(D, asm, script, chain):
    """chain: list of call opcodes from the entry contract down to the contract that talks to the cheatcode address"""
    static = "STATICCALL" in chain
    nargs = max([c.nvars() for c in script] + [1])
    contracts = {}
    addrs = [D.MAIN] + [0x2000 + k for k in range(len(chain))]
    for k, op in enumerate(chain):
        contracts[addrs[k]] = wrapper_code(asm, addrs[k + 1], op)
    contracts[addrs[len(chain)]] = inner_code(asm, script, static)
    return D.Scenario(contracts, nargs=nargs, name="c13", meta={"chain": chain})


# --------------------------------------------------------------------------------------------------------- helpers

def mismatch(ctx, msg):
    """a model/implementation disagreement: keep searching for an input on which the implementation contradicts the Spec
    (that is the finding to report); the stale-model error is raised at the end of `correspond`"""
    ctx.extra.setdefault("model_mismatches", []).append(msg[:600])
    ctx.count("model-mismatch")


def parse_reply(r):
    return dict(tok.split("=", 1) for tok in r.split(" ", 7)) if "=" in r else {"raw": r}


def klass(e):
    if e is None:
        return "assume"
    return f"{e['op']}:{e['ty']}{'[]' if e['is_array'] else ''}{':msg' if e['has_msg'] else ''}"


def forge_signatures():
    """every assertion signature of the vocabulary, with its selector computed by the harness' own Keccak (vlib.asm)"""
    from vlib import asm

    sigs = []
    for op in ("True", "False"):
        sigs += [f"assert{op}(bool)", f"assert{op}(bool,string)"]
    types = ["bool", "uint256", "int256", "address", "bytes32", "string", "bytes"]
    for op in ("Eq", "NotEq"):
        for t in types:
            for suf in ("", "[]"):
                sigs += [f"assert{op}({t}{suf},{t}{suf})", f"assert{op}({t}{suf},{t}{suf},string)"]
    for op in ("Lt", "Gt", "Le", "Ge"):
        for t in ("uint256", "int256"):
            sigs += [f"assert{op}({t},{t})", f"assert{op}({t},{t},string)"]
    return {asm.selector(g): g for g in sigs}


TRUE_SIG = {}


def request(case, vals, cc="sat", cn="sat"):
    env = ";".join(f"a{i}={v:x}" for i, v in enumerate(vals)) or "-"
    if not TRUE_SIG:
        TRUE_SIG.update(forge_signatures())
    sig = TRUE_SIG.get(case.sel)
    return f"A {case.sel:x} {case.layout()} {env} {cc} {cn}" + (f" {sig}" if sig else "")


def load_table():
    import sys

    sys.path.insert(0, str(VERIF / "tools"))
    from extract import assert_table as at
    from extract.selectors import extract_assert

    entries = []
    for sel, sig in extract_assert():
        d = at.derive(sig)
        d.update(sel=sel, sig=sig)
        entries.append(d)
    try:
        lits = at.harvest_literals()
    except Exception:  # noqa: BLE001
        lits = [0, 1, 2, 4, 32, 36, 256]
    return entries, lits


PI_BUILDERS = {
    "none": None,
    "a0==a1": lambda R: [R.var(0) == R.var(1)],
    "a0<a1": lambda R: [R.z3.ULT(R.var(0), R.var(1))],
    "a0==5": lambda R: [R.var(0) == 5],
    "a0!=0": lambda R: [R.var(0) != 0],
    "a0==0": lambda R: [R.var(0) == 0],
}


# --------------------------------------------------------------------------------------------------------- level 1

class Truth(dict):
    """a level-1 record; rec["cc"] / rec["cn"] = is π ∧ cond / π ∧ ¬cond satisfiable (own z3 query, computed on demand)"""

    def __init__(self, d, R):
        super().__init__(d)
        self._R = R

    def __missing__(self, k):
        if k not in ("cc", "cn"):
            raise KeyError(k)
        R, res = self._R, self["res"]
        cond = res.get("cond")
        if cond is None:
            v = "sat"
        else:
            v = R.sat(res["pi"] + [cond if k == "cc" else R.z3.Not(cond)])
        self[k] = v
        return v


def level1(ctx, R, G, entries, by_sel, corpus=()):
    """direct calls of the real handle(); returns records (case, pi, result, envs, request indices)"""
    recs, lines = [], []
    for data in corpus:
        if data.get("level") != 1:
            continue
        case = Case.from_json(data["case"])
        vals = [int(v, 16) for v in data["vals"]]
        pname = data.get("pi", "none")
        res = R.direct(case, PI_BUILDERS[pname])
        orc = res.get("oracle", [])
        lines.append(request(case, vals, orc[0] if orc else "sat", orc[1] if len(orc) > 1 else "sat"))
        recs.append(Truth({"case": case, "pi": pname, "res": res, "envs": [vals], "idx": [len(lines) - 1]}, R))
        ctx.count("l1:corpus")
    cases = []
    for e in entries:
        cs = G.cases_for(e) + G.truncated_cases(e)
        for c in cs:
            c.sig = e["sig"]
        cases += cs
    cases += G.assume_cases() + [Case(ASSUME_SEL, [], tag="trunc-selector-only", sig="assume(bool)"),
                                 Case(0xDEADBEEF, [V(0)], tag="unknown-selector"), Case(0x98296C54, [V(0)], n=3, tag="short-selector"),
                                 Case(0, [], n=0, tag="empty")]
    for case in cases:
        pis = ["none"]
        if case.nvars() >= 1 and not case.tag.startswith(("err", "trunc", "signsc", "signcs")):
            pis.append(G.rng.choice(["a0==a1", "a0<a1", "a0==5", "a0!=0", "a0==0"] if case.nvars() >= 2 else ["a0==5", "a0!=0", "a0==0"]))
        for pname in pis:
            res = R.direct(case, PI_BUILDERS[pname])
            envs = G.envs(case, ctx.scale(4, 8), cap=None if pname == "none" else 12)
            cond = res.get("cond")
            cc = cn = "sat"       # the true satisfiability answers are computed lazily (Truth) — only mismatch analysis needs them
            idx = []
            orc = res.get("oracle", [])
            occ, ocn = (orc[0] if orc else cc), (orc[1] if len(orc) > 1 else cn)
            for vals in envs:
                idx.append(len(lines))
                lines.append(request(case, vals, occ, ocn))
            ctx.count(f"l1-oracle:{occ}/{ocn if len(orc) > 1 else '-'}" if cond is not None else "l1-oracle:none")
            recs.append(Truth({"case": case, "pi": pname, "res": res, "envs": envs, "idx": idx}, R))
            ctx.count("l1:" + (case.tag.split("-")[0] if case.tag else "?"))
    return recs, lines


def check_level1(ctx, R, recs, replies, by_sel):
    for rec in recs:
        case, res = rec["case"], rec["res"]
        e = by_sel.get(case.sel)
        kl = klass(e) if (e or case.sel == ASSUME_SEL) else "other"
        for vals, i in zip(rec["envs"], rec["idx"]):
            rp = parse_reply(replies[i])
            base = {"level": 1, "case": case.to_json(), "pi": rec["pi"], "vals": [hex(v) for v in vals], "lean": replies[i]}
            ctx.case(("l1", case.key(), rec["pi"], tuple(vals)), nontrivial=rp.get("spec") in ("continues", "fails", "discarded"))
            disp, model, spec = rp.get("dispatch"), rp.get("model"), rp.get("spec")
            # ---- dispatch / exceptions: model vs real
            if disp in ("other",) or (disp or "").startswith("err:"):
                want = "unsupported" if disp == "other" else disp[4:]
                if res["raised"] != want:
                    mismatch(ctx, f"model/impl mismatch (dispatch): model {disp}, real raised {res.get('raised_text')} on {base}")
                ctx.count("l1-outcome:" + want)
                continue
            if model and model.startswith("err:"):
                want = model[4:]
                if res["raised"] != want:
                    # the implementation does something else than the model on an input where the model says it raises
                    mismatch(ctx, f"model/impl mismatch (exception): model {model}, real {res.get('raised_text') or res.get('succ')} on {base}")
                    # refusing the call is acceptable; a definite verdict must be the Forge-std relation on the decoded operands
                    if res["raised"] is None and res.get("cond") is not None and spec in ("continues", "fails"):
                        real_val = R.evalb(res["cond"], vals)
                        if real_val != (spec == "continues"):
                            ctx.violation(f"cond:{kl}:{'false-for-holding' if spec == 'continues' else 'true-for-violated'}-relation",
                                          f"{case.sig}: the condition built by the handler is {real_val} but the Forge-std relation "
                                          f"{'holds' if spec == 'continues' else 'does not hold'} on the decoded operands ({case.tag})", base)
                        else:
                            ctx.count("l1-answered-where-model-refuses:agrees-with-spec")
                ctx.count("l1-outcome:" + want)
                if want in ("notImplemented", "unicodeDecode", "overflow"):
                    ctx.count("l1-escaping-exception:" + want)
                continue
            # ---- model says the handler returns
            if disp == "assume":
                real_succ = "X" if res["raised"] == "infeasible" else ",".join(t for t, _ in res.get("succ", [])) if res["raised"] is None else "raised:" + str(res["raised"])
                true_now = (rp["val"] == "1")
                pi_holds = all(R.evalb(c, vals) for c in res["pi"])
                if res["raised"] is None:
                    grew = res["succ"][0][1]
                    real_app = all(R.evalb(c, vals) for c in grew)      # value of what was appended (nothing appended = true)
                    covered = pi_holds and real_app
                elif res["raised"] == "infeasible":
                    covered = False
                else:
                    mismatch(ctx, f"model/impl mismatch (assume raised {res.get('raised_text')}) on {base}")
                    continue
                if spec in ("continues", "discarded"):
                    want_cov = pi_holds and spec == "continues"
                    if covered != want_cov:
                        ctx.violation(f"assume:path-{'drops' if want_cov else 'keeps'}-input", f"vm.assume: input {'lost' if want_cov else 'kept'} although the condition is {spec} ({case.tag})", base)
                        continue
                    if real_succ not in ("X", "C", "C+"):
                        ctx.violation("assume:unexpected-successors", f"vm.assume produced {real_succ}", base)
                        continue
                    if not res.get("ret_empty", True):
                        ctx.violation("assume:returns-data", "vm.assume returned data", base)
                elif spec == "reverts":
                    ctx.count("malformed:assume:" + ("path-dropped" if not covered else "continues"))
                    ctx.violation("malformed-calldata:assume-truncated-argument-read-as-false" if not covered else "malformed-calldata:assume-truncated-accepted",
                                  "vm.assume with calldata too short for its bool argument is not rejected: the missing bytes are read as zero, "
                                  "so the path is silently dropped (Forge reverts the cheatcode call)", base)
                # model vs real (value of the condition)
                if (covered != (pi_holds and true_now)):
                    mismatch(ctx, f"model/impl mismatch (assume value): model val={rp['val']} real covered={covered} on {base}")
                ctx.count("l1-outcome:assume-" + spec)
                continue
            # assertion with a condition
            if res.get("cond_err") or res["raised"] is not None:
                mismatch(ctx, f"model/impl mismatch: model returns a condition, real raised {res.get('cond_err') or res.get('raised_text')} on {base}")
                if spec in ("continues", "fails"):
                    ctx.violation(f"cond:{kl}:raises-on-wellformed-call", f"{case.sig}: the handler raised {res.get('cond_err') or res.get('raised_text')} on a "
                                  f"well-formed call the model handles ({case.tag})", base)
                continue
            cond = res["cond"]
            real_val = R.evalb(cond, vals)
            model_val = rp["val"] == "1"
            if spec in ("continues", "fails"):
                if real_val != (spec == "continues"):
                    ctx.violation(f"cond:{kl}:{'false-for-holding' if spec == 'continues' else 'true-for-violated'}-relation",
                                  f"{case.sig}: the condition built by the handler is {real_val} but the Forge-std relation "
                                  f"{'holds' if spec == 'continues' else 'does not hold'} on the decoded operands ({case.tag})", base)
                    continue
            elif spec == "reverts":
                ctx.count("malformed:assert:" + kl.split(":")[0])
                ctx.violation("malformed-calldata:assert-truncated-operands-read-as-zero",
                              "vm.assert* with calldata too short for its arguments is not rejected: missing bytes are read as zero and the "
                              "assertion is evaluated on them (Forge reverts the cheatcode call)", base)
            elif spec == "none":
                raise RuntimeError(f"spec has no meaning for {case.sig} on {base}")
            if model_val != real_val:
                mismatch(ctx, f"model/impl mismatch (condition value): model {model_val} real {real_val} on {base}")
            if not R.same_shape(rp["shape"], cond):
                mismatch(ctx, f"model/impl mismatch (condition shape): model {rp['shape']} real {R.shape(cond)} ({cond}) on {base}")
            # branch logic
            real_tags = sorted(t for t, _ in res["succ"])
            model_tags = sorted(rp["succ"].split(","))
            if real_tags != model_tags:
                # what does the specification demand? failure reported iff ¬rel satisfiable on π; continuation kept iff rel satisfiable
                fail_possible = rec["cn"] != "unsat"
                has_fail = any(t.startswith("F") for t in real_tags)
                if fail_possible and not has_fail and rec["cc"] != "unsat":
                    ctx.violation(f"branch:{kl}:failure-not-reported", f"{case.sig}: ¬relation is satisfiable on the path but no FailCheatcode successor was produced", base)
                    continue
                if not any(t.startswith("C") for t in real_tags) and rec["cc"] == "sat":
                    ctx.violation(f"branch:{kl}:continuation-lost", f"{case.sig}: relation satisfiable on the path but no continuing successor", base)
                    continue
                if has_fail and rec["cn"] == "unsat" and rec["cc"] == "sat":
                    ctx.violation(f"branch:{kl}:spurious-failure-successor", f"{case.sig}: ¬relation unsatisfiable on the path but a FailCheatcode successor exists", base)
                    continue
                mismatch(ctx, f"model/impl mismatch (successors): model {model_tags} real {real_tags} cc={rec['cc']} cn={rec['cn']} on {base}")
            for t, grew in res["succ"]:
                pi_holds = all(R.evalb(c, vals) for c in res["pi"])
                on_path = pi_holds and all(R.evalb(c, vals) for c in grew)
                if t.startswith("F"):
                    want = pi_holds and not real_val
                    if t == "F":
                        # the oracle said π ∧ cond is unsat: the unchanged path π must indeed imply ¬cond
                        want = pi_holds
                        if pi_holds and real_val and rec["cc"] != "unsat":
                            ctx.violation(f"branch:{kl}:halted-on-satisfiable-relation", f"{case.sig}: the whole path was failed although the relation is satisfiable on it", base)
                            continue
                    if on_path != want:
                        ctx.violation(f"branch:{kl}:fail-path-not-pi-and-not-rel", f"{case.sig}: the FailCheatcode successor's path is not π ∧ ¬relation", base)
                else:
                    if grew:
                        ctx.violation(f"branch:{kl}:continuing-path-changed", f"{case.sig}: the continuing successor's path was extended", base)
            if not res.get("ret_empty", True):
                ctx.violation(f"branch:{kl}:returns-data", f"{case.sig}: returned data", base)
            ctx.count("l1-outcome:" + spec)
            ctx.count("l1-succ:" + ",".join(real_tags))


# --------------------------------------------------------------------------------------------------------- level 2

CHAINS_QUICK = [[], ["CALL"], ["DELEGATECALL"], ["STATICCALL"]]
CHAINS_THOROUGH = CHAINS_QUICK + [["CALL", "DELEGATECALL"], ["STATICCALL", "CALL"], ["DELEGATECALL", "STATICCALL"],
                                  ["CALL", "CALL", "CALL"], ["DELEGATECALL", "CALL", "STATICCALL"], ["STATICCALL", "DELEGATECALL", "CALL"]]


def level2_programs(ctx, G, entries):
    """(script, chain) pairs"""
    progs = []
    rng = G.rng
    chains = CHAINS_THOROUGH if ctx.tier != "quick" else CHAINS_QUICK
    for e in entries:
        cs = [c for c in G.cases_for(e) if not c.tag.startswith("err")]
        sym = [c for c in cs if c.nvars() > 0]
        conc = [c for c in cs if c.nvars() == 0]
        pick = []
        if sym:
            pick += rng.sample(sym, min(len(sym), ctx.scale(2, 4)))
        if conc:
            pick += rng.sample(conc, min(len(conc), ctx.scale(1, 3)))
        da = [c for c in cs if c.tag.startswith("dynarr") and c not in pick]
        if da:
            first = {}
            for c in da:
                first.setdefault(c.tag, c)
            pick += list(first.values())      # one of every kind (same shape / equal / different count / lengths / symbolic)
        if e["op"] in ("Lt", "Gt", "Le", "Ge"):
            # operands on opposite sides of 2^255: always through the SEVM too (concrete, half-symbolic, symbolic)
            pick += [c for c in sym if c.tag == "ss" and c not in pick]
            half = [c for c in sym if c.tag in ("signsc", "signcs") and c not in pick]
            pick += rng.sample(half, min(len(half), ctx.scale(3, 8)))
            xs = [c for c in conc if c.tag == "signcc-x" and c not in pick]
            pick += rng.sample(xs, min(len(xs), ctx.scale(4, 12)))
        rel = [c for c in conc if c.tag.startswith("dynrel") and c not in pick]
        if rel:
            # concrete operands of different lengths (leading / trailing zeros, prefix, suffix): always through the SEVM too
            uneq = [c for c in rel if c.tag.split("-")[-1] != c.tag.split("-")[-2]]
            pick += rng.sample(uneq, min(len(uneq), ctx.scale(3, 8)))
        for j, c in enumerate(pick):
            progs.append(([c], []))
            deep = [ch for ch in chains if ch]
            for ch in (rng.sample(deep, ctx.scale(1, 3)) if j == 0 else [rng.choice(deep)] if rng.random() < 0.5 else []):
                progs.append(([c], ch))
        errs = [c for c in G.error_cases(e)]
        if errs:
            progs.append(([rng.choice(errs)], rng.choice(chains)))
    # vm.assume and sequences
    for c in G.assume_cases():
        progs.append(([c], rng.choice(chains)))
    word_entries = [e for e in entries if e["operands"] == 2 and not e["is_array"] and e["ty"] not in ("bytes", "string") and not e["has_msg"]]
    un_entries = [e for e in entries if e["operands"] == 1 and not e["has_msg"]]
    for _ in range(ctx.scale(30, 150)):
        script = []
        for _ in range(rng.randrange(2, 4)):
            r = rng.random()
            if r < 0.3:
                script.append(Case(ASSUME_SEL, [V(rng.randrange(3))], tag="seq-assume", sig="assume(bool)"))
            elif r < 0.8:
                e = rng.choice(word_entries)
                ops = [V(rng.randrange(3)) if rng.random() < 0.75 else G.word() for _ in range(2)]
                script.append(Case(e["sel"], ops, tag="seq-assert", sig=e["sig"]))
            else:
                e = rng.choice(un_entries)
                script.append(Case(e["sel"], [V(rng.randrange(3))], tag="seq-unary", sig=e["sig"]))
        progs.append((script, rng.choice(chains)))
    # an equality learned on the path, then a comparison of the pinned word with a second symbolic word; depths 0-2
    deep2 = [["CALL", "DELEGATECALL"], ["STATICCALL", "CALL"], ["DELEGATECALL", "CALL"]]
    for sp in seq_programs(ctx, G, entries):
        progs.append((sp, []))
        r = rng.random()
        if ctx.tier != "quick" or r < 0.6:
            progs.append((sp, rng.choice([ch for ch in chains if ch]) if r < 0.35 or ctx.tier != "quick" else rng.choice(deep2)))
        if ctx.tier != "quick":
            progs.append((sp, rng.choice(deep2)))
    # compound boolean conditions learned by vm.assume / a branch, then the word is read again
    for sp in compound_programs(ctx, G, entries):
        progs.append((sp, [] if ctx.tier != "quick" and rng.random() < 0.5 or rng.random() < 0.7 else rng.choice([ch for ch in chains if ch])))
    # sibling paths from one branch point
    for bp in branch_programs(ctx, G, entries):
        progs.append((bp, []))
        if ctx.tier != "quick" or rng.random() < 0.5:
            progs.append((bp, rng.choice([ch for ch in chains if ch])))
    return progs


def level2_inputs(ctx, D, G, scn, sr, script):
    rng = G.rng
    nv = scn.nargs
    envs = []
    k = ctx.scale(5, 10)
    base_case = max(script, key=lambda c: c.nvars())
    for vals in G.envs(base_case, k, cap=ctx.scale(12, 30)):
        vals = list(vals) + [G.word() for _ in range(nv - len(vals))]
        envs.append(vals[:nv])
    inputs, seen = [], set()

    def add(args, tag):
        t = tuple(args)
        if t in seen:
            return
        seen.add(t)
        inputs.append(D.Inputs(list(args), 0xCAFE, 0xCAFE, 0, {}, 0))
        ctx.count("l2-input:" + tag)

    for v in envs:
        add(v, "directed")
    if nv and any(c.nvars() for c in script):
        budget = time.time() + 1.0
        for p in sr.paths:
            if time.time() > budget:
                break
            for m in D.solve_inputs(p.conds, scn, n=1, timeout_ms=400):
                add(m.args, "path-model")
    return inputs


def expected_script(spec_outcomes):
    """spec_outcomes: per call 'continues' | 'fails' | 'discarded' | 'reverts' | 'error'.  Returns (fails, alive, malformed)"""
    fails = False
    for o in spec_outcomes:
        if o == "discarded":
            return fails, False, False
        if o in ("reverts", "error"):
            return fails, None, True
        if o == "fails":
            fails = True
    return fails, True, False


def run_level2(ctx, R, D, asm, G, progs, by_sel):
    jobs = []          # (scn, script, chain, sr, inputs)
    lines = []
    evm_jobs = []
    for script, chain, *fixed in progs:
        fixed_inputs = [D.Inputs((list(fixed[0]) + [0, 0, 0, 0])[: None], 0xCAFE, 0xCAFE, 0, {}, 0)] if fixed else None
        if isinstance(script, (BranchProg, SeqProg)):
            bp = script
            scn = build_branch_scenario(D, asm, bp, chain)
            sr = D.symbolic_run(scn)
            ctx.count(f"l2-depth:{len(chain)}")
            ctx.count("l2-seq-programs" if isinstance(bp, SeqProg) else "l2-branch-programs")
            inputs = (seq_inputs if isinstance(bp, SeqProg) else branch_inputs)(ctx, D, G, bp, scn, sr) if fixed_inputs is None else [D.Inputs(fixed_inputs[0].args[: bp.nargs], 0xCAFE, 0xCAFE, 0, {}, 0)]
            rec = {"scn": scn, "script": bp.all_cases(), "branch": bp, "chain": chain, "sr": sr, "inputs": inputs, "idx": [], "evm": [],
                   "scripts": []}
            for inp in inputs:
                cs = bp.script_for(inp.args)
                rec["scripts"].append(cs)
                row = []
                for c in cs:
                    row.append(len(lines))
                    lines.append(request(c, [], "sat", "sat"))
                rec["idx"].append(row)
            for k, inp in enumerate(inputs[: (ctx.scale(10, 24) if isinstance(bp, SeqProg) else ctx.scale(2, 4))]):
                rec["evm"].append((k, len(evm_jobs)))
                evm_jobs.append((scn, inp))
            jobs.append(rec)
            continue
        scn = build_scenario(D, asm, script, chain)
        sr = D.symbolic_run(scn)
        ctx.count(f"l2-depth:{len(chain)}")
        for op in chain:
            ctx.count("l2-callkind:" + op)
        inputs = level2_inputs(ctx, D, G, scn, sr, script) if fixed_inputs is None else [D.Inputs(fixed_inputs[0].args[: scn.nargs], 0xCAFE, 0xCAFE, 0, {}, 0)]
        rec = {"scn": scn, "script": script, "chain": chain, "sr": sr, "inputs": inputs, "idx": [], "evm": []}
        for inp in inputs:
            row = []
            for c in script:
                row.append(len(lines))
                lines.append(request(c, inp.args[: max(c.nvars(), 0)] if c.nvars() else [], "sat", "sat"))
            rec["idx"].append(row)
        # reference EVM for a subset of the inputs
        for k, inp in enumerate(inputs[: ctx.scale(2, 4)]):
            rec["evm"].append((k, len(evm_jobs)))
            evm_jobs.append((scn, inp))
        jobs.append(rec)
    return jobs, lines, evm_jobs


def check_level2(ctx, R, D, jobs, replies, concs, by_sel):
    from vlib import sevmcheck

    FailCheatcode = R.exceptions.FailCheatcode
    for rec in jobs:
        scn, script, chain, sr = rec["scn"], rec["script"], rec["chain"], rec["sr"]
        bp = rec.get("branch")
        e0 = by_sel.get(script[0].sel)
        if bp is not None:
            kl = ("pinned:" if isinstance(bp, SeqProg) else "branch:") + bp.tag.split("|")[0] + (":nested" if chain else "")
            replay = {"level": 2, "branch": bp.to_json(), "chain": chain,
                      "contracts": {hex(a): c.hex() for a, c in scn.contracts.items()}, "nargs": scn.nargs}
        else:
            kl = ("seq" if len(script) > 1 else klass(e0) if (e0 or script[0].sel == ASSUME_SEL) else "other") + (":nested" if chain else "")
            replay = {"level": 2, "script": [c.to_json() for c in script], "chain": chain,
                      "contracts": {hex(a): c.hex() for a, c in scn.contracts.items()}, "nargs": scn.nargs}
        evm_of = dict(rec["evm"])
        whole = script
        for k, (inp, row) in enumerate(zip(rec["inputs"], rec["idx"])):
            script = rec["scripts"][k] if bp is not None else whole      # the calls this input executes
            rps = [parse_reply(replies[i]) for i in row]
            rp_json = dict(replay, inputs=[hex(v) for v in inp.args], lean=[replies[i] for i in row])
            ctx.case(("l2", tuple(c.key() for c in whole), tuple(chain), tuple(inp.args)))
            outs = []
            for c, rp in zip(script, rps):
                m = rp.get("model", "")
                d = rp.get("dispatch", "")
                if d.startswith("err:") or d == "other" or m.startswith("err:"):
                    outs.append("error")
                else:
                    outs.append(rp.get("spec"))
            fails, alive, malformed = expected_script(outs)
            fail_cov, succ_cov, stuck_cov = [], [], []
            for j, p in enumerate(sr.paths):
                pe = D.PathEval(inp)
                try:
                    ok = pe.satisfies(p.conds)
                except D.Unknown:
                    ctx.count("l2-eval-unknown")
                    ok = False
                if not ok:
                    continue
                if isinstance(p.error, FailCheatcode):
                    fail_cov.append((j, p, pe))
                elif p.kind == "success":
                    succ_cov.append((j, p, pe))
                elif p.kind.startswith("stuck"):
                    stuck_cov.append((j, p, pe))
                else:
                    ctx.violation(f"l2:{kl}:unexpected-path-kind:{p.kind}", f"path of kind {p.kind} covers an input of a cheatcode program", rp_json)
            if malformed:
                first_bad = outs.index("error") if "error" in outs else outs.index("reverts")
                if outs[first_bad] == "error":
                    rp = rps[first_bad]
                    want = (rp.get("model", "-")[4:] if rp.get("model", "").startswith("err:") else rp.get("dispatch", "")[4:] or "unsupported")
                    if want in ("notConcrete", "unsupported"):
                        if not stuck_cov and not (fails and fail_cov):
                            mismatch(ctx, f"model/impl mismatch: model says stuck ({want}) but no stuck path covers the input: {rp_json}")
                        ctx.count("l2-outcome:stuck-" + want)
                    else:
                        if not sr.escaped:
                            mismatch(ctx, f"model/impl mismatch: model says {want} escapes, real run ended normally: {rp_json}")
                            # the implementation answered where the model refuses: its answer must be the Spec's
                            specs = [rp.get("spec") for rp in rps]
                            if all(x in ("continues", "fails", "discarded") for x in specs):
                                fails, alive, malformed = expected_script(specs)
                        ctx.count("l2-outcome:escaped-" + want)
                else:
                    ctx.count("l2-outcome:malformed-accepted")
                if malformed:
                    continue
            if sr.escaped:
                ctx.violation(f"l2:{kl}:exception-escaped", f"an exception escaped SEVM.run on a well-formed cheatcode call: {sr.escaped[:120]}", rp_json)
                continue
            # ---- the property
            if fails and not fail_cov:
                ctx.violation(f"l2:{kl}:missed-failure", f"{[c.sig for c in script]}: the relation is false for this input but no FailCheatcode path covers it "
                              f"(chain {chain})", rp_json)
                continue
            if not fails and fail_cov:
                ctx.violation(f"l2:{kl}:spurious-failure", f"{[c.sig for c in script]}: a FailCheatcode path covers an input for which every relation holds "
                              f"(chain {chain})", rp_json)
                continue
            if alive and not fails and not succ_cov:
                ctx.violation(f"l2:{kl}:lost-continuation", f"{[c.sig for c in script]}: every relation holds but no continuing path covers the input (chain {chain})", rp_json)
                continue
            if not alive and succ_cov:
                ctx.violation(f"l2:{kl}:assume-not-restricting", f"{[c.sig for c in script]}: a path continues for an input that vm.assume excludes (chain {chain})", rp_json)
                continue
            if succ_cov and fails:
                ctx.count("l2-continuing-path-also-covers-failing-input")
            if len(succ_cov) > 1:
                ctx.violation(f"l2:{kl}:duplicate-continuation", "two continuing paths cover the same input", rp_json)
            for j, p, pe in fail_cov:
                if not R.is_global_fail_set(p.ex.context):
                    ctx.violation(f"l2:{kl}:global-fail-not-set", "is_global_fail_set is false on the end state of a FailCheatcode path", rp_json)
                if p.ex.context.depth != 1 + len(chain):
                    ctx.violation(f"l2:{kl}:fail-state-wrong-frame", f"FailCheatcode end state is at depth {p.ex.context.depth}, the cheatcode call at {1 + len(chain)}", rp_json)
                if p.data is None:
                    ctx.violation(f"l2:{kl}:fail-state-stuck", "FailCheatcode end state has no output data (would be classified stuck)", rp_json)
            ctx.count("l2-outcome:" + ("fails" if fails else "continues" if alive else "discarded"))
            # ---- nothing else changes (continuing path vs the reference EVM where the cheatcode address is an empty account)
            if k in evm_of and succ_cov:
                conc = concs[evm_of[k]]
                j, p, pe = succ_cov[0]
                if conc.halt != "success":
                    raise RuntimeError(f"reference EVM did not succeed on a cheatcode program: {conc.raw[:200]}")
                got = pe.bytes_of(p.data)
                if got != conc.data:
                    ctx.violation(f"l2:{kl}:state-after-call-differs", f"observation after the cheatcode call differs from a plain call: {got.hex()} vs {conc.data.hex()}", rp_json)
                    continue
                try:
                    ps = sevmcheck.post_state(sr, p, pe, scn, conc)
                    for (a, slot), v in conc.storage.items():
                        if ps["storage"].get((a, slot), 0) != v:
                            ctx.violation(f"l2:{kl}:storage-differs", f"storage[{a:#x}][{slot}] differs from a plain call", rp_json)
                except D.Unknown:
                    ctx.count("l2-eval-unknown-state")
                ctx.count("l2-state-compared")


# --------------------------------------------------------------------------------------------------------- end to end

def end_to_end(ctx):
    from vlib import asm
    from vlib.artifacts import Fn, TestContract, run_contract_offline

    x = asm.calldata_arg(0)
    ne42 = x + [("push", 42), "EQ", "ISZERO"]
    inner_sel = asm.selector("inner(uint256)")
    self_call = (asm.selector_word(inner_sel) + [("push", 0x80), "MSTORE"] + x + [("push", 0x84), "MSTORE",
                 ("push", 0), ("push", 0), ("push", 36), ("push", 0x80), ("push", 0), "ADDRESS", "GAS", "CALL", "POP"])
    fns = [
        Fn("check_ne42(uint256 x)", asm.vm_assert_true(ne42)),
        Fn("check_assume_ne42(uint256 x)", asm.vm_assume(ne42) + asm.vm_assert_true(ne42)),
        Fn("check_noteq42(uint256 x)", asm.cheat_call(HEVM, 0xB7909320, [x, [("push", 42)]])),       # assertNotEq(uint256,uint256)
        Fn("check_nested(uint256 x)", self_call),
        Fn("inner(uint256 x)", asm.cheat_call(HEVM, 0xB7909320, [x, [("push", 42)]])),
        Fn("check_signed(int256 x)", asm.vm_assume(x + [("push", W - 5), "EQ"]) + asm.cheat_call(HEVM, 0x3E914080, [x, [("push", 0)]])),   # assertLt(int256: -5 < 0)
        Fn("check_unsigned(uint256 x)", asm.vm_assume(x + [("push", W - 5), "EQ"]) + asm.cheat_call(HEVM, 0xB12FC005, [x, [("push", 0)]])),  # assertLt(uint256: huge < 0) fails
    ]
    want = {"check_ne42(uint256)": (1, [42]), "check_assume_ne42(uint256)": (0, None), "check_noteq42(uint256)": (1, [42]),
            "check_nested(uint256)": (1, [42]), "check_signed(int256)": (0, None), "check_unsigned(uint256)": (1, [W - 5])}
    solvers = [None] if ctx.tier == "quick" else [None, "yices"]
    for sv in solvers:
        from vlib.artifacts import YICES_COMMAND

        run = run_contract_offline(TestContract("C13E2E", fns), **({"solver_command": YICES_COMMAND} if sv else {}))
        by = run.by_name
        for name, (code, cex) in want.items():
            r = by.get(name)
            ctx.case(("e2e", name, sv))
            ctx.count("e2e:" + name.split("(")[0])
            got_cex = sorted(v.value for m in (r.models or []) for v in m.model.values()) if r is not None else None
            if r is None or r.exitcode != code or (cex is not None and got_cex != cex):
                ctx.violation(f"e2e:{name}:verdict", f"end-to-end verdict for {name}: exitcode {getattr(r, 'exitcode', None)} counterexample {got_cex}, "
                              f"expected exitcode {code} counterexample {cex}", {"level": "e2e", "name": name, "solver": sv})


# --------------------------------------------------------------------------------------------------------- entry points

def table_ties(ctx, R, entries):
    """the ast-extracted table is the runtime dict; the Lean model's derivation agrees with the extractor's on every signature"""
    real = R.assertions.assert_cheatcode_handler
    if sorted(real) != sorted(e["sel"] for e in entries):
        raise RuntimeError("assert_cheatcode_handler at run time differs from the table read from the source text")
    if R.cheatcodes.hevm_cheat_code.assume_sig != ASSUME_SEL:
        raise RuntimeError("hevm_cheat_code.assume_sig changed")
    truth = forge_signatures()
    for e in entries:
        if truth.get(e["sel"]) != e["sig"]:
            ctx.violation("table:selector-bound-to-wrong-signature",
                          f"assert_cheatcode_handler[{e['sel']:#010x}] is bound to {e['sig']} but the selector is that of {truth.get(e['sel'])}",
                          {"level": "table", "selector": hex(e["sel"]), "bound": e["sig"], "keccak_says": truth.get(e["sel"])})
    # one driver run for both the derivation requests and the UTF-8 samples
    rng = ctx.rng
    samples = [b"", b"AB", "€".encode(), b"\xff\xfe", b"\xc0\x80", b"\xed\xa0\x80", b"\xf4\x90\x80\x80", b"\xe0\x9f\xbf", b"\xf0\x8f\xbf\xbf", b"\xc2"]
    for _ in range(ctx.scale(60, 400)):
        n = rng.randrange(1, 5)
        samples.append(bytes(rng.choice([rng.randrange(256), rng.randrange(0x80, 0xC0), rng.choice([0xC2, 0xE0, 0xED, 0xF0, 0xF4, 0xEF])]) for _ in range(n)))
    both = ctx.lean("Assertions").ask([f"D {e['sig']}" for e in entries] + [f"U {x.hex() or '-'}" for x in samples])
    replies, rs = both[: len(entries)], both[len(entries):]
    for e, r in zip(entries, replies):
        want = f"op={e['op']} operands={e['operands']} ty={e['ty']} array={int(e['is_array'])} msg={int(e['has_msg'])} bop={e['bop']}"
        if r != want:
            raise RuntimeError(f"Lean derive disagrees with the extractor on {e['sig']}: {r} vs {want}")
        ctx.case(("derive", e["sig"]))
    ctx.count("table-entries", len(entries))
    # CPython's UTF-8 decoder vs the model's validUtf8
    for s, r in zip(samples, rs):
        try:
            s.decode("utf-8")
            ok = "1"
        except UnicodeDecodeError:
            ok = "0"
        if r != ok:
            raise RuntimeError(f"model validUtf8 disagrees with CPython on {s.hex()}")
        ctx.case(("utf8", s))


def load_corpus(ctx):
    """stored cases; they are put at the front of the level-1 / level-2 batches (one driver run each instead of one per case)"""
    d = VERIF / "corpus" / "C13"
    out = []
    if d.is_dir():
        for f in sorted(d.glob("*.json")):
            data = json.loads(f.read_text())
            out.append(data.get("replay", data))
            ctx.count("corpus")
    return out


def prog_from_json(d):
    return SeqProg.from_json(d) if d.get("kind") == "seq" else BranchProg.from_json(d)


def corpus_programs(corpus):
    progs = []
    for data in corpus:
        if data.get("level") != 2:
            continue
        args = [int(v, 16) for v in data["inputs"]]
        if "branch" in data:
            progs.append((prog_from_json(data["branch"]), data["chain"], args))
        else:
            progs.append(([Case.from_json(c) for c in data["script"]], data["chain"], args))
    return progs


def replay_one(ctx, R, D, asm, data, by_sel):
    """re-run one stored case through the same comparison; returns the number of violations it adds"""
    before = len(ctx.violations) + sum(v["count"] for v in ctx.violations)
    if data.get("level") == 1:
        case = Case.from_json(data["case"])
        vals = [int(v, 16) for v in data["vals"]]
        res = R.direct(case, PI_BUILDERS[data.get("pi", "none")])
        cond = res.get("cond")
        cc = cn = "sat"
        if cond is not None:
            cc, cn = R.sat(res["pi"] + [cond]), R.sat(res["pi"] + [R.z3.Not(cond)])
        rec = Truth({"case": case, "pi": data.get("pi", "none"), "res": res, "envs": [vals], "idx": [0]}, R)
        orc = res.get("oracle", [])
        replies = ctx.lean("Assertions").ask([request(case, vals, orc[0] if orc else cc, orc[1] if len(orc) > 1 else cn)])
        check_level1(ctx, R, [rec], replies, by_sel)
    elif data.get("level") == 2 and "branch" in data:
        bp = prog_from_json(data["branch"])
        scn = build_branch_scenario(D, asm, bp, data["chain"])
        sr = D.symbolic_run(scn)
        args = [int(v, 16) for v in data["inputs"]]
        inp = D.Inputs(args, 0xCAFE, 0xCAFE, 0, {}, 0)
        cs = bp.script_for(args)
        lines = [request(c, [], "sat", "sat") for c in cs]
        replies = ctx.lean("Assertions").ask(lines)
        concs = D.run_concrete_batch(ctx, [(scn, inp)])
        rec = {"scn": scn, "script": bp.all_cases(), "branch": bp, "chain": data["chain"], "sr": sr, "inputs": [inp],
               "idx": [list(range(len(lines)))], "evm": [(0, 0)], "scripts": [cs]}
        check_level2(ctx, R, D, [rec], replies, concs, by_sel)
    elif data.get("level") == 2:
        script = [Case.from_json(c) for c in data["script"]]
        scn = build_scenario(D, asm, script, data["chain"])
        sr = D.symbolic_run(scn)
        args = [int(v, 16) for v in data["inputs"]]
        inp = D.Inputs(args, 0xCAFE, 0xCAFE, 0, {}, 0)
        lines = [request(c, args[: c.nvars()], "sat", "sat") for c in script]
        replies = ctx.lean("Assertions").ask(lines)
        concs = D.run_concrete_batch(ctx, [(scn, inp)])
        rec = {"scn": scn, "script": script, "chain": data["chain"], "sr": sr, "inputs": [inp], "idx": [list(range(len(lines)))], "evm": [(0, 0)]}
        check_level2(ctx, R, D, [rec], replies, concs, by_sel)
    elif data.get("level") == "e2e":
        end_to_end(ctx)
    elif data.get("level") == "table":
        entries, _ = load_table()
        truth = forge_signatures()
        for e in entries:
            if hex(e["sel"]) == data["selector"] and truth.get(e["sel"]) != e["sig"]:
                ctx.violation("table:selector-bound-to-wrong-signature", "still bound to the wrong signature", data)
    after = len(ctx.violations) + sum(v["count"] for v in ctx.violations)
    return after - before


def correspond(ctx):
    from vlib import asm
    from vlib import evmdiff as D

    t0 = time.time()
    R = Real()
    entries, lits = load_table()
    by_sel = {e["sel"]: e for e in entries}
    ctx.note(f"harvested integer literals: {lits}")
    corpus = load_corpus(ctx)
    table_ties(ctx, R, entries)
    G = Gen(ctx, entries, lits)
    # level 1
    recs, lines = level1(ctx, R, G, entries, by_sel, corpus)
    replies = ctx.lean("Assertions").ask(lines)
    check_level1(ctx, R, recs, replies, by_sel)
    ctx.extra["level1_cases"] = len(recs)
    ctx.extra["level1_wall_s"] = round(time.time() - t0, 1)
    # level 2
    t1 = time.time()
    progs = corpus_programs(corpus) + level2_programs(ctx, G, entries)
    jobs, lines2, evm_jobs = run_level2(ctx, R, D, asm, G, progs, by_sel)
    replies2 = ctx.lean("Assertions").ask(lines2)
    concs = D.run_concrete_batch(ctx, evm_jobs)
    check_level2(ctx, R, D, jobs, replies2, concs, by_sel)
    ctx.extra["level2_programs"] = len(progs)
    ctx.extra["level2_wall_s"] = round(time.time() - t1, 1)
    sel_l1 = {r["case"].sel for r in recs}
    sel_l2 = {c.sel for s, *_ in progs for c in (s.all_cases() if isinstance(s, (BranchProg, SeqProg)) else s)}
    missing = [hex(e["sel"]) for e in entries if e["sel"] not in sel_l1 or e["sel"] not in sel_l2]
    if missing or ASSUME_SEL not in sel_l1 or ASSUME_SEL not in sel_l2:
        raise RuntimeError(f"selectors not exercised: {missing}")
    ctx.extra["selectors_covered"] = len(entries) + 1
    # end to end
    t2 = time.time()
    end_to_end(ctx)
    ctx.extra["e2e_wall_s"] = round(time.time() - t2, 1)
    mm = ctx.extra.get("model_mismatches", [])
    if mm:
        ctx.extra["model_mismatches"] = mm[:5]
        raise RuntimeError(f"{len(mm)} model/implementation disagreement(s); first: {mm[0]}")
    for r in recs[:3]:
        ctx.sample({"sig": r["case"].sig, "layout": r["case"].layout()[:120], "pi": r["pi"], "succ": [t for t, _ in r["res"].get("succ", [])],
                    "raised": r["res"].get("raised")})
    for j in jobs[:3]:
        ctx.sample({"script": [c.sig for c in j["script"]], "chain": j["chain"], "paths": [p.kind for p in j["sr"].paths]})


def replay(ctx, data) -> bool:
    from vlib import asm
    from vlib import evmdiff as D

    R = Real()
    entries, _ = load_table()
    by_sel = {e["sel"]: e for e in entries}
    return replay_one(ctx, R, D, asm, data.get("replay", data), by_sel) > 0
