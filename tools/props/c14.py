"""C14 — prank, state-setting cheatcodes and fresh symbols behave as specified.

Implementation route: hand-assembled programs run on the real `SEVM` (vlib.evmdiff.symbolic_run / SEVM.run_message).

A. prank histories -> programs.  A history is a tree of operations (prank / prank2 / startPrank / startPrank2 / stopPrank,
   CALL / STATICCALL / DELEGATECALL / CALLCODE to a reporter contract, CREATE, calls to the vm / svm / console endpoints,
   a call to an address without code, nested frames (callees compiled from sub-histories, entered by any call kind),
   `if` on a symbolic calldata bit).  Every frame appends what it observes (its own CALLER/ORIGIN, the reporter's, the
   created contract's) to a buffer and returns it.  The flattened history is run through the Lean Model (Model.Prank.run)
   and the Lean Spec (Spec.Foundry.run) by Driver/Prank.lean; returned buffer and call trace are compared with both.
B. state cheatcodes: deal/store/etch/warp/roll/fee/chainId/coinbase/difficulty with concrete and symbolic arguments, then
   BALANCE / SLOAD (through a getter call) / EXTCODESIZE / TIMESTAMP / NUMBER / BASEFEE / CHAINID / COINBASE / PREVRANDAO of
   the targeted and an untargeted account, vm.load — against the reference EVM (Spec.Evm.exec) run on the world/params
   updated by Spec.Foundry.applyWorld/applyParams, and against the Model's network state.
B'. multi-path contexts: a forking sub-context first (CREATE / CREATE2 whose constructor forks on tx.origin's low bit, CALL to
   a forking callee; each side returns or reverts — both fail, both succeed, mixed), then read-modify-write cheats
   (vm.load+vm.store(+d), BALANCE+vm.deal(+d), SLOAD+SSTORE(+d), path-conditional vm.etch / vm.store); every path's reads must be
   what THAT path stored: the reference EVM runs the reads on the world obtained by applying the path's own cheat sequence
   (Spec.Foundry.applyWorld, `cheatinc` requests of Driver/Prank).
C. every svm.create* / vm.random* selector: label, width, counter, encoding under sampled valuations (vs Model.Prank.create
   and the Spec's value sets), reachability of boundary values, independence of consecutive creations.
D. a later transaction (SEVM.run_message on the end state of a transaction that left startPrank active) is not pranked.
"""
from __future__ import annotations

import ast
import itertools
import json
import re
import time

from vlib.runner import REPO, VERIF

ID = "C14"
EXTRACTORS = ["selectors", "prank"]
LEAN_MODULES = ["HalmosVerif.Props.C14"]
RULE = ("A: prank histories (exhaustive over an 18-symbol alphabet up to length 3 quick / 4 thorough, then random trees up to "
        "length 7 with nesting depth <= 3, all four call kinds, `if` on symbolic calldata bits, symbolic prank addresses) compiled "
        "to EVM programs whose frames record CALLER/ORIGIN; one case = one (history, path); distinct = distinct flattened "
        "history; non-trivial = the history contains a prank-family op and a call/creation.  B: state-cheatcode programs "
        "(1-4 cheats, concrete/symbolic args incl. literals harvested from cheatcodes.py) x concrete inputs.  C: every "
        "create*/random* selector x widths 8..256 step 8 + odd widths x byte sizes {0,1,31,32,33,65,1024} x sampled values.")
TRUSTED = [
    "Spec.Foundry is hand-written from the Foundry Book / halmos-cheatcodes documentation (prank scope, state cheats, value sets)",
    "Model.Prank is hand-written from cheatcodes.py / sevm.py; tie: this differential run (buffers and call traces of the real SEVM) "
    "and tools/extract/prank.py (lookup's exclusion list, CHEATCODE_ADDRESSES, create's lookup address are regenerated each run)",
    "tools/vlib/asm.py (assembler), tools/vlib/zeval.py (term evaluator), the reference EVM Spec.Evm for the state-cheat programs",
]
ASSUMPTIONS = [
    "tx.origin set by prank(a,o)/startPrank(a,o) is visible to everything executed inside the pranked call (nested calls too) "
    "and the pranking frame sees its old origin afterwards (forge: ecx.tx.caller replaced for the call, restored in call_end)",
    "DELEGATECALL: msg.sender of the delegate frame is the delegating frame's msg.sender (a plain prank does not change it); the "
    "delegatecall counts as 'the next call' (consumes a one-shot prank, a pranked origin applies). forge itself skips plain pranks "
    "on delegatecalls; the Book does not say — halmos' reading is accepted",
    "prank/startPrank while a prank is active is an error (halmos is stricter than forge, which lets startPrank override a used startPrank)",
    "vm.store on an account without code is rejected by halmos (HalmosException); Foundry allows it — conservative, outside the property",
    "balances above MAX_ETH (2^128) are excluded by halmos' documented practical assumption; deal amounts are drawn below it",
    "bit size 0 (createUint(0,..), createInt(0,..), randomUint(0), randomInt(0)) is not a Solidity type; halmos lets a TypeError / "
    "AttributeError escape SEVM.run there — counted (histogram create:crash-bits0), outside the property's quantifier (widths 1..256)",
    "name_of is modelled for ASCII whitespace",
]

W = 1 << 256
A160 = 1 << 160
MAIN = 0x1000
REPORTER = 0x2000
EOA = 0xDEAD
IDENTITY = 0x4           # identity precompile
WATCH = [MAIN, EOA, 0xA11CE, 0xB0B]   # balances recorded after every value-bearing call
DEAL_EACH = 1000         # balance dealt to every potential caller when a history moves value
CHILD_BASE = 0x3000
OBS = 0x1000          # observation buffer in memory
PTR = 0x60            # memory slot holding the write pointer
CONSOLE = 0x000000000000000000636F6E736F6C652E6C6F67
ALLOC_BASE = 0xAAAA0001
MAX_ETH = 1 << 128

SEL = {
    "prank": 0xCA669FA7, "prank2": 0x47E50CCE, "startPrank": 0x06447D56, "startPrank2": 0x45B56078, "stopPrank": 0x90C5013B,
    "deal": 0xC88A5E6D, "store": 0x70CA10BB, "load": 0x667F9D70, "fee": 0x39B37AB0, "chainId": 0x4049DDD2,
    "coinbase": 0xFF483C54, "difficulty": 0x46CC92D9, "roll": 0x1F7B4F30, "warp": 0xE5D6BF02, "etch": 0xB4D6C782,
    "label": 0xC657C718, "console.log(uint256)": 0xF82C50F1,
}
HEVM_NAME = {"prank": "prank_sig", "prank2": "prank_addr_addr_sig", "startPrank": "start_prank_sig",
             "startPrank2": "start_prank_addr_addr_sig", "stopPrank": "stop_prank_sig", "deal": "deal_sig", "store": "store_sig",
             "load": "load_sig", "fee": "fee_sig", "chainId": "chainid_sig", "coinbase": "coinbase_sig",
             "difficulty": "difficulty_sig", "roll": "roll_sig", "warp": "warp_sig", "etch": "etch_sig", "label": "label_sig"}


def _imports():
    from vlib import asm, evmdiff  # noqa: F401  (evmdiff imports halmos from $HALMOS_REPO)

    return asm, evmdiff


def sym_run(D, scn, **cfg):
    """D.symbolic_run with halmos' console.log prints swallowed"""
    import contextlib
    import io

    with contextlib.redirect_stdout(io.StringIO()):
        return D.symbolic_run(scn, **cfg)


def check_selectors():
    """the selectors used by the generated programs are the ones the pinned source declares (Gen/Selectors is proved
    against Keccak in C13Tables; here: our table vs the source text)"""
    src = (REPO / "src/halmos/cheatcodes.py").read_text()
    for k, name in HEVM_NAME.items():
        m = re.search(rf"\b{name}: int = (0x[0-9A-Fa-f]+)", src)
        if not m or int(m.group(1), 16) != SEL[k]:
            raise RuntimeError(f"selector table out of date for {k} ({name})")


def harvest_literals():
    vals = set()
    for f in ("cheatcodes.py", "constants.py"):
        tree = ast.parse((REPO / "src/halmos" / f).read_text())
        for n in ast.walk(tree):
            if isinstance(n, ast.Constant) and isinstance(n.value, int) and not isinstance(n.value, bool):
                for d in (-1, 0, 1):
                    vals.add((n.value + d) % W)
    return sorted(vals)


# ======================================================================================================================
# A. prank histories
# ======================================================================================================================

PRANK_OPS = ("p", "p2", "sp", "sp2", "stop")
KIND_OPCODE = {"c": "CALL", "s": "STATICCALL", "d": "DELEGATECALL", "cc": "CALLCODE"}
ADDR_POOL = [0xA11CE, 0xB0B, 0xCA11, MAIN, REPORTER, 0, A160 - 1, 0x7109709ECFA91A80626FF3989D68F67F5B1DD12D, CONSOLE]


def addr_items(asm, a):
    """a: int (concrete) | ("arg", i) (uint160 of the i-th symbolic calldata word; main frame only)"""
    if isinstance(a, tuple):
        return asm.calldata_arg(a[1])
    return [("push", a)]


def addr_value(a, args):
    if isinstance(a, tuple):
        return args[a[1]] % A160
    return a % A160


def bump_ptr(size_items):
    return size_items + [("push", PTR), "MLOAD", "ADD", ("push", PTR), "MSTORE"]


def call_record(kind, addr):
    """call `addr` with empty calldata, append all of its return data to the observation buffer"""
    items = [0, 0, 0, 0]
    if kind in ("c", "cc"):
        items += [0]
    items += [("push", addr, 20), "GAS", KIND_OPCODE[kind], "POP"]
    items += ["RETURNDATASIZE", 0, ("push", PTR), "MLOAD", "RETURNDATACOPY"]
    items += bump_ptr(["RETURNDATASIZE"])
    return items


def plain_call(kind, addr):
    items = [0, 0, 0, 0]
    if kind in ("c", "cc"):
        items += [0]
    return items + [("push", addr, 20), "GAS", KIND_OPCODE[kind], "POP"]


INIT_CODE_ITEMS = ["CALLER", 0, "MSTORE", "ORIGIN", 0x20, "MSTORE", 0x40, 0, "RETURN"]


class Compiler:
    """history tree -> contracts {address: code}"""

    def __init__(self, asm):
        self.asm = asm
        self.contracts = {}
        self.next_child = CHILD_BASE
        self.reporter = asm.assemble(INIT_CODE_ITEMS)
        self.init_code = asm.assemble(INIT_CODE_ITEMS)
        self.contracts[REPORTER] = self.reporter

    def cheat(self, which):
        asm = self.asm
        if which == "vm":       # vm.label(address,string): a no-op cheatcode
            return asm.cheat_call(asm.HEVM_ADDRESS, SEL["label"], [[("push", 0x1234)], [("push", 0x40)], [("push", 0)]])
        if which == "vmdeal":   # vm.deal
            return asm.cheat_call(asm.HEVM_ADDRESS, SEL["deal"], [[("push", 0x9999)], [("push", 1)]])
        if which == "svm":
            return asm.svm_create_uint256(b"x") + ["POP"]
        if which == "console":
            return asm.cheat_call(CONSOLE, SEL["console.log(uint256)"], [[("push", 7)]])
        if which == "vmstatic":  # STATICCALL to the vm address
            return asm.cheat_call(asm.HEVM_ADDRESS, SEL["label"], [[("push", 0x1234)], [("push", 0x40)], [("push", 0)]], static=True)
        raise ValueError(which)

    def ops_items(self, ops, is_main):
        asm = self.asm
        items = []
        for op in ops:
            k = op[0]
            if k == "p":
                items += asm.cheat_call(asm.HEVM_ADDRESS, SEL["prank"], [addr_items(asm, op[1])])
            elif k == "p2":
                items += asm.cheat_call(asm.HEVM_ADDRESS, SEL["prank2"], [addr_items(asm, op[1]), addr_items(asm, op[2])])
            elif k == "sp":
                items += asm.cheat_call(asm.HEVM_ADDRESS, SEL["startPrank"], [addr_items(asm, op[1])])
            elif k == "sp2":
                items += asm.cheat_call(asm.HEVM_ADDRESS, SEL["startPrank2"], [addr_items(asm, op[1]), addr_items(asm, op[2])])
            elif k == "stop":
                items += asm.cheat_call(asm.HEVM_ADDRESS, SEL["stopPrank"], [])
            elif k == "rep":
                items += call_record(op[1], REPORTER)
            elif k == "cr":
                n = len(self.init_code)
                items += [("push", int.from_bytes(self.init_code, "big"), n), 0, "MSTORE",
                          ("push", n), ("push", 32 - n), 0, "CREATE",
                          64, 0, ("push", PTR), "MLOAD", "DUP4", "EXTCODECOPY", "POP"]
                items += bump_ptr([64])
            elif k == "cheat":
                items += self.cheat(op[1])
            elif k == "eoa":
                items += plain_call(op[1] if len(op) > 1 else "c", EOA)
            elif k == "eoav":      # value-bearing CALL to the code-less account, then the balances of the watch list
                items += [0, 0, 0, 0, ("push", op[1]), ("push", EOA, 20), "GAS", "CALL", "POP"]
                for a in WATCH:
                    items += [("push", a, 20), "BALANCE", ("push", PTR), "MLOAD", "MSTORE"] + bump_ptr([32])
            elif k == "pre":       # the identity precompile
                items += plain_call(op[1], IDENTITY)
            elif k == "bal":       # record BALANCE(addr)
                items += [("push", op[1], 20), "BALANCE", ("push", PTR), "MLOAD", "MSTORE"] + bump_ptr([32])
            elif k == "deal":
                items += asm.cheat_call(asm.HEVM_ADDRESS, SEL["deal"], [[("push", op[1])], [("push", op[2])]])
            elif k == "nest":
                addr = self.frame(op[2], is_main=False)
                op_addr[id(op)] = addr
                items += call_record(op[1], addr)
            elif k == "if":
                cond = asm.calldata_arg(op[1]) + [1, "AND"]
                items += asm.if_then(cond, self.ops_items(op[2], is_main), self.ops_items(op[3], is_main))
            else:
                raise ValueError(op)
        return items

    def frame(self, ops, is_main):
        asm = self.asm
        addr = MAIN if is_main else self.next_child
        if not is_main:
            self.next_child += 0x100
        items = [("push", OBS), ("push", PTR), "MSTORE"]
        if not is_main:
            items += ["CALLER", ("push", PTR), "MLOAD", "MSTORE", "ORIGIN", ("push", PTR), "MLOAD", 32, "ADD", "MSTORE"]
            items += bump_ptr([64])
        items += self.ops_items(ops, is_main)
        items += [("push", OBS), ("push", PTR), "MLOAD", "SUB", ("push", OBS), "RETURN"]
        self.contracts[addr] = asm.assemble(items)
        return addr


op_addr = {}   # id(nest op) -> child address (filled by the compiler)
STALE = []     # deferred 'model stale' findings (see compare_prank)


def flatten(ops, args, state):
    """flat Lean tokens + per-token 'enters' flags. state: {"created": n}; `if` resolved by the inputs"""
    toks = []
    for op in ops:
        k = op[0]
        if k == "p":
            toks.append(f"p:{addr_value(op[1], args):x}")
        elif k == "p2":
            toks.append(f"p2:{addr_value(op[1], args):x}:{addr_value(op[2], args):x}")
        elif k == "sp":
            toks.append(f"sp:{addr_value(op[1], args):x}")
        elif k == "sp2":
            toks.append(f"sp2:{addr_value(op[1], args):x}:{addr_value(op[2], args):x}")
        elif k == "stop":
            toks.append("stop")
        elif k == "rep":
            toks += [f"c:{op[1]}:{REPORTER:x}:1", "ret"]
        elif k == "cr":
            state["created"] += 1
            toks += [f"cr:{ALLOC_BASE + state['created']:x}", "ret"]
        elif k == "cheat":
            a = {"vm": HEVM, "vmdeal": HEVM, "vmstatic": HEVM, "svm": SVM, "console": CONSOLE}[op[1]]
            toks.append(f"c:{'s' if op[1] == 'vmstatic' else 'c'}:{a:x}:0")
        elif k == "eoa":
            toks.append(f"c:{op[1] if len(op) > 1 else 'c'}:{EOA:x}:0")
        elif k == "eoav":
            toks += [f"val:{op[1]:x}", f"c:c:{EOA:x}:0"] + [f"bal:{a:x}" for a in WATCH]
        elif k == "pre":
            toks.append(f"c:{op[1]}:{IDENTITY:x}:0")
        elif k == "bal":
            toks.append(f"bal:{op[1]:x}")
        elif k == "deal":
            toks += [f"c:c:{HEVM:x}:0", f"deal:{op[1]:x}:{op[2]:x}"]
        elif k == "nest":
            toks += [f"c:{op[1]}:{op_addr[id(op)]:x}:1"] + flatten(op[2], args, state) + ["ret"]
        elif k == "if":
            toks += flatten(op[2] if args[op[1]] & 1 else op[3], args, state)
    return toks


HEVM = 0x7109709ECFA91A80626FF3989D68F67F5B1DD12D
SVM = 0xF3993A62377BCD56AE39D773740A5390411E8BC9


def parse_view(v):
    """'e0 o=… f=…' -> (err, [(to,self,sender,origin)], frames str)"""
    e, o, f = v.split(" ")
    obs = [] if o == "o=-" else [tuple(int(x, 16) for x in t.split("/")) for t in o[2:].split(";")]
    return e == "e1", obs, f[2:]


def parse_hist_reply(r):
    m = re.match(r"^M (e\d o=\S+ f=\S+) S (e\d o=\S+ f=\S+)$", r)
    if not m:
        raise RuntimeError(f"unexpected driver reply: {r[:200]}")
    return parse_view(m.group(1)), parse_view(m.group(2))


def lean_toks(toks):
    """the tokens Driver/Prank understands (pseudo tokens val:/bal:/deal: are bookkeeping of this harness)"""
    return [t for t in toks if not t.startswith(("val:", "bal:", "deal:"))]


def expected_buffer(toks, obs):
    """the words the main frame returns: (sender, origin) of every call/creation event that enters a frame, and the
    balances read by `bal` — value moves from the msg.sender the machine (Model or Spec) gives the call to its target"""
    out, i = [], 0
    balances, pending_value = {}, 0
    for t in toks:
        if t.startswith("deal:"):
            _, a, v = t.split(":")
            balances[int(a, 16)] = int(v, 16)
        elif t.startswith("val:"):
            pending_value = int(t[4:], 16)
        elif t.startswith("bal:"):
            out.append(balances.get(int(t[4:], 16), 0))
        elif t.startswith("c:") or t.startswith("cr:"):
            enters = t.startswith("cr:") or t.endswith(":1")
            if i < len(obs):
                if pending_value:
                    balances[obs[i][2]] = balances.get(obs[i][2], 0) - pending_value
                    balances[obs[i][0]] = balances.get(obs[i][0], 0) + pending_value
                if enters:
                    out += [obs[i][2], obs[i][3]]
            pending_value = 0
            i += 1
    return out


def trace_events(cc):
    from halmos.sevm import CallContext

    out = []
    for t in cc.trace:
        if isinstance(t, CallContext):
            out.append(t)
            out += trace_events(t)
    return out


def opclass(tok):
    p = tok.split(":")
    if p[0] == "c":
        to = int(p[2], 16)
        tgt = {HEVM: "vm", SVM: "svm", CONSOLE: "console", EOA: "no-code-account", REPORTER: "reporter",
               IDENTITY: "precompile"}.get(to, "nested-frame")
        return f"{KIND_OPCODE[p[1]].lower()}-to-{tgt}"
    return {"p": "prank", "p2": "prank2", "sp": "startPrank", "sp2": "startPrank2", "stop": "stopPrank", "cr": "create",
            "ret": "return", "tx": "new-transaction"}[p[0]]


def has_prank_and_call(toks):
    return any(t.split(":")[0] in ("p", "p2", "sp", "sp2") for t in toks) and any(t[0] == "c" for t in toks)


def needs_value(ops):
    return any(o[0] == "eoav" or (o[0] == "nest" and needs_value(o[2])) or (o[0] == "if" and (needs_value(o[2]) or needs_value(o[3])))
               for o in ops)


def prank_addrs(ops, out):
    for o in ops:
        if o[0] in ("p", "sp", "p2", "sp2") and not isinstance(o[1], tuple):
            out.add(o[1] % A160)
        elif o[0] == "nest":
            prank_addrs(o[2], out)
        elif o[0] == "if":
            prank_addrs(o[2], out)
            prank_addrs(o[3], out)
    return out


def count_nests(ops):
    return sum((1 + count_nests(o[2])) if o[0] == "nest" else (count_nests(o[2]) + count_nests(o[3])) if o[0] == "if" else 0 for o in ops)


def with_deals(ops):
    """histories that move value start by dealing a known balance to every account that can be the payer"""
    if not needs_value(ops) or (ops and ops[0][0] == "deal"):
        return ops
    payers = sorted(prank_addrs(ops, {MAIN}) | {CHILD_BASE + 0x100 * i for i in range(count_nests(ops))})
    return [("deal", a, DEAL_EACH) for a in payers] + ops


class PrankCase:
    def __init__(self, ops, nargs=0, tag=""):
        self.ops, self.nargs, self.tag = with_deals(ops), nargs, tag


def run_prank_cases(ctx, cases, inputs_per_case=1):
    """compile, run on the SEVM, ask Lean, compare. Returns number of violations reported."""
    asm, D = _imports()
    jobs = []   # (case, scn, sr, args, toks)
    t_run = 0.0
    for case in cases:
        comp = Compiler(asm)
        comp.frame(case.ops, is_main=True)
        scn = D.Scenario(dict(comp.contracts), nargs=case.nargs, name=case.tag)
        t0 = time.time()
        sr = sym_run(D, scn)
        t_run += time.time() - t0
        n_inputs = inputs_per_case if case.nargs else 1
        seen = set()
        for j in range(n_inputs if case.nargs == 0 else max(n_inputs, 2)):
            args = []
            for i in range(case.nargs):
                r = ctx.rng.random()
                if r < 0.5:
                    v = ctx.rng.choice(ADDR_POOL) | (ctx.rng.randrange(2) << 200)   # dirty upper bits: uint160 must mask
                else:
                    v = ctx.rng.randrange(W)
                if case.nargs and j < 2 and i == 0:
                    v = (v & ~1) | j          # make sure both sides of an `if` on arg 0 are visited
                args.append(v % W)
            if tuple(args) in seen:
                continue
            seen.add(tuple(args))
            toks = ["tx:cafe:beef:1000"] + flatten(case.ops, args, {"created": 0})
            jobs.append((case, scn, sr, args, toks))
    ctx.extra["prank_sevm_wall_s"] = round(ctx.extra.get("prank_sevm_wall_s", 0) + t_run, 1)
    replies = ctx.lean("Prank").ask(["hist " + " ".join(lean_toks(t)) for *_, t in jobs])
    pending = []
    for (case, scn, sr, args, toks), rep in zip(jobs, replies):
        (m_err, m_obs, m_frames), (s_err, s_obs, s_frames) = parse_hist_reply(rep)
        compare_prank(ctx, D, case, scn, sr, args, toks, (m_err, m_obs, m_frames), (s_err, s_obs, s_frames), pending)
    flush_pending(ctx, pending)


def flush_pending(ctx, pending):
    """cases where the code follows the Model but not the Spec: name the op after which Model and Spec views first differ
    (one batched driver call for all prefixes)"""
    if not pending:
        return
    lines, spans = [], []
    pending = [(lean_toks(p[0]),) + tuple(p[1:]) for p in pending]
    for toks, *_ in pending:
        spans.append((len(lines), len(toks)))
        lines += ["hist " + " ".join(toks[:i]) for i in range(1, len(toks) + 1)]
    replies = ctx.lean("Prank").ask(lines)
    for (toks, hist, replay, impl_err, s_err), (base, n) in zip(pending, spans):
        i = None
        for j in range(n):
            m, s = parse_hist_reply(replies[base + j])
            if m != s:
                i = j
                break
        culprit = opclass(toks[i]) if i is not None else "unknown"
        ctx.violation(f"prank:{culprit}:model-and-code-deviate-from-Foundry",
                      f"history [{hist}] (first divergence at `{toks[i] if i is not None else '?'}`): halmos observes "
                      f"{replay['observed']} / error={impl_err}, Spec.Foundry says {replay['spec']} / error={s_err}", replay)


def compare_prank(ctx, D, case, scn, sr, args, toks, model, spec, pending):
    m_err, m_obs, m_frames = model
    s_err, s_obs, s_frames = spec
    hist = " ".join(toks)
    ctx.case(hist, nontrivial=has_prank_and_call(toks))
    for t in lean_toks(toks):
        ctx.count("op:" + opclass(t))
    if any(t.startswith("val:") for t in toks):
        ctx.count("prank:history-with-value-transfer")
    ctx.count(f"hist-len:{min(len([t for t in lean_toks(toks) if t != 'ret']) - 1, 9)}")
    replay = {"kind": "prank", "ops": case.ops, "nargs": case.nargs, "args": [hex(a) for a in args], "flat": hist}
    if sr.escaped:
        ctx.violation("prank:exception-escapes-SEVM.run:" + sr.escaped.split(":")[0],
                      f"history [{hist}]: {sr.escaped[:200]}", replay)
        return
    # select the path the inputs follow
    inp = D.Inputs(args, 0xCAFE, 0xBEEF, 0, {}, 0)
    chosen = []
    for p in sr.paths:
        pe = D.PathEval(inp)
        try:
            if pe.satisfies(p.conds):
                chosen.append((p, pe))
        except D.Unknown:
            ctx.count("prank:eval-unknown")
    if len(chosen) != 1:
        if case.nargs == 0 or len(chosen) > 1:
            ctx.violation(f"prank:paths-covering-input:{len(chosen)}", f"history [{hist}]: {len(chosen)} paths cover the input "
                          f"(kinds {[p.kind for p in sr.paths]})", replay)
        else:
            ctx.count("prank:input-uncovered")
        return
    p, pe = chosen[0]
    impl_err = p.kind.startswith("stuck:")
    if not impl_err and p.kind != "success":
        ctx.violation(f"prank:unexpected-halt:{p.kind}", f"history [{hist}] ends in {p.kind}", replay)
        return
    ctx.count("prank:path-error" if impl_err else "prank:path-ok")
    # tx:… sets msg.sender/tx.origin symbolically in the SEVM run: map the symbols
    env_sender, env_origin = 0xCAFE, 0xBEEF
    got = None
    if not impl_err:
        data = pe.bytes_of(p.data) or b""
        got = [int.from_bytes(data[i:i + 32], "big") for i in range(0, len(data), 32)]
    exp_m = None if m_err else expected_buffer(toks, m_obs)
    exp_s = None if s_err else expected_buffer(toks, s_obs)
    # the internal call trace (successful paths): the message halmos built for every call/creation, incl. those that enter no frame
    tr = None
    if not impl_err:
        prank_sels = {SEL[k].to_bytes(4, "big") for k in ("prank", "prank2", "startPrank", "startPrank2", "stopPrank")}
        evs = [e for e in trace_events(p.ex.context)
               if not (pe.word(e.message.target) == HEVM and bytes(e.message.data[:4].unwrap()) in prank_sels)]
        tr = [(pe.word(e.message.target), pe.word(e.message.caller), pe.word(e.message.origin)) for e in evs]
        replay["trace"] = [[hex(x) for x in t] for t in tr]
    mo = [(o[1], o[2], o[3]) for o in m_obs]
    so = [(o[1], o[2], o[3]) for o in s_obs]
    model_ok = (impl_err == m_err) and (impl_err or (got == exp_m and tr == mo))
    spec_ok = (impl_err == s_err) and (impl_err or (got == exp_s and tr == so))
    if not impl_err and got == exp_s and tr != so:
        ctx.count("prank:trace-only-deviation")
    if spec_ok and model_ok:
        if (m_err, m_obs, m_frames) != (s_err, s_obs, s_frames):
            # observable behaviour agrees, internal views differ (e.g. unobservable message of a cheat call)
            ctx.count("prank:views-differ-unobservably")
        return
    replay.update({"observed": None if got is None else [hex(x) for x in got], "impl_error": impl_err,
                   "model": None if exp_m is None else [hex(x) for x in exp_m], "model_error": m_err,
                   "spec": None if exp_s is None else [hex(x) for x in exp_s], "spec_error": s_err,
                   "contracts": {hex(a): c.hex() for a, c in scn.contracts.items()}})
    if spec_ok and not model_ok:
        # the Model no longer describes the code (the Spec does): a broken correspondence obligation, raised at the END of
        # correspond() so that the search for inputs on which the code violates the Spec still covers everything
        STALE.append(f"C14 model stale: SEVM agrees with Spec.Foundry but not with Model.Prank on [{hist}] "
                     f"observed={replay['observed']} model={replay['model']} trace={replay.get('trace')}")
        ctx.count("prank:model-stale")
        return
    if model_ok:
        pending.append((toks, hist, replay, impl_err, s_err))
    else:
        # neither: find the first observation that differs from the Spec
        k = "error-status" if impl_err != s_err else ("buffer" if got != exp_s else "internal-message")
        idx = None
        if k == "internal-message":
            call_toks = [t for t in toks if t.startswith("c:") or t.startswith("cr:")]
            j = next((j for j in range(max(len(tr), len(so))) if j >= len(tr) or j >= len(so) or tr[j] != so[j]), None)
            if j is not None and j < len(call_toks):
                k += ":" + opclass(call_toks[j])
        if got is not None and exp_s is not None:
            idx = next((j for j in range(max(len(got), len(exp_s))) if j >= len(got) or j >= len(exp_s) or got[j] != exp_s[j]), None)
        ev = None
        if idx is not None:
            # which word of the buffer: walk the tokens the way expected_buffer does
            words = []
            for t in toks:
                if t.startswith("bal:"):
                    words.append("balance-after-value-transfer")
                elif t.startswith("cr:") or (t.startswith("c:") and t.endswith(":1")):
                    words += [opclass(t) + ":sender", opclass(t) + ":origin"]
            if idx < len(words):
                ev = words[idx]
                # the call / prank-family event that precedes the deviating observation (usually the culprit)
                pos, seen = None, 0
                for n_t, t in enumerate(toks):
                    w = 1 if t.startswith("bal:") else 2 if (t.startswith("cr:") or (t.startswith("c:") and t.endswith(":1"))) else 0
                    if seen + w > idx:
                        pos = n_t
                        break
                    seen += w
                prev = next((t for t in reversed(lean_toks(toks[:pos] if pos is not None else [])) if t != "ret" and not t.startswith("tx:")), None)
                if toks[pos].startswith("bal:"):
                    prev = next((t for t in reversed(toks[:pos]) if t.startswith("c:")), prev)
                if prev:
                    ev += ":after-" + opclass(prev)
        ctx.violation(f"prank:{k}:{ev or 'n/a'}",
                      f"history [{hist}]: halmos observes {replay['observed']} / error={impl_err}; Spec.Foundry {replay['spec']} / "
                      f"error={s_err}; Model.Prank {replay['model']} / error={m_err}", replay)


ALPHABET = [
    ("p", 0xA11CE), ("p2", 0xA11CE, 0x0716), ("sp", 0xB0B), ("sp2", 0xB0B, 0x0717), ("stop",),
    ("rep", "c"), ("rep", "s"), ("rep", "d"), ("cr",),
    ("cheat", "vm"), ("cheat", "svm"), ("cheat", "console"), ("eoa", "c"), ("eoav", 3), ("pre", "c"),
    ("nest", "c", [("rep", "c")]),
    ("nest", "c", [("p", 0xCA11), ("rep", "c"), ("rep", "c")]),
    ("nest", "d", [("rep", "c"), ("sp2", 0xD00D, 0xD00E), ("rep", "s")]),
]


def clone(op):
    """fresh list objects so that id()-keyed child addresses do not collide"""
    if op[0] == "nest":
        return ("nest", op[1], [clone(o) for o in op[2]])
    if op[0] == "if":
        return ("if", op[1], [clone(o) for o in op[2]], [clone(o) for o in op[3]])
    return tuple(op)


def random_addr(rng, is_main, nargs, pool):
    if is_main and nargs and rng.random() < 0.3:
        return ("arg", rng.randrange(nargs))
    return rng.choice(pool)


def random_ops(rng, n, depth, is_main, nargs, pool, static=False):
    ops = []
    for _ in range(n):
        r = rng.random()
        if r < 0.34:
            k = rng.choice(PRANK_OPS)
            if k in ("p", "sp"):
                ops.append((k, random_addr(rng, is_main, nargs, pool)))
            elif k in ("p2", "sp2"):
                ops.append((k, random_addr(rng, is_main, nargs, pool), random_addr(rng, is_main, nargs, pool)))
            else:
                ops.append(("stop",))
        elif r < 0.56:
            ops.append(("rep", rng.choice(["c", "c", "s", "d", "cc"])))
        elif r < 0.64:
            ops.append(("cr",) if not static else ("rep", "s"))
        elif r < 0.76:
            ops.append(("cheat", rng.choice(["vm", "vmdeal", "svm", "console", "vmstatic"])))
        elif r < 0.80:
            q = rng.random()
            if q < 0.4:
                ops.append(("eoa", rng.choice(["c", "s", "d", "cc"])))
            elif q < 0.7 or static or nargs:
                ops.append(("pre", rng.choice(["c", "s", "d", "cc"])))
            else:
                ops.append(("eoav", rng.randrange(1, 10)))
        elif r < 0.94 and depth > 0:
            kind = rng.choice(["c", "c", "s", "d", "cc"])
            ops.append(("nest", kind, random_ops(rng, rng.randrange(0, 4), depth - 1, False, 0, pool, static or kind == "s")))
        elif is_main and nargs:
            ops.append(("if", rng.randrange(nargs), random_ops(rng, rng.randrange(0, 3), depth, True, nargs, pool, static),
                        random_ops(rng, rng.randrange(0, 3), depth, True, nargs, pool, static)))
        else:
            ops.append(("rep", "c"))
    return ops


DIRECTED = [
    # the classic uses
    [("p", 0xA11CE), ("rep", "c"), ("rep", "c")],
    [("sp", 0xB0B), ("rep", "c"), ("rep", "s"), ("stop",), ("rep", "c")],
    [("p2", 0xA11CE, 0x0716), ("nest", "c", [("rep", "c"), ("nest", "c", [("rep", "c")])]), ("rep", "c")],
    # cheatcode endpoints between prank and call
    [("p", 0xA11CE), ("cheat", "vm"), ("cheat", "svm"), ("cheat", "vmstatic"), ("rep", "c"), ("rep", "c")],
    [("p", 0xA11CE), ("cheat", "console"), ("rep", "c"), ("rep", "c")],
    [("sp2", 0xB0B, 0x0717), ("cheat", "console"), ("rep", "c"), ("stop",), ("rep", "c")],
    # prank while active
    [("p", 1), ("p", 2)], [("sp", 1), ("p", 2)], [("p", 1), ("sp2", 2, 3)], [("sp", 1), ("sp", 1)],
    [("p", 1), ("rep", "c"), ("p", 2), ("rep", "c")], [("sp", 1), ("stop",), ("sp", 2), ("rep", "c")],
    [("stop",), ("stop",), ("p", 5), ("stop",), ("rep", "c")],
    # nested frames have their own record; the parent's survives the return
    [("sp", 0xB0B), ("nest", "c", [("p", 0xCA11), ("rep", "c"), ("rep", "c")]), ("rep", "c")],
    [("nest", "c", [("sp", 0xCA11), ("rep", "c")]), ("rep", "c")],
    [("nest", "c", [("p", 0xCA11)]), ("rep", "c"), ("nest", "c", [("rep", "c")])],
    [("p", 0xA11CE), ("nest", "c", [("p", 0xCA11), ("nest", "c", [("p", 0xD00D), ("rep", "c")]), ("rep", "c")]), ("rep", "c")],
    [("sp", 0xB0B), ("nest", "c", [("p", 0xB0B), ("p", 0xB0B)]), ("rep", "c")],
    # creation
    [("p", 0xA11CE), ("cr",), ("cr",)], [("sp2", 0xB0B, 0x0717), ("cr",), ("rep", "c"), ("stop",), ("cr",)],
    # delegatecall / callcode / eoa
    [("p", 0xA11CE), ("rep", "d"), ("rep", "c")], [("p2", 0xA11CE, 0x0716), ("rep", "d"), ("rep", "c")],
    [("sp2", 0xB0B, 0x0717), ("nest", "d", [("rep", "c"), ("rep", "d")]), ("rep", "cc")],
    [("p", 0xA11CE), ("eoa", "c"), ("rep", "c")], [("p", 0xA11CE), ("eoa", "s"), ("rep", "c")],
    [("p", 0xA11CE), ("rep", "cc"), ("rep", "c")],
    # code-less accounts and precompiles are ordinary call targets: the next call, whatever its target, takes the prank
    [("p", 0xA11CE), ("eoav", 3), ("rep", "c")], [("p", 0xA11CE), ("pre", "c"), ("rep", "c")], [("p", 0xA11CE), ("pre", "s"), ("rep", "c")],
    [("sp", 0xB0B), ("eoav", 3), ("eoav", 4), ("stop",), ("eoav", 5), ("rep", "c")],
    [("p2", 0xA11CE, 0x0716), ("eoav", 1), ("eoav", 2), ("rep", "c")],
    [("p", 0xA11CE), ("nest", "c", [("eoav", 7), ("p", 0xB0B), ("eoav", 2), ("rep", "c")]), ("eoav", 1)],
    [("sp", 0xB0B), ("nest", "d", [("eoav", 7)]), ("pre", "d"), ("pre", "cc"), ("eoav", 1)],
    [("p", 0xA11CE), ("cheat", "vm"), ("eoav", 9), ("rep", "c"), ("bal", 0xA11CE), ("bal", MAIN), ("bal", EOA)],
    # pranking to the special addresses themselves
    [("p", HEVM), ("rep", "c")], [("p", 0), ("rep", "c"), ("rep", "c")], [("p2", A160 - 1, 0), ("rep", "c"), ("rep", "c")],
]

DIRECTED_SYMBOLIC = [
    # branch copies: each path consumes / keeps its own record
    [("p", 0xA11CE), ("if", 0, [("rep", "c")], []), ("rep", "c")],
    [("sp", ("arg", 1)), ("if", 0, [("stop",)], [("rep", "d")]), ("rep", "c")],
    [("if", 0, [("p", 0xA11CE)], [("sp2", 0xB0B, ("arg", 1))]), ("nest", "c", [("rep", "c")]), ("rep", "c"), ("rep", "c")],
    [("p2", ("arg", 0), ("arg", 1)), ("rep", "c"), ("rep", "c")],
    [("p", 0xA11CE), ("if", 0, [("p", 1)], [("rep", "c")]), ("rep", "c")],
]


def prank_part(ctx):
    rng = ctx.rng
    lits = [v for v in harvest_literals() if v < A160]
    pool = ADDR_POOL + lits[:40] + [rng.choice(lits) for _ in range(10)] if lits else ADDR_POOL
    cases = [PrankCase([clone(o) for o in ops], 0, "directed") for ops in DIRECTED]
    cases += [PrankCase([clone(o) for o in ops], 2, "directed-sym") for ops in DIRECTED_SYMBOLIC]
    # exhaustive small scope
    max_len = 3
    n_ex = 0
    for n in range(1, max_len + 1):
        for combo in itertools.product(ALPHABET, repeat=n):
            # a history without any prank-family op is trivially right; keep only the short ones
            names = [c[0] for c in combo]
            if not any(k in PRANK_OPS[:4] for k in names):
                if n > 2:
                    continue
            elif n > 2:
                # nothing is observable when a single prank-family op is followed by no call or creation
                first = next(i for i, k in enumerate(names) if k in PRANK_OPS[:4])
                if sum(k in PRANK_OPS[:4] for k in names) == 1 and not any(k in ("rep", "cr", "nest", "eoa", "eoav", "pre", "cheat") for k in names[first + 1:]):
                    continue
            cases.append(PrankCase([clone(o) for o in combo], 0, f"exh{n}"))
            n_ex += 1
    scope = (f"all histories of length <= {max_len} over the {len(ALPHABET)}-symbol alphabet {{prank, prank2, startPrank, startPrank2, "
             f"stopPrank, call/staticcall/delegatecall reporter, create, vm/svm/console cheat call, call to no-code account without and with value, identity precompile, 3 "
             f"nested-frame shapes}} that contain a prank-family op (plus all of length <= 2): {n_ex} programs")
    if ctx.tier != "quick":
        small = [ALPHABET[i] for i in (0, 1, 3, 4, 5, 7, 8, 10, 11, 14)]
        n4 = 0
        for combo in itertools.product(small, repeat=4):
            if any(c[0] in PRANK_OPS[:4] for c in combo):
                cases.append(PrankCase([clone(o) for o in combo], 0, "exh4"))
                n4 += 1
        scope += f"; all of length 4 over a 10-symbol sub-alphabet with a prank-family op: {n4} programs"
    ctx.extra["exhaustive"] = True
    ctx.extra["exhaustive_scope"] = scope
    # random deeper histories
    for _ in range(ctx.scale(600, 6000)):
        nargs = rng.choice([0, 0, 2, 3])
        n = rng.randrange(3, 8)
        cases.append(PrankCase(random_ops(rng, n, rng.randrange(0, 4), True, nargs, pool), nargs, "random"))
    for c in cases:
        ctx.count("prank-case:" + c.tag)
    ctx.sample({"history": cases[2].ops, "kind": "prank"})
    # batches keep the driver request small
    B = 2500
    for i in range(0, len(cases), B):
        run_prank_cases(ctx, cases[i:i + B], inputs_per_case=2)


# ======================================================================================================================
# D. a later transaction
# ======================================================================================================================

def later_tx_part(ctx):
    asm, D = _imports()
    from halmos.__main__ import mk_solver
    from halmos.bytevec import ByteVec
    from halmos.sevm import Message, Path, con_addr
    from halmos.utils import EVM
    from z3 import BitVec

    tx2 = 0x1100
    jobs = []
    for first in ([("sp", 0xB0B)], [("p", 0xA11CE)], [("sp2", 0xB0B, 0x0717), ("rep", "c")], [("p2", 1, 2)],
                  [("nest", "c", [("sp", 0xCA11)])], [("sp", 0xB0B), ("nest", "c", [("sp", 0xCA11), ("rep", "c")]), ("cr",)]):
        ops1 = [clone(o) for o in first]
        comp = Compiler(asm)
        comp.frame(ops1, is_main=True)
        ops2 = [("rep", "c"), ("cr",), ("nest", "c", [("rep", "c")]), ("sp", 0xD00D), ("rep", "c")]
        second = Compiler(asm)
        second.next_child = 0x8000
        second.frame(ops2, is_main=True)
        contracts = dict(second.contracts)
        contracts[tx2] = contracts.pop(MAIN)
        contracts.update(comp.contracts)
        scn = D.Scenario(contracts, nargs=0)
        sr = sym_run(D, scn)
        if sr.escaped or len(sr.paths) != 1 or sr.paths[0].kind != "success":
            raise RuntimeError(f"later-tx: first transaction {first}: {sr.escaped} {[p.kind for p in sr.paths]}")
        ex1 = sr.paths[0].ex
        st = {"created": 0}
        toks1 = ["tx:cafe:beef:1000"] + flatten(ops1, [], st)
        for target, ops in ((tx2, ops2), (MAIN, ops1)):
            msg = Message(target=con_addr(target), caller=BitVec("msg_sender2", 160), origin=BitVec("tx_origin2", 160), value=0,
                          data=ByteVec(), call_scheme=EVM.CALL)
            out = list(sr.sevm.run_message(ex1, msg, Path(mk_solver(sr.sevm.options))))
            toks2 = flatten(ops, [], dict(st))
            hist = toks1 + ["ret", f"tx:cafe2:beef2:{target:x}"] + toks2
            jobs.append((first, target, out, toks1, toks2, hist))
    replies = ctx.lean("Prank").ask(["hist " + " ".join(j[-1]) for j in jobs])
    for (first, target, out, toks1, toks2, hist), rep in zip(jobs, replies):
        (m_err, m_obs, _), (s_err, s_obs, _) = parse_hist_reply(rep)
        h = " ".join(hist)
        ctx.case("later-tx:" + h)
        ctx.count("later-tx")
        replay = {"kind": "later-tx", "first": first, "target": hex(target), "flat": h}
        if len(out) != 1:
            ctx.violation("later-tx:paths", f"[{h}] second transaction has {len(out)} paths", replay)
            continue
        e2 = out[0]
        err = e2.context.output.error
        impl_err = err is not None or e2.context.output.data is None
        n1 = len([t for t in toks1 if t[0] == "c"])
        if impl_err != s_err:
            if impl_err != m_err:
                STALE.append(f"C14 model stale on later-tx [{h}]: error={err}")
                continue
            ctx.violation("later-tx:prank-survives-transaction:error-status",
                          f"[{h}] second transaction error={err}; Spec.Foundry error={s_err}", replay)
            continue
        if impl_err:
            continue
        pe = D.PathEval(D.Inputs([], 0xCAFE, 0xBEEF, 0, {}, 0))
        pe.env["msg_sender2"] = 0xCAFE2
        pe.env["tx_origin2"] = 0xBEEF2
        data = pe.bytes_of(e2.context.output.data) or b""
        got = [int.from_bytes(data[i:i + 32], "big") for i in range(0, len(data), 32)]
        exp_m = expected_buffer(toks2, m_obs[n1:])
        exp_s = expected_buffer(toks2, s_obs[n1:])
        if got != exp_s:
            key = "later-tx:prank-survives-transaction" if got == exp_m else "later-tx:buffer"
            ctx.violation(key, f"[{h}] second transaction observes {[hex(x) for x in got]}, Spec.Foundry {[hex(x) for x in exp_s]}, "
                          f"Model.Prank {[hex(x) for x in exp_m]}", replay)
        elif got != exp_m:
            STALE.append(f"C14 model stale on later-tx [{h}]: {got} vs {exp_m}")


# ======================================================================================================================
# B. state cheatcodes
# ======================================================================================================================

TARGET = 0x2000
OTHER = 0x3000
NOCODE = 0x4444
OUT = 0x800
N_READS = 12


def getter_code(asm, variant):
    if variant == 0:      # returns sload(calldata[0])
        return asm.assemble([0, "CALLDATALOAD", "SLOAD", 0, "MSTORE", 32, 0, "RETURN"])
    if variant == 1:      # returns sload(calldata[0]) + 1
        return asm.assemble([0, "CALLDATALOAD", "SLOAD", 1, "ADD", 0, "MSTORE", 32, 0, "RETURN"])
    if variant == 2:      # returns a constant
        return asm.assemble([("push", 0xC0FFEE), 0, "MSTORE", 32, 0, "RETURN"])
    if variant == 3:
        return b""
    return asm.assemble([0, "CALLDATALOAD", "SLOAD", 0, "MSTORE", 32, 0, "RETURN", "JUMPDEST"] + ["JUMPDEST"] * 40)


def val_items(asm, v):
    return asm.calldata_arg(v[1]) if isinstance(v, tuple) else [("push", v)]


def val_value(v, args):
    return args[v[1]] if isinstance(v, tuple) else v


def state_program(asm, cheats, slot):
    items = []
    for c in cheats:
        k = c[0]
        if k == "etch":
            code = c[2]
            words = [code[i:i + 32].ljust(32, b"\0") for i in range(0, len(code), 32)]
            a = [val_items(asm, c[1]), [("push", 0x40)], [("push", len(code))]] + [[("push", int.from_bytes(w, "big"), 32)] for w in words]
            items += asm.cheat_call(asm.HEVM_ADDRESS, SEL["etch"], a)
        else:
            items += asm.cheat_call(asm.HEVM_ADDRESS, SEL[k], [val_items(asm, x) for x in c[1:]])

    def put(i, v):
        return v + [("push", OUT + 32 * i), "MSTORE"]

    def getter(i, addr):
        return val_items(asm, slot) + [0, "MSTORE", 32, ("push", OUT + 32 * i), 32, 0, 0, ("push", addr, 20), "GAS", "CALL", "POP"]

    items += put(0, [("push", TARGET), "BALANCE"]) + put(1, [("push", OTHER), "BALANCE"])
    items += getter(2, TARGET) + getter(3, OTHER)
    items += put(4, [("push", TARGET), "EXTCODESIZE"]) + put(5, [("push", OTHER), "EXTCODESIZE"])
    for i, op in enumerate(["TIMESTAMP", "NUMBER", "BASEFEE", "CHAINID", "COINBASE", "PREVRANDAO"]):
        items += put(6 + i, [op])
    # vm.load of both accounts (the reference EVM sees a call to an empty account: these two words are checked against
    # Spec.Foundry.load / Model.hevmLoad instead)
    for i, addr in ((12, TARGET), (13, OTHER), (14, NOCODE)):
        items += asm.cheat_call(asm.HEVM_ADDRESS, SEL["load"], [[("push", addr)], val_items(asm, slot)], ret_size=32)
        items += [("push", asm.CHEAT_RET_OFFSET), "MLOAD", ("push", OUT + 32 * i), "MSTORE"]
    items += [("push", 32 * 15), ("push", OUT), "RETURN"]
    return asm.assemble(items)


# ---- multi-path contexts: a forking sub-context (CREATE with a forking constructor / CALL to a forking callee), then
# ---- read-modify-write cheats: every path's reads must be exactly what THAT path stored

FORKER = 0x5000
MSLOT = 5            # a slot of MAIN's own storage


def fork_code(asm, even_ok, odd_ok):
    """branches on the lowest bit of tx.origin; each side returns (empty data / empty runtime) or reverts"""
    def out(ok):
        return [0, 0, "RETURN" if ok else "REVERT"]
    return asm.assemble(["ORIGIN", ("push", 1, 1), "AND", ("ref", "odd"), "JUMPI"] + out(even_ok) + [("label", "odd")] + out(odd_ok))


def reads_items(asm, slot):
    def put(i, v):
        return v + [("push", OUT + 32 * i), "MSTORE"]

    def getter(i, addr):
        return [("push", slot), 0, "MSTORE", 32, ("push", OUT + 32 * i), 32, 0, 0, ("push", addr, 20), "GAS", "CALL", "POP"]

    items = put(0, [("push", TARGET), "BALANCE"]) + put(1, [("push", OTHER), "BALANCE"])
    items += getter(2, TARGET) + getter(3, OTHER)
    items += put(4, [("push", TARGET), "EXTCODESIZE"]) + put(5, [("push", OTHER), "EXTCODESIZE"])
    for i, op in enumerate(["TIMESTAMP", "NUMBER", "BASEFEE", "CHAINID", "COINBASE", "PREVRANDAO"]):
        items += put(6 + i, [op])
    for i, addr in ((12, TARGET), (13, OTHER), (14, NOCODE)):
        items += asm.cheat_call(asm.HEVM_ADDRESS, SEL["load"], [[("push", addr)], [("push", slot)]], ret_size=32)
        items += [("push", asm.CHEAT_RET_OFFSET), "MLOAD", ("push", OUT + 32 * i), "MSTORE"]
    items += put(15, [("push", MSLOT), "SLOAD"])
    items += [("push", 32 * 16), ("push", OUT), "RETURN"]
    return items


def multipath_program(asm, init, forks, incs, slot):
    """init: plain cheats [(name, args…)] with concrete args; forks: [(kind 'create'|'call', even_ok, odd_ok)];
    incs: [('storeinc', who, d) | ('dealinc', who, d) | ('sstoreinc', d) | ('etchodd', who, variant) | ('storeodd', who, v)]"""
    items = []
    for c in init:
        items += asm.cheat_call(asm.HEVM_ADDRESS, SEL[c[0]], [[("push", x)] for x in c[1:]])
    contracts = {}
    for n_f, (kind, even_ok, odd_ok) in enumerate(forks):
        code = fork_code(asm, even_ok, odd_ok)
        if kind == "create":
            n = len(code)
            assert n <= 32
            items += [("push", int.from_bytes(code, "big"), n), 0, "MSTORE", ("push", n), ("push", 32 - n), 0, "CREATE", "POP"]
        elif kind == "create2":
            n = len(code)
            items += [("push", int.from_bytes(code, "big"), n), 0, "MSTORE", ("push", 0x1234 + n_f), ("push", n), ("push", 32 - n), 0, "CREATE2", "POP"]
        else:
            addr = FORKER + 0x100 * n_f
            contracts[addr] = code
            items += [0, 0, 0, 0, 0, ("push", addr, 20), "GAS", "CALL", "POP"]
    for c in incs:
        k = c[0]
        if k == "storeinc":
            items += asm.cheat_call(asm.HEVM_ADDRESS, SEL["load"], [[("push", c[1])], [("push", slot)]], ret_size=32)
            items += asm.cheat_call(asm.HEVM_ADDRESS, SEL["store"], [[("push", c[1])], [("push", slot)],
                                                                       [("push", asm.CHEAT_RET_OFFSET), "MLOAD", ("push", c[2]), "ADD"]])
        elif k == "dealinc":
            items += asm.cheat_call(asm.HEVM_ADDRESS, SEL["deal"], [[("push", c[1])], [("push", c[1]), "BALANCE", ("push", c[2]), "ADD"]])
        elif k == "sstoreinc":
            items += [("push", MSLOT), "SLOAD", ("push", c[1]), "ADD", ("push", MSLOT), "SSTORE"]
        elif k == "etchodd":
            code = getter_code(asm, c[2])
            words = [code[i:i + 32].ljust(32, b"\0") for i in range(0, len(code), 32)]
            a = [[("push", c[1])], [("push", 0x40)], [("push", len(code))]] + [[("push", int.from_bytes(w, "big"), 32)] for w in words]
            items += asm.if_then(["ORIGIN", ("push", 1, 1), "AND"], asm.cheat_call(asm.HEVM_ADDRESS, SEL["etch"], a))
        elif k == "storeodd":
            items += asm.if_then(["ORIGIN", ("push", 1, 1), "AND"],
                                 asm.cheat_call(asm.HEVM_ADDRESS, SEL["store"], [[("push", c[1])], [("push", slot)], [("push", c[2])]]))
        else:
            raise ValueError(c)
    items += reads_items(asm, slot)
    return asm.assemble(items), contracts


def multipath_part(ctx):
    asm, D = _imports()
    rng = ctx.rng
    outcomes = [(False, False), (True, True), (False, True), (True, False)]
    cases = []
    # directed: the creator stores, a creation whose constructor forks and fails on both paths, then load / store+1
    for kind in ("create", "create2", "call"):
        for oc in outcomes:
            cases.append(([("store", TARGET, 0, 1)], [(kind,) + oc], [("storeinc", TARGET, 1)], 0))
            cases.append(([("deal", TARGET, 10), ("store", MAIN, MSLOT, 4)], [(kind,) + oc],
                          [("dealinc", TARGET, 1), ("sstoreinc", 1), ("storeinc", MAIN, 2) if False else ("sstoreinc", 2)], 0))
            cases.append(([], [(kind,) + oc], [("etchodd", TARGET, 1), ("storeodd", OTHER, 9)], 0))
    for _ in range(ctx.scale(24, 300)):
        init = []
        if rng.random() < 0.7:
            init.append(("store", rng.choice([TARGET, OTHER]), rng.choice([0, 1, 3]), rng.randrange(1, 50)))
        init.append(("deal", TARGET, rng.randrange(1, 1000)))
        forks = [(rng.choice(["create", "create", "create2", "call"]),) + rng.choice(outcomes + [(False, False)] * 2) for _ in range(rng.choice([1, 1, 2]))]
        incs = []
        for _ in range(rng.randrange(1, 4)):
            k = rng.choice(["storeinc", "storeinc", "dealinc", "sstoreinc", "etchodd", "storeodd"])
            if k == "storeinc":
                incs.append((k, rng.choice([TARGET, TARGET, OTHER, MAIN]), rng.randrange(1, 9)))
            elif k == "dealinc":
                incs.append((k, TARGET, rng.randrange(1, 9)))
            elif k == "sstoreinc":
                incs.append((k, rng.randrange(1, 9)))
            elif k == "etchodd":
                incs.append((k, rng.choice([TARGET, OTHER]), rng.choice([1, 2, 4])))
            else:
                incs.append((k, rng.choice([TARGET, OTHER]), rng.randrange(1, 99)))
        cases.append((init, forks, incs, rng.choice([0, 1, 3])))
    reads_prog = None
    lines, meta = [], []
    for init, forks, incs, slot in cases:
        code, extra = multipath_program(asm, init, forks, incs, slot)
        contracts = {MAIN: code, TARGET: getter_code(asm, 0), OTHER: getter_code(asm, 0)}
        contracts.update(extra)
        scn = D.Scenario(contracts, nargs=0)
        sr = sym_run(D, scn, storage_layout=rng.choice(["solidity", "generic"]))
        reads_prog = asm.assemble(reads_items(asm, slot))
        for f in forks:
            ctx.count(f"multipath:fork:{f[0]}:{'ok' if f[1] else 'revert'}/{'ok' if f[2] else 'revert'}")
        for odd in (0, 1):
            inp = D.Inputs([], 0xCAFE, 0xBEEE | odd, 0, {}, 0)
            req = ["w reset", f"w param origin {inp.origin:x}", f"w code {MAIN:x} {reads_prog.hex()}",
                   f"w code {TARGET:x} {contracts[TARGET].hex()}", f"w code {OTHER:x} {contracts[OTHER].hex()}"]
            for c in init:
                req.append(f"cheat {c[0]} " + " ".join(f"{x:x}" for x in c[1:]))
            for c in incs:
                if c[0] == "storeinc":
                    req.append(f"cheatinc store {c[1]:x} {slot:x} {c[2]:x}")
                elif c[0] == "dealinc":
                    req.append(f"cheatinc deal {c[1]:x} {c[2]:x}")
                elif c[0] == "sstoreinc":
                    req.append(f"cheatinc store {MAIN:x} {MSLOT:x} {c[1]:x}")
                elif c[0] == "etchodd" and odd:
                    req.append(f"cheat etch {c[1]:x} {getter_code(asm, c[2]).hex() or '-'}")
                elif c[0] == "storeodd" and odd:
                    req.append(f"cheat store {c[1]:x} {slot:x} {c[2]:x}")
            n_cheats = len(req) - 5
            req += [f"sexec {inp.caller:x} {MAIN:x} 0 - 30000", f"loads {TARGET:x} {slot:x}", f"loads {OTHER:x} {slot:x}", f"loads {NOCODE:x} {slot:x}"]
            meta.append((init, forks, incs, slot, scn, sr, inp, len(lines), n_cheats, odd))
            lines += req
    replies = ctx.lean("Prank").ask(lines)
    names = ["balance(target)", "balance(other)", "sload(target)", "sload(other)", "codesize(target)", "codesize(other)",
             "timestamp", "number", "basefee", "chainid", "coinbase", "prevrandao", "vm.load(target)", "vm.load(other)",
             "vm.load(nocode)", "sload(self)"]
    for init, forks, incs, slot, scn, sr, inp, base, n_cheats, odd in meta:
        rep = replies[base + 5 + n_cheats:]
        sexec, l1, l2, l3 = rep[:4]
        desc = f"init {init}; forks {forks}; then {incs}; slot {slot}; origin {'odd' if odd else 'even'}"
        ctx.case(("multipath", desc))
        ctx.count("multipath:case")
        replay = {"kind": "multipath", "init": init, "forks": forks, "incs": incs, "slot": slot, "origin": hex(inp.origin),
                  "contracts": {hex(a): c.hex() for a, c in scn.contracts.items()}}
        if "error" in replies[base + 5:base + 5 + n_cheats]:
            STALE.append(f"multipath: the Model rejects a cheat of {desc}")
            continue
        if sr.escaped:
            ctx.violation("multipath:exception-escapes-SEVM.run:" + sr.escaped.split(":")[0], f"{desc}: {sr.escaped[:200]}", replay)
            continue
        chosen = []
        for p in sr.paths:
            pe = D.PathEval(inp)
            try:
                if pe.satisfies(p.conds):
                    chosen.append((p, pe))
            except D.Unknown as u:
                ctx.count("multipath:eval-unknown:" + str(u)[:24])
        if len(chosen) != 1:
            ctx.violation(f"multipath:paths-covering-input:{len(chosen)}", f"{desc}: {len(chosen)} of {len(sr.paths)} paths cover the input", replay)
            continue
        ctx.count(f"multipath:paths:{len(sr.paths)}")
        p, pe = chosen[0]
        if p.kind != "success":
            ctx.violation(f"multipath:unexpected-halt:{p.kind}", f"{desc}: path ends in {p.kind} ({p.error})", replay)
            continue
        try:
            data = pe.bytes_of(p.data)
        except D.Unknown as u:
            ctx.count("multipath:eval-unknown-data:" + str(u)[:24])
            continue
        got = [int.from_bytes(data[i:i + 32], "big") for i in range(0, len(data), 32)]
        m = re.match(r"halt=(\S+) data=(\S+)", sexec)
        if not m or m.group(1) != "success":
            raise RuntimeError(f"reference EVM did not succeed on the reads program: {sexec[:100]}")
        ref = bytes.fromhex(m.group(2))
        ref = [int.from_bytes(ref[i:i + 32], "big") for i in range(0, len(ref), 32)]
        loads = [tuple(int(y.split("=")[1], 16) for y in l.split(" ")) for l in (l1, l2, l3)]
        exp = ref[:12] + [l[1] for l in loads] + ref[15:16]
        bad = [names[i] for i in range(16) if got[i] != exp[i]]
        if bad:
            fk = "+".join(sorted({f"{f[0]}-fork-{'both-fail' if not (f[1] or f[2]) else 'both-ok' if (f[1] and f[2]) else 'mixed'}" for f in forks}))
            replay.update({"observed": [hex(x) for x in got], "expected": [hex(x) for x in exp]})
            ctx.violation(f"multipath:{bad[0]}-after-{fk}",
                          f"{desc}: this path reads {bad} = {[hex(got[names.index(b)]) for b in bad]}, but what this path stored gives "
                          f"{[hex(exp[names.index(b)]) for b in bad]} (reference EVM / Spec.Foundry on the path's own cheat sequence)", replay)
        elif [l[0] for l in loads] != [l[1] for l in loads]:
            STALE.append(f"multipath: Model.hevmLoad differs from Spec.Foundry.load on {desc}")


def gen_state_case(rng, pool, nargs=4):
    def val(small=False, cap=None):
        r = rng.random()
        if r < 0.35:
            return ("arg", rng.randrange(nargs))
        v = rng.choice(pool) if r < 0.8 else rng.randrange(W)
        if small:
            v %= 1 << 16
        if cap:
            v %= cap
        return v

    cheats = []
    for _ in range(rng.randrange(1, 5)):
        k = rng.choice(["deal", "deal", "store", "store", "etch", "warp", "roll", "fee", "chainId", "coinbase", "difficulty"])
        if k == "deal":
            who = rng.choice([TARGET, TARGET, OTHER, NOCODE, ("arg", 0), TARGET | (1 << 170)])
            cheats.append(("deal", who, val(cap=(1 << 128) + 1)))
        elif k == "store":
            who = rng.choice([TARGET, TARGET, TARGET, OTHER, NOCODE, TARGET | (1 << 200)])
            cheats.append(("store", who, val(), val()))
        elif k == "etch":
            cheats.append(("etch", rng.choice([TARGET, TARGET, OTHER, NOCODE, TARGET | (1 << 161)]), rng.randrange(5)))
        else:
            cheats.append((k, val()))
    slot = rng.choice([c[2] for c in cheats if c[0] == "store"] + [val(), 0, 1])
    return cheats, slot


def state_part(ctx):
    asm, D = _imports()
    rng = ctx.rng
    lits = harvest_literals()
    pool = D.BOUNDARY + lits + [TARGET, OTHER, (1 << 128) - 1, 1 << 128]
    n_cases = ctx.scale(150, 1500)
    directed = [
        ([("deal", TARGET, 5)], 0), ([("deal", ("arg", 0), ("arg", 1))], 0), ([("store", TARGET, 1, 7)], 1),
        ([("store", TARGET, ("arg", 0), ("arg", 1))], ("arg", 0)), ([("store", TARGET, ("arg", 0), ("arg", 1))], ("arg", 2)),
        ([("store", NOCODE, 1, 7)], 1), ([("etch", TARGET, 1), ("store", TARGET, 3, 9)], 3), ([("store", TARGET, 3, 9), ("etch", TARGET, 2)], 3),
        ([("etch", NOCODE, 0), ("store", NOCODE, 1, 2)], 1), ([("etch", TARGET, 3)], 0), ([("etch", TARGET, 4)], 0),
        ([("warp", ("arg", 0)), ("roll", ("arg", 1)), ("fee", ("arg", 2)), ("chainId", ("arg", 3))], 0),
        ([("coinbase", ("arg", 0)), ("difficulty", ("arg", 1))], 0), ([("coinbase", A160 + 5), ("warp", W - 1)], 0),
        ([("deal", TARGET, 5), ("deal", TARGET, 6), ("deal", OTHER, 7)], 0),
        ([("store", TARGET, 1, 7), ("store", TARGET, 1, 8), ("store", OTHER, 1, 9)], 1),
    ]
    cases = directed + [gen_state_case(rng, pool) for _ in range(n_cases)]
    lines, meta = [], []
    for cheats, slot in cases:
        cheats = [(c[0], c[1], getter_code(asm, c[2])) if c[0] == "etch" else c for c in cheats]
        code = state_program(asm, cheats, slot)
        scn = D.Scenario({MAIN: code, TARGET: getter_code(asm, 0), OTHER: getter_code(asm, 0)}, nargs=4)
        # symbolic slots need the generic storage layout (the solidity layout rejects a symbolic base slot: C08's domain)
        sym_slot = isinstance(slot, tuple) or any(c[0] == "store" and isinstance(c[2], tuple) for c in cheats)
        layout = "generic" if sym_slot or rng.random() < 0.3 else "solidity"
        ctx.count("state:layout:" + layout)
        sr = sym_run(D, scn, storage_layout=layout)
        for c in cheats:
            ctx.count("cheat:" + c[0] + (":symbolic" if any(isinstance(x, tuple) for x in c[1:]) else ":concrete"))
        for _ in range(ctx.scale(2, 3)):
            inp = D.random_inputs(rng, scn, pool)
            inp.args = [a if rng.random() < 0.6 else rng.choice([TARGET, OTHER, 1, 2, 3, a % (1 << 128)]) for a in inp.args]
            inp.value = 0
            req = ["w reset", f"w param origin {inp.origin:x}", f"w baldefault {inp.baldefault:x}"]
            for a, c in scn.contracts.items():
                req.append(f"w code {a:x} {c.hex() or '-'}")
            for a, v in inp.balances.items():
                req.append(f"w bal {a:x} {v:x}")
            k0 = len(req)
            for c in cheats:
                if c[0] == "etch":
                    req.append(f"cheat etch {val_value(c[1], inp.args):x} {c[2].hex() or '-'}")
                else:
                    req.append(f"cheat {c[0]} " + " ".join(f"{val_value(x, inp.args):x}" for x in c[1:]))
            k1 = len(req)
            sl = val_value(slot, inp.args)
            cd = scn.selector + b"".join(v.to_bytes(32, "big") for v in inp.args)
            req += [f"sexec {inp.caller:x} {MAIN:x} 0 {cd.hex()} 30000", f"mreads {TARGET:x} {OTHER:x} {sl:x}",
                    f"loads {TARGET:x} {sl:x}", f"loads {OTHER:x} {sl:x}", f"loads {NOCODE:x} {sl:x}"]
            meta.append((cheats, slot, scn, sr, inp, len(lines), k0, k1))
            lines += req
    replies = ctx.lean("Prank").ask(lines)
    for cheats, slot, scn, sr, inp, base, k0, k1 in meta:
        rep = replies[base:]
        cheat_res = rep[k0:k1]
        sexec, mreads, l1, l2, l3 = rep[k1:k1 + 5]
        desc = "; ".join(f"{c[0]}({', '.join(('a%d' % x[1]) if isinstance(x, tuple) else (x.hex() if isinstance(x, bytes) else hex(x)) for x in c[1:])})" for c in cheats)
        key = (desc, str(slot), tuple(inp.args), inp.caller, tuple(sorted(inp.balances.items())))
        ctx.case(key)
        ctx.sample({"kind": "state", "cheats": desc, "read_slot": str(slot), "args": [hex(a) for a in inp.args]})
        replay = {"kind": "state", "cheats": [[c[0]] + [list(x) if isinstance(x, tuple) else (x.hex() if isinstance(x, bytes) else hex(x)) for x in c[1:]] for c in cheats],
                  "slot": list(slot) if isinstance(slot, tuple) else hex(slot), "args": [hex(a) for a in inp.args], "caller": hex(inp.caller),
                  "origin": hex(inp.origin), "balances": {hex(a): hex(v) for a, v in inp.balances.items()}, "baldefault": hex(inp.baldefault),
                  "contracts": {hex(a): c.hex() for a, c in scn.contracts.items()}}
        model_err = "error" in cheat_res
        if sr.escaped:
            ctx.violation("state:exception-escapes-SEVM.run:" + sr.escaped.split(":")[0], f"{desc}: {sr.escaped[:200]}", replay)
            continue
        chosen = []
        for p in sr.paths:
            pe = D.PathEval(inp)
            try:
                if pe.satisfies(p.conds):
                    chosen.append((p, pe))
            except D.Unknown as u:
                ctx.count("state:eval-unknown:" + str(u)[:24])
        if not chosen:
            # only legitimate when a balance exceeds MAX_ETH (halmos' documented practical assumption)
            big = any(c[0] == "deal" and val_value(c[2], inp.args) % W > MAX_ETH for c in cheats) or \
                any(v > MAX_ETH for v in inp.balances.values()) or inp.baldefault > MAX_ETH
            if big:
                ctx.count("state:input-uncovered:balance>MAX_ETH")
            else:
                ctx.violation("state:input-covered-by-no-path", f"{desc}: no path admits the input (kinds {[p.kind for p in sr.paths]})", replay)
            continue
        first_store_err = next((c for c, r in zip(cheats, cheat_res) if r == "error"), None)
        for p, pe in chosen:
            impl_err = p.kind.startswith("stuck:")
            if impl_err != model_err:
                if impl_err and not model_err:
                    ctx.violation(f"state:unexpected-stuck:{type(p.error).__name__}", f"{desc}: path stuck ({p.error}) but the cheats are valid", replay)
                else:
                    STALE.append(f"C14 model stale: Model.hevmState rejects {first_store_err} but the SEVM path is {p.kind}")
                continue
            if impl_err:
                ctx.count("state:store-nonexistent-error")
                continue
            if p.kind != "success":
                ctx.violation(f"state:unexpected-halt:{p.kind}", f"{desc}: path ends in {p.kind}", replay)
                continue
            try:
                data = pe.bytes_of(p.data)
            except D.Unknown as u:
                ctx.count("state:eval-unknown-data:" + str(u)[:24])
                continue
            got = [int.from_bytes(data[i:i + 32], "big") for i in range(0, len(data), 32)]
            m = re.match(r"halt=(\S+) data=(\S+)", sexec)
            if not m or m.group(1) != "success":
                raise RuntimeError(f"reference EVM did not succeed on a state-cheat program: {sexec[:100]}")
            ref = bytes.fromhex(m.group(2))
            ref = [int.from_bytes(ref[i:i + 32], "big") for i in range(0, len(ref), 32)]
            mod = [int(x, 16) for x in mreads.split(",")]
            loads = [tuple(int(y.split("=")[1], 16) for y in l.split(" ")) for l in (l1, l2, l3)]
            names = ["balance(target)", "balance(other)", "sload(target)", "sload(other)", "codesize(target)", "codesize(other)",
                     "timestamp", "number", "basefee", "chainid", "coinbase", "prevrandao"]
            # the etched getter variants change what the getter call returns: the reference EVM runs the etched code; the
            # Model's `sload` is the raw slot — compare the Model on raw reads only where the code is the plain getter
            bad_spec = [names[i] for i in range(N_READS) if got[i] != ref[i]]
            bad_spec += [f"vm.load({n})" for n, g, (lm, ls) in zip(("target", "other", "nocode"), got[12:15], loads) if g != ls]
            etched = {val_value(c[1], inp.args) % A160 for c in cheats if c[0] == "etch"}
            skip = {2} if TARGET in etched else set()
            skip |= {3} if OTHER in etched else set()
            bad_model = [names[i] for i in range(N_READS) if i not in skip and got[i] != mod[i]]
            bad_model += [f"vm.load({n})" for n, g, (lm, ls) in zip(("target", "other", "nocode"), got[12:15], loads) if g != lm]
            ctx.count("state:compared")
            if bad_spec:
                replay.update({"observed": [hex(x) for x in got], "reference": [hex(x) for x in ref], "model": [hex(x) for x in mod]})
                which = sorted({c[0] for c in cheats})
                ctx.violation(f"state:{bad_spec[0]}-after-{'+'.join(which)}",
                              f"{desc} then reads {bad_spec}: halmos {[hex(x) for x in got]} vs reference EVM on the updated world "
                              f"{[hex(x) for x in ref[:N_READS]]} / Spec.Foundry.load {[hex(l[1]) for l in loads]}", replay)
            elif bad_model:
                STALE.append(f"C14 model stale: Model.hevmState disagrees with SEVM and reference EVM on {bad_model} after {desc}")


# ======================================================================================================================
# C. create* / random*
# ======================================================================================================================

SVM_SELS = {
    "createUint": 0x66830DFA, "createUint256": 0xBC7BEEFC, "createUint256MinMax": 0x3B7A1CA7, "createInt": 0x49B9C7D4,
    "createInt256": 0xC2CE6AED, "createBytes": 0xEEF5311D, "createString": 0xCE68656C, "createBytes4": 0xDE143925,
    "createBytes32": 0xBF72FA66, "createAddress": 0x3B0FA01B, "createBool": 0x6E0BB659,
}
VM_RANDOM = {
    "randomInt": 0x111F1202, "randomIntN": 0x12845966, "randomUint": 0x25124730, "randomUintN": 0xCF81E69C,
    "randomUintMinMax": 0xD61B051B, "randomAddress": 0xD5BEE9F5, "randomBool": 0xCDC126BD, "randomBytes": 0x6C5D32A9,
    "randomBytes4": 0x9B7CD579, "randomBytes8": 0x0497B0A5,
}
RANDOM_NAMES = {"randomInt": "vmRandomInt", "randomIntN": "vmRandomInt", "randomUint": "vmRandomUint", "randomUintN": "vmRandomUint",
                "randomUintMinMax": "vmRandomUint", "randomAddress": "vmRandomAddress", "randomBool": "vmRandomBool",
                "randomBytes": "vmRandomBytes", "randomBytes4": "vmRandomBytes4", "randomBytes8": "vmRandomBytes8"}


def str_words(name: bytes):
    n = len(name)
    pad = name.ljust((n + 31) // 32 * 32, b"\0")
    return [[("push", n)]] + [[("push", int.from_bytes(pad[i:i + 32], "big"), 32)] for i in range(0, len(pad), 32)]


def create_request(asm, fn, name: bytes, a=None, b=None):
    """items calling one create*/random* cheatcode; returns (items, enc token, mode, name used by the model)"""
    if fn in SVM_SELS:
        sel, addr = SVM_SELS[fn], asm.SVM_ADDRESS
        if fn in ("createUint", "createInt", "createBytes", "createString"):
            args = [[("push", a)], [("push", 0x40)]] + str_words(name)
            enc = {"createUint": f"uint:{a:x}", "createInt": f"int:{a:x}", "createBytes": f"bytes:{a:x}", "createString": f"string:{a:x}"}[fn]
        elif fn == "createUint256MinMax":
            args = [[("push", 0x60)], [("push", a)], [("push", b)]] + str_words(name)
            enc = f"minmax:{a:x}:{b:x}"
        else:
            args = [[("push", 0x20)]] + str_words(name)
            enc = {"createUint256": "uint256", "createInt256": "int256", "createBytes4": "bytes4", "createBytes32": "bytes32",
                   "createAddress": "address", "createBool": "bool"}[fn]
        return asm.cheat_call(addr, sel, args, ret_size=0), enc, "raw", name
    sel, addr = VM_RANDOM[fn], asm.HEVM_ADDRESS
    nm = RANDOM_NAMES[fn].encode()
    if fn in ("randomIntN", "randomUintN", "randomBytes"):
        args = [[("push", a)]]
        enc = {"randomIntN": f"int:{a:x}", "randomUintN": f"uint:{a:x}", "randomBytes": f"bytes:{a:x}"}[fn]
    elif fn == "randomUintMinMax":
        args = [[("push", a)], [("push", b)]]
        enc = f"minmax:{a:x}:{b:x}"
    else:
        args = []
        enc = {"randomInt": "int256", "randomUint": "uint256", "randomAddress": "address", "randomBool": "bool",
               "randomBytes4": "bytes4", "randomBytes8": "bytes8"}[fn]
    return asm.cheat_call(addr, sel, args, ret_size=0), enc, "fix", nm


LABEL_RE = re.compile(r"^halmos_(.*)_([a-z]+[0-9]*)_([0-9a-f]{7})_([0-9]{2,})$")


def collect_syms(t, out):
    import z3

    seen, todo = set(), [t]
    while todo:
        x = todo.pop()
        if x.get_id() in seen:
            continue
        seen.add(x.get_id())
        if z3.is_const(x) and x.decl().kind() == z3.Z3_OP_UNINTERPRETED:
            out[x.decl().name()] = x
        else:
            todo.extend(x.children())


def sample_values(rng, bits, lits):
    if bits == 0:
        return [0]
    m = 1 << bits
    vs = {0, 1 % m, m - 1, m >> 1, (m >> 1) - 1 if m > 1 else 0, (m >> 1) + 1 if m > 2 else 0, rng.randrange(m), rng.randrange(m)}
    vs |= {rng.choice(lits) % m for _ in range(2)} if lits else set()
    return sorted(vs)


def spec_targets(enc, rng):
    """(target word/bytes in the type's value set, preimage value of the variable) pairs: reachability samples"""
    p = enc.split(":")
    k = p[0]
    out = []
    if k in ("uint", "uint256", "address", "bool", "bytes32", "int256"):
        b = {"uint256": 256, "address": 160, "bool": 1, "bytes32": 256, "int256": 256}.get(k) or int(p[1], 16)
        for t in {0, (1 << b) - 1, 1 % (1 << b), rng.randrange(1 << b)}:
            out.append((t.to_bytes(32, "big"), t))
    elif k == "int":
        b = int(p[1], 16)
        for s in {0, -1, (1 << (b - 1)) - 1, -(1 << (b - 1)), rng.randrange(-(1 << (b - 1)), 1 << (b - 1))}:
            out.append(((s % W).to_bytes(32, "big"), s % (1 << b)))
    elif k in ("bytes4", "bytes8"):
        n = int(k[5:])
        for t in {0, (1 << 8 * n) - 1, rng.randrange(1 << 8 * n)}:
            out.append((t.to_bytes(n, "big").ljust(32, b"\0"), t))
    elif k in ("bytes", "string"):
        n = int(p[1], 16)
        if n:
            for t in {0, (1 << 8 * n) - 1, rng.randrange(1 << 8 * n)}:
                out.append(((32).to_bytes(32, "big") + n.to_bytes(32, "big") + t.to_bytes(n, "big"), t))
    elif k == "minmax":
        lo, hi = int(p[1], 16), int(p[2], 16)
        for t in {lo, hi, rng.randrange(lo, hi + 1)}:
            out.append((t.to_bytes(32, "big"), t))
    return out


def create_part(ctx):
    import z3

    asm, D = _imports()
    from vlib.zeval import Evaluator

    rng = ctx.rng
    lits = harvest_literals()
    widths = list(range(8, 257, 8)) + [1, 2, 7, 9, 63, 65, 127, 129, 159, 161, 255] + [0, 257, 300, 1 << 20]
    sizes = [0, 1, 31, 32, 33, 64, 65, 1024]
    names = [b"x", b"my var", b"a  b\tc\nd", b"under_score_12", b"", b"x" * 40, b" lead", b"trail "]
    reqs = []   # (fn, name, a, b)
    for w in widths:
        reqs += [("createUint", rng.choice(names), w, None), ("createInt", rng.choice(names), w, None),
                 ("randomUintN", b"", w, None), ("randomIntN", b"", w, None)]
    for n in sizes + [2]:
        reqs += [("createBytes", rng.choice(names), n, None), ("createString", rng.choice(names), n, None), ("randomBytes", b"", n, None)]
    for fn in ("createUint256", "createInt256", "createBytes4", "createBytes32", "createAddress", "createBool"):
        for nm in names[:4]:
            reqs.append((fn, nm, None, None))
    for fn in ("randomInt", "randomUint", "randomAddress", "randomBool", "randomBytes4", "randomBytes8"):
        reqs.append((fn, b"", None, None))
    ranges = [(3, 9), (5, 5), (0, 0), (0, W - 1), (W - 1, W - 1), (9, 3), (1, 0), (1 << 255, (1 << 255) + 1), (255, 256)]
    ranges += [(min(a, b), max(a, b)) for a, b in ((rng.choice(lits), rng.choice(lits)) for _ in range(ctx.scale(6, 40)))]
    for lo, hi in ranges:
        reqs += [("createUint256MinMax", rng.choice(names), lo, hi), ("randomUintMinMax", b"", lo, hi)]
    if ctx.tier != "quick":
        for w in range(1, 257):
            reqs += [("createUint", b"x", w, None), ("createInt", b"x", w, None)]

    create_cases(ctx, reqs, lits)
    independence_part(ctx, asm, D)


def spec_judge(ctx, fn, enc, lbl, bits, got, conds_ok, rp):
    """the returned data against Spec.Foundry alone (no Model): requested width, fresh symbol iff the type has values to
    choose from, valid encoding; for bytes/string: length word = requested size, payload of exactly that many bytes.
    True if a violation was reported."""
    pp = enc.split(":")
    if pp[0] in ("uint", "int") and not 1 <= int(pp[1], 16) <= 256:
        return False        # not a Solidity type: outside the property
    want = _requested_bits(enc)
    if pp[0] in ("bytes", "string"):
        n = int(pp[1], 16)
        lw = int.from_bytes(got[32:64], "big") if len(got) >= 64 else None
        if len(got) < 64 or got[:32] != (32).to_bytes(32, "big") or lw != n:
            ctx.violation(f"create:{fn}:bytes-length-word:size-{'0' if n == 0 else 'n'}",
                          f"{fn}({n}): returned {len(got)} bytes, offset word {got[:32].hex()[-8:]}, length word {lw}; the Spec "
                          f"(DecodesToBytes) wants offset 32, length {n} and a payload of exactly {n} bytes", rp)
            return True
        pay = got[64:]
        if not (len(pay) == n or (len(pay) == (n + 31) // 32 * 32 and not any(pay[n:]))):
            ctx.violation(f"create:{fn}:bytes-payload-size:size-{'0' if n == 0 else 'n'}",
                          f"{fn}({n}): payload of {len(pay)} bytes for a requested size of {n}", rp)
            return True
    if want == 0 and lbl is not None:
        ctx.violation(f"create:{fn}:symbol-for-empty-value", f"{fn} {enc}: an empty value mentions the symbol {lbl}", rp)
        return True
    if want > 0 and lbl is None:
        ctx.violation(f"create:{fn}:not-a-fresh-symbol", f"{fn} {enc}: the result {got.hex()[:140]} mentions no fresh symbol "
                      f"(a constant is not an arbitrary value of the type)", rp)
        return True
    if want > 0 and bits != want:
        ctx.violation(f"create:{fn}:symbol-width", f"{fn} {enc}: variable {lbl} has {bits} bits, requested {want}", rp)
        return True
    if pp[0] == "minmax":
        # the value set is what the path conditions admit: exactly [lo, hi]
        w = int.from_bytes(got, "big")
        want_ok = int(pp[1], 16) <= w <= int(pp[2], 16)
        if len(got) != 32 or conds_ok != want_ok:
            ctx.violation(f"create:{fn}:range-constraint", f"{fn} {enc}: value {w:#x} admitted={conds_ok} by the path conditions, "
                          f"the range says {want_ok}", rp)
            return True
        return False
    if not _in_value_set(enc, got):
        ctx.violation(f"create:{fn}:outside-type-value-set", f"{fn} {enc}: {lbl} encodes to {got.hex()[:140]}, not a valid encoding of "
                      f"the requested type", rp)
        return True
    return False


def create_cases(ctx, reqs, lits):
    asm, D = _imports()
    from vlib.zeval import Evaluator

    rng = ctx.rng
    tail = ["RETURNDATASIZE", 0, 0, "RETURNDATACOPY", "RETURNDATASIZE", 0, "RETURN"]
    lines, meta = [], []
    for fn, name, a, b in reqs:
        # `pre` creations before the one under test: the counter must continue; the second one must be independent
        pre = rng.choice([0, 0, 1, 3, 12])
        items = []
        for _ in range(pre):
            items += asm.svm_create_uint256(b"pre") + ["POP"]
        call, enc, mode, mname = create_request(asm, fn, name, a, b)
        items += call + tail
        scn = D.Scenario({MAIN: asm.assemble(items)}, nargs=0)
        sr = sym_run(D, scn)
        ctx.count("create:" + fn)
        replay = {"kind": "create", "fn": fn, "name": name.hex(), "a": None if a is None else hex(a), "b": None if b is None else hex(b),
                  "pre": pre, "code": scn.main_code().hex()}
        if sr.escaped:
            lines.append(f"create {enc} {pre:x} {mode} {mname.hex() or '-'} {'61626364656667'} 0")
            meta.append(("escaped", fn, enc, sr, None, None, None, replay))
            continue
        if len(sr.paths) != 1:
            ctx.violation(f"create:{fn}:paths:{len(sr.paths)}", f"{fn}: {len(sr.paths)} paths", replay)
            continue
        p = sr.paths[0]
        if p.kind != "success":
            lines.append(f"create {enc} {pre:x} {mode} {mname.hex() or '-'} {'61626364656667'} 0")
            meta.append(("stuck", fn, enc, sr, p, None, None, replay))
            continue
        syms = {}
        if len(p.data):
            u = p.data.unwrap()
            if not isinstance(u, bytes):
                collect_syms(u, syms)
        for c in p.conds:
            collect_syms(c, syms)
        fresh = {n: t for n, t in syms.items() if n.startswith("halmos_") and "_pre_" not in n}
        if len(fresh) > 1:
            ctx.violation(f"create:{fn}:depends-on-several-symbols", f"{fn}: result mentions {sorted(fresh)}", replay)
            continue
        if any("_pre_" in n for n in syms):
            ctx.violation(f"create:{fn}:depends-on-earlier-symbol", f"{fn}: result mentions an earlier symbol {sorted(syms)}", replay)
            continue
        lbl, term = (next(iter(fresh.items())) if fresh else (None, None))
        uid = "abcdefg"
        if lbl:
            mm = LABEL_RE.match(lbl)
            if not mm:
                ctx.violation(f"create:{fn}:label-shape", f"{fn}: label {lbl!r} is not halmos_<name>_<type>_<uid>_<NN>", replay)
                continue
            uid = mm.group(3)
        bits = term.size() if term is not None else 0
        vals = sample_values(rng, bits, lits)
        targets = spec_targets(enc, rng) if lbl else []
        k0 = len(lines)
        for v in vals + [t[1] for t in targets]:
            lines.append(f"create {enc} {pre:x} {mode} {mname.hex() or '-'} {uid.encode().hex()} {v:x}")
        meta.append(("ok", fn, enc, sr, p, (lbl, bits, vals, targets), k0, replay))
    replies = ctx.lean("Prank").ask(lines)
    li = 0
    for status, fn, enc, sr, p, info, k0, replay in meta:
        if status in ("escaped", "stuck"):
            r = replies[li]
            li += 1
            ctx.case(("create", fn, enc, status))
            if status == "escaped":
                bits0 = enc in ("uint:0", "int:0")
                if r == "crash" and bits0:
                    ctx.count("create:crash-bits0")
                elif r == "crash":
                    STALE.append(f"C14 model predicts a crash for {enc} outside bits = 0")
                else:
                    ctx.violation(f"create:{fn}:exception-escapes-SEVM.run:" + sr.escaped.split(":")[0], f"{fn} {enc}: {sr.escaped[:160]}", replay)
            else:
                if r == "error":
                    ctx.count("create:rejected:" + enc.split(":")[0])
                    # the Spec: only requests outside the type system may be rejected
                    pp = enc.split(":")
                    legit = (pp[0] in ("uint", "int") and int(pp[1], 16) > 256) or (pp[0] == "minmax" and int(pp[1], 16) > int(pp[2], 16))
                    if not legit:
                        ctx.violation(f"create:{fn}:valid-request-rejected", f"{fn} {enc}: {p.error}", replay)
                elif p.kind.startswith("stuck:"):
                    ctx.violation(f"create:{fn}:valid-request-stuck", f"{fn} {enc}: {p.kind} {p.error}", replay)
                else:
                    ctx.violation(f"create:{fn}:halt:{p.kind}", f"{fn} {enc}: {p.kind}", replay)
            continue
        lbl, bits, vals, targets = info
        ctx.sample({"kind": "create", "fn": fn, "enc": enc, "label": lbl, "bits": bits, "values": [hex(v) for v in vals[:3]]})
        n = len(vals) + len(targets)
        reps = replies[li:li + n]
        li += n
        data_t = p.data.unwrap() if len(p.data) else b""
        for j, (v, r) in enumerate(zip(vals + [t[1] for t in targets], reps)):
            ctx.case(("create", fn, enc, replay["name"], replay["pre"], v))
            ev = Evaluator({lbl: v} if lbl else {})
            got = data_t if isinstance(data_t, bytes) else int(ev(data_t)).to_bytes(len(p.data), "big")
            # 1. against the Spec alone — runs whatever the state of the Model / extractor obligations
            conds_ok = all(bool(ev(c)) for c in p.conds if _mentions_only(c, lbl))
            if spec_judge(ctx, fn, enc, lbl, bits, got, conds_ok, dict(replay, value=hex(v), label=lbl, observed=got.hex())):
                break
            # 2. against the Model
            if not r.startswith("ok "):
                if r in ("error", "crash"):
                    STALE.append(f"C14 model stale: Model.create gives {r} for {fn} {enc} but the SEVM path succeeds")
                    ctx.count("create:model-stale")
                    break
                raise RuntimeError(f"driver: {r}")
            f = dict(x.split("=", 1) for x in r[3:].split(" "))
            m_label = bytes.fromhex(f["label"]).decode() if f["label"] != "-" else None
            m_bits = int(f["bits"], 16)
            m_data = b"" if f["data"] == "-" else bytes.fromhex(f["data"])
            rp = dict(replay, value=hex(v), label=lbl, observed=got.hex(), model=m_data.hex())
            if (m_label, m_bits) != (lbl, bits):
                # label/width: Spec = requested width and a counter-based fresh name
                want_bits = _requested_bits(enc)
                if bits != want_bits:
                    ctx.violation(f"create:{fn}:symbol-width", f"{fn} {enc}: variable {lbl} has {bits} bits, requested {want_bits}", rp)
                    break
                cnt_ok = lbl is not None and LABEL_RE.match(lbl) and int(LABEL_RE.match(lbl).group(4)) == replay["pre"] + 1
                if not cnt_ok:
                    ctx.violation(f"create:{fn}:label-counter", f"{fn} {enc}: label {lbl} after {replay['pre']} earlier symbols "
                                  f"(Model: {m_label})", rp)
                    break
                STALE.append(f"C14 model stale: {fn} {enc}: label {lbl!r}/{bits} vs Model {m_label!r}/{m_bits}")
                break
            if f["spec"] != "1" and got == m_data:
                ctx.violation(f"create:{fn}:outside-type-value-set", f"{fn} {enc}: value {v:#x} of {lbl} encodes to {got.hex()[:140]}, "
                              f"not a valid encoding of the requested type", rp)
                break
            if got != m_data:
                # which one does the Spec accept? decided by re-asking the driver is not possible for raw data: use the
                # reachability / value-set checks below on `got`
                if not _in_value_set(enc, got):
                    ctx.violation(f"create:{fn}:outside-type-value-set", f"{fn} {enc}: value {v:#x} of {lbl} encodes to {got.hex()[:140]}, "
                                  f"not a valid encoding of the requested type (Model: {m_data.hex()[:140]})", rp)
                    break
                if j >= len(vals):
                    ctx.violation(f"create:{fn}:value-unreachable", f"{fn} {enc}: target {targets[j - len(vals)][0].hex()[:140]} not produced by "
                                  f"its preimage {v:#x} (got {got.hex()[:140]})", rp)
                    break
                STALE.append(f"C14 model stale: {fn} {enc} value {v:#x}: SEVM {got.hex()[:100]} vs Model {m_data.hex()[:100]}")
                break
            if conds_ok != (f["cond"] == "1"):
                lo_hi = enc.split(":")[1:]
                ctx.violation(f"create:{fn}:range-constraint", f"{fn} {enc}: value {v:#x} admitted={conds_ok} by the path conditions, "
                              f"range says {f['cond']}", rp)
                break
            if j >= len(vals) and got != targets[j - len(vals)][0]:
                ctx.violation(f"create:{fn}:value-unreachable", f"{fn} {enc}: target {targets[j - len(vals)][0].hex()[:140]} not produced by its "
                              f"preimage {v:#x}", rp)
                break
    assert li == len(replies)


def _mentions_only(c, lbl):
    syms = {}
    collect_syms(c, syms)
    return lbl is not None and lbl in syms and all(n == lbl for n in syms if n.startswith("halmos_"))


def _requested_bits(enc):
    p = enc.split(":")
    return {"uint": lambda: int(p[1], 16), "int": lambda: int(p[1], 16), "bytes": lambda: 8 * int(p[1], 16),
            "string": lambda: 8 * int(p[1], 16), "uint256": lambda: 256, "int256": lambda: 256, "bytes32": lambda: 256,
            "bytes4": lambda: 32, "bytes8": lambda: 64, "address": lambda: 160, "bool": lambda: 1, "minmax": lambda: 256}[p[0]]()


def _in_value_set(enc, data: bytes):
    p = enc.split(":")
    k = p[0]
    if k in ("bytes", "string"):
        n = int(p[1], 16)
        pay = data[64:]
        return data[:32] == (32).to_bytes(32, "big") and data[32:64] == n.to_bytes(32, "big") and \
            (len(pay) == n or (len(pay) == (n + 31) // 32 * 32 and not any(pay[n:])))
    if len(data) != 32:
        return False
    w = int.from_bytes(data, "big")
    if k == "uint":
        return w < 1 << int(p[1], 16)
    if k == "int":
        b = int(p[1], 16)
        return w < 1 << (b - 1) or w >= W - (1 << (b - 1))
    if k in ("bytes4", "bytes8"):
        return w % (1 << (256 - 8 * int(k[5:]))) == 0
    if k == "address":
        return w < A160
    if k == "bool":
        return w < 2
    if k == "minmax":
        return int(p[1], 16) <= w <= int(p[2], 16)
    return True


def independence_part(ctx, asm, D):
    """consecutive creations (same request, same name) across frames and branches yield distinct variables with
    consecutive counters; the second result does not mention the first variable"""
    rng = ctx.rng
    fns = list(SVM_SELS) + list(VM_RANDOM)
    for _ in range(ctx.scale(40, 300)):
        seq = [rng.choice(fns) for _ in range(rng.randrange(2, 6))]
        items, encs = [], []
        nested_at = rng.randrange(len(seq)) if rng.random() < 0.5 else None
        child = asm.assemble(asm.svm_create_uint256(b"child") + [0, "MSTORE", 32, 0, "RETURN"])
        out_ptr = 0x1000
        for i, fn in enumerate(seq):
            a, b = {"createUint": (rng.choice([8, 17, 256]), None), "createInt": (rng.choice([8, 17, 256]), None),
                    "randomUintN": (rng.choice([8, 17, 256]), None), "randomIntN": (rng.choice([8, 17, 256]), None),
                    "createBytes": (rng.choice([1, 33]), None), "createString": (rng.choice([1, 33]), None), "randomBytes": (rng.choice([1, 33]), None),
                    "createUint256MinMax": (3, 1 << 200), "randomUintMinMax": (3, 1 << 200)}.get(fn, (None, None))
            call, enc, mode, mname = create_request(asm, fn, b"same", a, b)
            if nested_at == i:
                items += [32, ("push", out_ptr), 0, 0, 0, ("push", 0x5000, 20), "GAS", "CALL", "POP"]
                out_ptr += 32
                encs.append(("child", "uint256"))
            items += call + ["RETURNDATASIZE", 0, ("push", out_ptr), "RETURNDATACOPY"]
            size = 32 if not enc.startswith(("bytes:", "string:")) else 64 + int(enc.split(":")[1], 16)
            encs.append((fn, enc, out_ptr, size))
            out_ptr += (size + 31) // 32 * 32
        items += [("push", out_ptr - 0x1000), ("push", 0x1000), "RETURN"]
        scn = D.Scenario({MAIN: asm.assemble(items), 0x5000: child}, nargs=0)
        sr = sym_run(D, scn)
        ctx.case(("independence", tuple(seq), nested_at))
        ctx.count("independence")
        replay = {"kind": "independence", "seq": seq, "nested_at": nested_at, "code": scn.main_code().hex()}
        if sr.escaped or len(sr.paths) != 1 or sr.paths[0].kind != "success":
            ctx.violation("independence:run", f"{seq}: {sr.escaped or [p.kind for p in sr.paths]}", replay)
            continue
        p = sr.paths[0]
        labels = []
        off = 0
        ok = True
        for e in encs:
            if e[0] == "child":
                chunk = p.data.slice(off, off + 32)
                off += 32
            else:
                size = e[3]
                chunk = p.data.slice(e[2] - 0x1000, e[2] - 0x1000 + size)
                off = e[2] - 0x1000 + (size + 31) // 32 * 32
            syms = {}
            u = chunk.unwrap()
            if not isinstance(u, bytes):
                collect_syms(u, syms)
            hs = sorted(n for n in syms if n.startswith("halmos_"))
            if len(hs) != 1:
                ctx.violation("independence:result-mentions-other-symbols", f"{seq} item {e}: mentions {hs}", replay)
                ok = False
                break
            labels.append(hs[0])
        if not ok:
            continue
        cnts = [int(LABEL_RE.match(l).group(4)) if LABEL_RE.match(l) else None for l in labels]
        if len(set(labels)) != len(labels) or cnts != list(range(1, len(labels) + 1)):
            ctx.violation("independence:labels-not-fresh", f"{seq}: labels {labels}", replay)


# ======================================================================================================================

def run_corpus(ctx):
    cdir = VERIF / "corpus" / ID
    if not cdir.is_dir():
        return
    for f in sorted(cdir.glob("*.json")):
        data = json.loads(f.read_text())
        for c in data.get("prank", []):
            ctx.count("corpus")
            run_prank_cases(ctx, [PrankCase(_untuple(c["ops"]), c.get("nargs", 0), "corpus")], inputs_per_case=2)
        creqs = [(c["fn"], c.get("name", "x").encode(), c.get("a"), c.get("b")) for c in data.get("create", [])]
        if creqs:
            ctx.count("corpus", len(creqs))
            create_cases(ctx, creqs, harvest_literals())


def _untuple(x):
    if isinstance(x, list) and x and isinstance(x[0], str):
        return tuple(_untuple(y) for y in x)
    if isinstance(x, list):
        return [_untuple(y) for y in x]
    return x


def quiet_halmos():
    import logging

    for h in logging.getLogger().handlers:     # halmos.logs installs a RichHandler on the root logger
        if type(h).__name__ == "RichHandler":
            h.setLevel(logging.CRITICAL)


def correspond(ctx):
    check_selectors()
    _imports()
    quiet_halmos()
    STALE.clear()
    t0 = time.time()
    run_corpus(ctx)
    prank_part(ctx)
    t1 = time.time()
    later_tx_part(ctx)
    t2 = time.time()
    state_part(ctx)
    multipath_part(ctx)
    t3 = time.time()
    create_part(ctx)
    t4 = time.time()
    ctx.extra["phase_wall_s"] = {"prank": round(t1 - t0, 1), "later_tx": round(t2 - t1, 1), "state": round(t3 - t2, 1), "create": round(t4 - t3, 1)}
    if STALE:
        raise RuntimeError(STALE[0] + (f" (+{len(STALE) - 1} more histories)" if len(STALE) > 1 else ""))


def replay(ctx, data) -> bool:
    r = data["replay"]
    before = len(ctx.violations)
    if r["kind"] == "prank":
        case = PrankCase(_untuple(r["ops"]), r.get("nargs", 0), "replay")
        args = [int(a, 16) for a in r["args"]]
        asm, D = _imports()
        comp = Compiler(asm)
        comp.frame(case.ops, is_main=True)
        scn = D.Scenario(dict(comp.contracts), nargs=case.nargs)
        sr = sym_run(D, scn)
        toks = ["tx:cafe:beef:1000"] + flatten(case.ops, args, {"created": 0})
        rep = ctx.lean("Prank").ask(["hist " + " ".join(lean_toks(toks))])[0]
        m, s = parse_hist_reply(rep)
        pending = []
        try:
            compare_prank(ctx, D, case, scn, sr, args, toks, m, s, pending)
            flush_pending(ctx, pending)
        except RuntimeError:
            return True
    else:
        # state / create / later-tx / independence cases are regenerated from the seed
        correspond(ctx)
    return any(v["key"] == data["key"] for v in ctx.violations[before:])
