"""C15 — Invariant testing covers every bounded call sequence.

Real code under test: halmos.__main__ (run_message depth loop, get_frontier/_compute_frontier, run_target_contract/_function,
resolve_target_contracts/_selectors, get_invariant_testing_context and the six getters' decoders), cheatcodes.snapshot_state,
Exec.path_slice / Path.slice / extend_path — through `run_contract_offline` on hand-assembled invariant tests.
Ground truth: breadth-first brute force of all call sequences up to the depth over small argument / sender / timestamp domains on
the reference EVM (Driver/E2e.lean `explore`), with the Foundry filter rules written out in vlib/e2e.Scenario.callable.
Model + theorems: lean/HalmosVerif/Model/Frontier.lean, Props/C15.lean.
"""
from __future__ import annotations

import contextlib
import json
import random
import re

from vlib import asm, e2e
from vlib.e2e import (FIRST_CREATED, FOUNDRY_CALLER, FOUNDRY_TEST, SENDER_A, SENDER_B, SENDER_C, Inv, Scenario, Target, TFn,
                      call_view, require)
from vlib.runner import VERIF

ID = "C15"
EXTRACTORS = []
LEAN_MODULES = ["HalmosVerif.Props.C15"]
RULE = (
    "invariant test contracts assembled from templates with random constants: counter (inc/dec/reset/add(x<k)/set), toggle, "
    "token-like balances in a keccak mapping with transfer(to, amount), an owner-gated flag, a target with symbolic storage "
    "(svm.enableSymbolicStorage; brute force over initial slot values {0,1,7}) whose functions write an explicit zero / leave the slot untouched, a clock handler using vm.roll / vm.warp, "
    "two targets at once; invariant_* functions = probe invariants `state != k` for reachable and unreachable k, bounds, sums; "
    "invariant_depth 0..3; targetContracts / excludeContracts / targetSelectors / excludeSelectors / targetSenders / excludeSenders "
    "returned by asm getters. A case = one (scenario, filter setting, depth, invariant); it is distinct by template, constants' "
    "shape, filters, depth and whether the brute force reaches a violation."
)
TRUSTED = [
    "Spec.Evm (Lean) + the cheatcode stub of vlib/e2e.py are the meaning of a concrete call sequence; the brute force is Driver/E2e.lean `explore`",
    "the Foundry rules for target/exclude contracts, selectors and senders as written in vlib/e2e.Scenario.callable / sender_domain",
    "frontier_complete is proved on the model under the hypothesis that one symbolic target call covers all its concrete instances (C02)",
]
ASSUMPTIONS = [
    "brute-force argument / sender / timestamp domains contain the constants the generated contracts compare against (and their neighbours)",
    "call value is not observed by the generated targets",
]

PANIC1 = asm.panic(1)
X = asm.calldata_arg(0)
Y = asm.calldata_arg(1)
GET = asm.selector("get()")


def fail_if(cond, how="panic"):
    if how == "flag":
        return asm.if_then(cond, asm.set_fail_flag() + ["STOP"])
    if how == "assert":
        return e2e.vm_call("assertFalse", [cond]) + ["STOP"]
    return asm.if_then(cond, PANIC1)


def map_slot(key_items, base=0):
    """keccak256(abi.encode(key, base)) — the Solidity slot of mapping(address => uint) at `base`"""
    return key_items + [0, "MSTORE", ("push", base), 0x20, "MSTORE", 0x40, 0, "SHA3"]


# ------------------------------------------------------------------------------------------------ templates


def pick(rng, variant, options):
    return options[variant % len(options)] if variant is not None else rng.choice(options)


def t_counter(rng, name="Counter"):
    lim = rng.choice([2, 3, 4])
    fns = [TFn("inc()", [0, "SLOAD", 1, "ADD", 0, "SSTORE"])]
    if rng.random() < 0.7:
        fns.append(TFn("dec()", require([0, "SLOAD"]) + [1, 0, "SLOAD", "SUB", 0, "SSTORE"]))
    if rng.random() < 0.5:
        fns.append(TFn("reset()", [0, 0, "SSTORE"]))
    if rng.random() < 0.7:
        fns.append(TFn("add(uint256 x)", require([lim] + X + ["LT"]) + X + [0, "SLOAD", "ADD", 0, "SSTORE"],
                       domains=[list(range(lim + 1))]))
    rng.shuffle(fns)
    fns.append(TFn("get()", asm.return_word([0, "SLOAD"]), mutability="view"))
    return Target(name, fns), lim


def s_counter(rng, depth):
    tgt, lim = t_counter(rng)
    get = call_view(FIRST_CREATED, GET)
    top = depth * max(1, lim - 1) if any(f.sig.startswith("add") for f in tgt.fns) else depth
    ks = sorted(set(rng.sample(range(0, top + 3), min(4, top + 3)) + [top, top + 1]))
    invs = [Inv(f"invariant_ne{k}", fail_if(asm.eq_const(get, k), rng.choice(["panic", "panic", "flag", "assert"]))) for k in ks]
    invs.append(Inv("invariant_le", fail_if(get + [top, "LT"])))          # top < get  <=> get > top : never within depth
    return Scenario("InvCounter", [tgt], invs, kind="counter")


def s_setter(rng, depth):
    """set(x) stores any word: the probe constant is found only by solving, the brute force gets it from its domain"""
    c = rng.choice([12345, 1 << 200, (1 << 256) - 1, 77])
    tgt = Target("Setter", [TFn("set(uint256 x)", X + [0, "SSTORE"], domains=[[0, 1, c, c - 1]]),
                            TFn("twice()", [0, "SLOAD", 2, "MUL", 0, "SSTORE"]),
                            TFn("get()", asm.return_word([0, "SLOAD"]), mutability="view")])
    get = call_view(FIRST_CREATED, GET)
    invs = [Inv("invariant_nec", fail_if(asm.eq_const(get, c))),
            Inv("invariant_ne2c", fail_if(asm.eq_const(get, (2 * c) % e2e.W))),
            Inv("invariant_zero", fail_if(get + ["ISZERO", "ISZERO"], "flag"))]
    return Scenario("InvSetter", [tgt], invs, kind="setter")


def s_toggle(rng, depth):
    tgt = Target("Toggle", [TFn("flip()", [0, "SLOAD", "ISZERO", 0, "SSTORE"]),
                            TFn("count()", [1, "SLOAD", 1, "ADD", 1, "SSTORE"]),
                            TFn("get()", asm.return_word([0, "SLOAD"]), mutability="view"),
                            TFn("cnt()", asm.return_word([1, "SLOAD"]), mutability="view")])
    get = call_view(FIRST_CREATED, GET)
    cnt = call_view(FIRST_CREATED, asm.selector("cnt()"))
    k = rng.randrange(0, 5)
    invs = [Inv("invariant_off", fail_if(get)), Inv("invariant_on", fail_if(get + ["ISZERO"], "flag")),
            Inv(f"invariant_cnt_ne{k}", fail_if(asm.eq_const(cnt, k))),
            Inv("invariant_both", fail_if(get + asm.eq_const(cnt, depth) + ["AND"]))]
    return Scenario("InvToggle", [tgt], invs, kind="toggle")


def s_token(rng, depth, variant=None):
    total = rng.choice([100, 7, 1 << 128])
    bal = lambda who: map_slot(who) + ["SLOAD"]  # noqa: E731
    caller = ["CALLER"]
    to = X
    amt = Y
    # transfer(to, amount): require(bal[msg.sender] >= amount); bal[msg.sender] -= amount; bal[to] += amount
    body = require(amt + bal(caller) + ["LT", "ISZERO"]) + \
        amt + bal(caller) + ["SUB"] + map_slot(caller) + ["SSTORE"] + \
        amt + bal(to) + ["ADD"] + map_slot(to) + ["SSTORE"]
    mint = [("push", total)] + map_slot([("push", SENDER_A)]) + ["SSTORE"]
    amounts = sorted({0, 1, total, total - 1, total + 1, total // 2})
    tgt = Target("Token", [
        TFn("transfer(address to, uint256 amount)", body, domains=[[SENDER_A, SENDER_B, SENDER_C], amounts]),
        TFn("init()", require([1, "SLOAD", "ISZERO"]) + [1, 1, "SSTORE"] + mint),
        TFn("balanceOf(address who)", asm.return_word(bal(X)), mutability="view", domains=[[SENDER_A]]),
    ])
    bo = lambda a: call_view(FIRST_CREATED, asm.selector("balanceOf(address)"), [[("push", a)]])  # noqa: E731
    invs = [
        Inv("invariant_b_empty", fail_if(bo(SENDER_B) + ["ISZERO", "ISZERO"])),
        Inv("invariant_a_le_total", fail_if(bo(SENDER_A) + [total, "LT"])),
        Inv("invariant_sum", fail_if(bo(SENDER_A) + bo(SENDER_B) + ["ADD"] + bo(SENDER_C) + ["ADD", total, "LT"], "flag")),
        Inv("invariant_c_ne_half", fail_if(asm.eq_const(bo(SENDER_C), total // 2))),
    ]
    flt = pick(rng, variant, [{}, {"targetSenders": [SENDER_A]}, {"targetSenders": [SENDER_B, SENDER_C]}, {"excludeSenders": [SENDER_A]},
                              {"targetSenders": [SENDER_A, SENDER_B], "excludeSenders": [SENDER_A]}])
    return Scenario("InvToken", [tgt], invs, filters=dict(flt), senders=[SENDER_A, SENDER_B, SENDER_C], kind="token")


def s_owned(rng, depth, variant=None):
    owner = rng.choice([SENDER_A, SENDER_B])
    tgt = Target("Owned", [
        TFn("claim()", require(["CALLER", ("push", owner), "EQ"]) + [1, 0, "SSTORE"]),
        TFn("poke()", ["CALLER", 1, "SSTORE"]),
        TFn("get()", asm.return_word([0, "SLOAD"]), mutability="view"),
        TFn("last()", asm.return_word([1, "SLOAD"]), mutability="view"),
    ])
    get = call_view(FIRST_CREATED, GET)
    last = call_view(FIRST_CREATED, asm.selector("last()"))
    invs = [Inv("invariant_unclaimed", fail_if(get)),
            Inv("invariant_last_not_b", fail_if(asm.eq_const(last, SENDER_B), "flag")),
            Inv("invariant_last_not_c", fail_if(asm.eq_const(last, SENDER_C)))]
    flt = pick(rng, variant, [{}, {"targetSenders": [owner]}, {"excludeSenders": [owner]}, {"targetSenders": [SENDER_C]},
                              {"targetSenders": [SENDER_B, SENDER_C]}, {"excludeSenders": [SENDER_B, SENDER_C]},
                              {"targetSenders": [owner], "excludeSenders": [owner]},
                              {"targetSenders": [SENDER_A, SENDER_B, SENDER_C], "excludeSenders": [owner]}])
    return Scenario("InvOwned", [tgt], invs, filters=dict(flt), senders=[SENDER_A, SENDER_B, SENDER_C], kind="owned")


def s_clock(rng, depth, mode=None):
    """a handler moving block.number / block.timestamp with cheatcodes; state otherwise unchanged by tick()"""
    mode = mode or rng.choice(["roll", "roll", "warp"])
    if mode == "roll":
        tgt = Target("Clock", [
            TFn("tick()", e2e.vm_call("roll", [["NUMBER", 1, "ADD"]])),
            TFn("stamp()", ["NUMBER", 0, "SSTORE"]),
            TFn("get()", asm.return_word([0, "SLOAD"]), mutability="view"),
        ])
        get = call_view(FIRST_CREATED, GET)
        k = rng.choice([2, 3])
        invs = [Inv("invariant_number_lt", fail_if([("push", k), "NUMBER", "LT", "ISZERO"])),   # fails when number >= k
                Inv("invariant_stamp_ne", fail_if(asm.eq_const(get, k))),
                Inv("invariant_stamp_ne1", fail_if(asm.eq_const(get, 1), "flag"))]
        return Scenario("InvClock", [tgt], invs, kind="clock-roll")
    c = rng.choice([1000, 77, 1 << 40])
    tgt = Target("Clock", [
        TFn("skip(uint256 x)", require([("push", 1 << 32)] + X + ["LT"]) + e2e.vm_call("warp", [X + ["TIMESTAMP", "ADD"]]),
            domains=[[0, 1, c - 1, c]]),
        TFn("stamp()", ["TIMESTAMP", 0, "SSTORE"]),
        TFn("get()", asm.return_word([0, "SLOAD"]), mutability="view"),
    ])
    get = call_view(FIRST_CREATED, GET)
    # time passes between transactions (after each one), the first transaction runs at the setUp timestamp 1
    invs = [Inv("invariant_stamp_ne", fail_if(asm.eq_const(get, c + 1))),
            Inv("invariant_stamp_zero_or_pos", fail_if(get + [("push", 1 << 70), "LT"]))]
    return Scenario("InvClock", [tgt], invs, tsdeltas=[0, c], kind="clock-warp")


def s_two(rng, depth, variant=None):
    """two targets + contract / selector filters"""
    a, _ = t_counter(random.Random(rng.randrange(1 << 30)), "CounterA")
    b = Target("CounterB", [TFn("bump()", [0, "SLOAD", 2, "ADD", 0, "SSTORE"]), TFn("zero()", [0, 0, "SSTORE"]),
                            TFn("get()", asm.return_word([0, "SLOAD"]), mutability="view")])
    A, B = FIRST_CREATED, FIRST_CREATED + 1
    ga, gb = call_view(A, GET), call_view(B, GET)
    ka, kb = rng.choice([1, 2]), rng.choice([2, 4])
    invs = [Inv(f"invariant_a_ne{ka}", fail_if(asm.eq_const(ga, ka))), Inv(f"invariant_b_ne{kb}", fail_if(asm.eq_const(gb, kb), "flag")),
            Inv("invariant_b_even", fail_if(gb + [1, "AND"])),
            Inv("invariant_sum_ne3", fail_if(asm.eq_const(ga + gb + ["ADD"], 3)))]
    sel = lambda s: asm.selector(s)  # noqa: E731
    a_sels = [sel(f.canon) for f in a.fns if f.mutability != "view"]
    flt = pick(rng, variant, [
        {}, {"targetContracts": [A]}, {"targetContracts": [B]}, {"excludeContracts": [A]}, {"excludeContracts": [B]},
        {"targetSelectors": [(B, [sel("bump()")])]}, {"targetSelectors": [(A, a_sels[:1])], "targetContracts": [B]},
        {"excludeSelectors": [(B, [sel("bump()")])]}, {"excludeSelectors": [(A, a_sels[:1]), (B, [sel("zero()")])]},
        {"targetContracts": [A], "excludeContracts": [A]},
        {"targetSelectors": [(B, [sel("bump()")])], "excludeSelectors": [(B, [sel("bump()")])]},
        {"excludeContracts": [B], "targetSelectors": [(B, [sel("zero()"), sel("bump()")])]},
        # the same contract in several filters at once
        {"excludeContracts": [B], "targetSelectors": [(B, [sel("bump()")])]},
        {"excludeContracts": [A], "targetSelectors": [(A, a_sels[:1])]},
        {"targetContracts": [A, B], "excludeContracts": [B], "targetSelectors": [(B, [sel("bump()")])]},
        {"targetContracts": [A], "excludeContracts": [B], "targetSelectors": [(B, [sel("bump()")])]},
        {"targetContracts": [A, B], "excludeContracts": [A]},
        {"excludeSelectors": [(B, [sel("zero()")])], "targetSelectors": [(B, [sel("zero()"), sel("bump()")])]},
        {"excludeContracts": [A, B], "targetSelectors": [(B, [sel("bump()")]), (A, a_sels[:1])]},
        # several FuzzSelector items for the same contract (targetSelector()/excludeSelector() called more than once: forge-std
        # appends an item per call, Foundry honours the union), interleaved with another contract's
        {"targetSelectors": [(B, [sel("bump()")]), (A, a_sels[:1]), (B, [sel("zero()")])]},
        {"targetSelectors": [(B, [sel("zero()")]), (B, [sel("bump()")])]},
        {"excludeSelectors": [(B, [sel("zero()")]), (A, a_sels[:1]), (B, [sel("bump()")])]},
        {"excludeSelectors": [(A, a_sels[:1]), (B, [sel("zero()")]), (A, a_sels[1:2] or a_sels[:1])], "targetContracts": [A, B]},
        {"targetSelectors": [(A, a_sels[:1]), (B, [sel("bump()")]), (A, a_sels[-1:])], "excludeContracts": [B]},
    ])
    return Scenario("InvTwo", [a, b], invs, filters=dict(flt), kind="two")


def s_boom(rng, depth):
    """an assertion failure inside a target, reachable only after another call"""
    c = rng.choice([3, 77])
    tgt = Target("Boom", [
        TFn("arm(uint256 x)", X + [0, "SSTORE"], domains=[[0, c]]),
        TFn("boom()", asm.if_then(asm.eq_const([0, "SLOAD"], c), PANIC1)),
        TFn("get()", asm.return_word([0, "SLOAD"]), mutability="view"),
    ])
    get = call_view(FIRST_CREATED, GET)
    return Scenario("InvBoom", [tgt], [Inv("invariant_small", fail_if(get + [("push", 1 << 200), "LT"]))], kind="boom")


def s_symstore(rng, depth, variant=None):
    """target with SYMBOLIC storage (svm.enableSymbolicStorage in setUp, y assumed 0): `clear(){x=0;y=1}` and `mark(){y=1}` reach
    storage that differs only by "x explicitly zero" vs "x never written (arbitrary)"; both function orders; the invariant
    `!(y == 1 && x == c)` is breakable only through mark() with the untouched x == c"""
    v = rng.randrange(4) if variant is None else variant
    c = [7, 1][(v // 2) % 2]
    clear = TFn("clear()", [0, 0, "SSTORE", 1, 1, "SSTORE"])
    mark = TFn("mark()", [1, 1, "SSTORE"])
    fns = [clear, mark] if v % 2 == 0 else [mark, clear]
    if v >= 4:
        fns.append(TFn("wipe()", [0, 0, "SSTORE"]))
    fns += [TFn("x()", asm.return_word([0, "SLOAD"]), mutability="view"), TFn("y()", asm.return_word([1, "SLOAD"]), mutability="view")]
    tgt = Target("SymStore", fns)
    A = FIRST_CREATED
    gx, gy = call_view(A, asm.selector("x()")), call_view(A, asm.selector("y()"))
    invs = [Inv("invariant_not_marked_with_c", fail_if(asm.eq_const(gy, 1) + asm.eq_const(gx, c) + ["AND"])),
            Inv("invariant_not_marked_with_zero", fail_if(asm.eq_const(gy, 1) + gx + ["ISZERO", "AND"], "flag")),
            Inv("invariant_x_ne_c", fail_if(asm.eq_const(gx, c)))]
    extra = asm.cheat_call(asm.SVM_ADDRESS, 0xDC00BA4D, [[("push", A)]]) + e2e.assume_or_stop(gy + ["ISZERO"])
    return Scenario("InvSymStore", [tgt], invs, kind="symbolic-storage:" + ("clear-first" if v % 2 == 0 else "mark-first"),
                    setup_extra=extra, init_variants=[[(A, 0, x0)] for x0 in (0, 1, 7)])


def s_assertinc(rng, depth, variant=None):
    """target functions with BOTH a failing-assertion path and a normal state-changing path: `inc(x){assert(x != c); count += 1}`,
    `arm(y){assert(y < 100); armed = 1}`; the invariants need inc twice / three times / inc after arm. Run with the probe reports
    awaited before each deeper frontier level (`wait_probes`), so that "this function's assertion failure was already reported"
    is the state of affairs when the next level is computed."""
    v = rng.randrange(4) if variant is None else variant
    c = rng.choice([7, 0, 1 << 255])
    inc = TFn("inc(uint256 x)", asm.if_then(asm.eq_const(X, c), PANIC1) + [0, "SLOAD", 1, "ADD", 0, "SSTORE"], domains=[[c, 1, 2]])
    arm = TFn("arm(uint256 y)", asm.if_then(X + [99, "LT"], PANIC1) + [1 + v % 2, 1, "SSTORE"],
              domains=[[0, 100]])
    fns = [inc, arm] if v < 2 else [arm, inc]
    fns += [TFn("get()", asm.return_word([0, "SLOAD"]), mutability="view"), TFn("armed()", asm.return_word([1, "SLOAD"]), mutability="view")]
    tgt = Target("Stepper", fns)
    get = call_view(FIRST_CREATED, GET)
    armed = call_view(FIRST_CREATED, asm.selector("armed()"))
    invs = [Inv("invariant_count_lt2", fail_if(get + [1, "LT"])),                      # 1 < count
            Inv("invariant_count_ne3", fail_if(asm.eq_const(get, 3), "flag")),
            Inv("invariant_not_armed_and_one", fail_if(asm.eq_const(get, 1) + armed + ["AND"])),
            Inv("invariant_count_lt9", fail_if(get + [8, "LT"]))]
    scn = Scenario("InvStepper", [tgt], invs, kind="assert-and-mutate")
    scn.wait_probes = True
    return scn


def s_indirect(rng, depth, variant=None):
    """`f(a, c, b){ if (c < k) {…} else {…}; require(a == c + 1); x = a; y = b; }`: the two paths of one call store the SAME terms and
    differ only in a constraint on `c`, which restricts the stored `a` indirectly; a second scalar slot is written afterwards.
    The invariants fail only for values of x from one side of the branch (x == lo for c < k, x == hi for c ≥ k).
    Variants ≥ 2 put the `require` BEFORE the branch: then the branch condition is appended to the path after `a == c + 1`, and
    `Path.related[]` (filled at append time) only links a condition to EARLIER ones — the slice of {a, b} misses `c < k`."""
    v = rng.randrange(4) if variant is None else variant
    k = rng.choice([5, 10])
    lo, hi = rng.randrange(1, k + 1), rng.choice([100, 1 << 128, k + 7])
    a, c, b = asm.calldata_arg(0), asm.calldata_arg(1), asm.calldata_arg(2)
    branch = asm.if_then(c + [("push", k), "SWAP1", "LT"], [("push", 1), ("push", 0x40), "MSTORE"], [("push", 2), ("push", 0x40), "MSTORE"])
    tie = require(a + c + [1, "ADD"] + ["EQ"])
    stores = a + [0, "SSTORE"] + b + [1, "SSTORE"] if v % 2 == 0 else b + [1, "SSTORE"] + a + [0, "SSTORE"] + b + [2, "SSTORE"]
    f = TFn("f(uint256 a, uint256 c, uint256 b)", branch + tie + stores if v < 2 else tie + branch + stores,
            domains=[[lo, hi], [lo - 1, hi - 1], [0, 1]])
    tgt = Target("Indirect", [f, TFn("get()", asm.return_word([0, "SLOAD"]), mutability="view"),
                              TFn("gety()", asm.return_word([1, "SLOAD"]), mutability="view")])
    get = call_view(FIRST_CREATED, GET)
    gety = call_view(FIRST_CREATED, asm.selector("gety()"))
    invs = [Inv("invariant_x_ne_lo", fail_if(asm.eq_const(get, lo))), Inv("invariant_x_ne_hi", fail_if(asm.eq_const(get, hi), "flag")),
            Inv("invariant_lo_with_y1", fail_if(asm.eq_const(get, lo) + asm.eq_const(gety, 1) + ["AND"])),
            Inv("invariant_x_zero_or_y", fail_if(asm.eq_const(get, hi + 1)))]
    return Scenario("InvIndirect", [tgt], invs, kind="stored-value-constrained-through-branched-argument:"
                    + ("branch-before-tie" if v < 2 else "tie-before-branch"))


def s_mapkey(rng, depth, variant=None):
    """a mapping written through a SYMBOLIC key (`set(k, v){ m[k] = v }`) and read through a CONSTANT key by another target
    (`touch(){ last = m[c] }`) and by the invariant (view `atc()`): both orders of the two target functions, so that from one
    frontier state either the constant-key hash or the symbolic-key hash is the first one computed."""
    v = rng.randrange(4) if variant is None else variant
    c = rng.choice([7, 3, 1 << 100])
    m = lambda key: map_slot(key, 0)  # noqa: E731
    fset = TFn("set(uint256 k, uint256 v)", Y + m(X) + ["SSTORE"], domains=[[c, c + 1], [0, 1]])
    touch = TFn("touch()", m([("push", c)]) + ["SLOAD", 1, "SSTORE"])
    fns = [touch, fset] if v % 2 == 0 else [fset, touch]
    if v >= 2:
        fns.append(TFn("bump()", m([("push", c)]) + ["SLOAD", 1, "ADD"] + m([("push", c)]) + ["SSTORE"]))
    fns += [TFn("atc()", asm.return_word(m([("push", c)]) + ["SLOAD"]), mutability="view"),
            TFn("last()", asm.return_word([1, "SLOAD"]), mutability="view")]
    tgt = Target("MapKey", fns)
    atc = call_view(FIRST_CREATED, asm.selector("atc()"))
    last = call_view(FIRST_CREATED, asm.selector("last()"))
    invs = [Inv("invariant_cell_zero", fail_if(atc + ["ISZERO", "ISZERO"])), Inv("invariant_last_zero", fail_if(last + ["ISZERO", "ISZERO"], "flag")),
            Inv("invariant_last_ne1", fail_if(asm.eq_const(last, 1))), Inv("invariant_cell_ne5", fail_if(asm.eq_const(atc, 5)))]
    return Scenario("InvMapKey", [tgt], invs, kind="mapping-symbolic-key-write-constant-key-read:" + ("read-first" if v % 2 == 0 else "write-first"))


def s_mixedtuple(rng, depth, variant=None):
    """a target whose parameter tuple mixes a multi-word STATIC item and a DYNAMIC item: `f(uint256[2] a, bytes b)` (or
    `g(uint256 x, uint256[3] a, bytes b)`) records b.length and a flag for b.length == 65; the brute force calls it with every
    configured length (0, 65, 1024) in the standard ABI encoding."""
    v = rng.randrange(4) if variant is None else variant
    nstat = 2 if v % 2 == 0 else 4                       # head words before the dynamic item's head slot
    sig = "f(uint256[2] a, bytes b)" if nstat == 2 else "g(uint256 x, uint256[3] a, bytes b)"
    off = asm.calldata_arg(nstat)                        # the head slot of b
    blen = off + [4, "ADD", "CALLDATALOAD"]
    body = blen + [0, "SSTORE"] + asm.eq_const(blen, 65) + [1, "SSTORE"] + asm.calldata_arg(1) + [2, "SSTORE"]
    params = [e2e.Param("uint256", f"w{j}") for j in range(nstat)] + [e2e.Param("bytes", "b")]

    def enc(n, words=None):
        return e2e.abi_encode(params, (words or [1] * nstat) + [bytes(n)])

    def from_model(model, args=()):
        # the length of THIS call's b: its size symbol (or a literal) is the token after the head words and the offset
        toks = [t for t in args]
        sym = next((t for t in toks if t.startswith("p_b_length")), None)
        if sym is not None:
            n = model.get(sym, 0)
        elif len(toks) > nstat + 1:
            n = _tok(toks[nstat + 1], model)
        else:
            n = 0
        words = [0] * nstat
        return e2e.abi_encode(params, words + [bytes(min(n, 4096))])

    f = TFn(sig, body, calldatas=[enc(n) for n in (0, 65, 1024)], from_model=from_model)
    other = TFn("clear()", [0, 0, "SSTORE", 0, 1, "SSTORE"])
    fns = [f, other] if v < 2 else [other, f]
    fns += [TFn("len()", asm.return_word([0, "SLOAD"]), mutability="view"), TFn("flag()", asm.return_word([1, "SLOAD"]), mutability="view")]
    tgt = Target("Mixed", fns)
    ln = call_view(FIRST_CREATED, asm.selector("len()"))
    fl = call_view(FIRST_CREATED, asm.selector("flag()"))
    invs = [Inv("invariant_len_ne65", fail_if(asm.eq_const(ln, 65))), Inv("invariant_len_ne1024", fail_if(asm.eq_const(ln, 1024), "flag")),
            Inv("invariant_flag_zero", fail_if(fl)), Inv("invariant_len_lt2000", fail_if(ln + [1999, "LT"]))]
    return Scenario("InvMixed", [tgt], invs, kind="static-array-then-dynamic-parameter:" + ("2-words" if nstat == 2 else "4-words"))


def s_alias(rng, depth, variant=None):
    """a symbolic address kept in storage (`set(address a)`) and CALLed by two different target functions started from the same
    frontier state (`poke()` sends 0x01, `poke2()` sends 0x02, the first returned word goes to `last`); candidate accounts: A
    (returns nothing), B (returns 0x28 + first calldata byte), the target itself, an EOA. No symbolic branch precedes the CALL,
    so the alias resolution happens on the root path of the transaction."""
    v = rng.randrange(4) if variant is None else variant
    A, Bq, T = FIRST_CREATED, FIRST_CREATED + 1, FIRST_CREATED + 2

    def poke(byte):
        return [0, 0x20, "MSTORE", ("push", byte), 0, "MSTORE8",
                32, 0x20, 1, 0, 0, 0, "SLOAD", "GAS", "CALL", "POP", 0x20, "MLOAD", 1, "SSTORE"]

    fset = TFn("set(address a)", X + [("push", e2e.M160), "AND", 0, "SSTORE"], domains=[[A, Bq, T, 0xEEEE]])
    p1, p2 = TFn("poke()", poke(1)), TFn("poke2()", poke(2))
    order = [[fset, p1, p2], [fset, p2, p1], [p1, p2, fset], [p2, fset, p1]][v % 4]
    tgt = Target("Caller", order + [TFn("last()", asm.return_word([1, "SLOAD"]), mutability="view")])
    a = Target("CalleeA", [], runtime=asm.assemble_text("STOP"))
    b = Target("CalleeB", [], runtime=asm.assemble_text("PUSH0 CALLDATALOAD PUSH0 BYTE PUSH1 0x28 ADD PUSH0 MSTORE PUSH1 0x20 PUSH0 RETURN"))
    last = call_view(T, asm.selector("last()"))
    invs = [Inv("invariant_last_ne29", fail_if(asm.eq_const(last, 0x29))), Inv("invariant_last_ne2a", fail_if(asm.eq_const(last, 0x2A), "flag")),
            Inv("invariant_last_ne28", fail_if(asm.eq_const(last, 0x28))), Inv("invariant_last_zero", fail_if(last + ["ISZERO", "ISZERO"]))]
    return Scenario("InvAlias", [a, b, tgt], invs, filters={"targetContracts": [T]}, kind="stored-symbolic-callee")


def s_symmap(rng, depth, variant=None):
    """SYMBOLIC target storage with a mapping: `set(){m[k1]=1; armed=1}` writes one entry, `probe(){if (armed) seen = m[k2]}` reads
    another, never-written entry (k2 a literal ≠ k1, or taken from calldata with require(k != k1)); `armed` and `seen` are assumed
    0 in setUp, so `seen != 0` needs set-then-probe from an initial storage with m[k2] ≠ 0 (arbitrary under symbolic storage).
    Variants ≥ 4 add the write-then-read inside one call."""
    v = rng.randrange(6) if variant is None else variant
    k1, k2, k3 = 1, 2, rng.choice([3, 5])
    A = FIRST_CREATED
    m = lambda key: map_slot(key, 0)  # noqa: E731
    armed = [2, "SLOAD"]
    set_ = TFn("set()", [1] + m([("push", k1)]) + ["SSTORE", 1, 2, "SSTORE"])
    probe = TFn("probe()", asm.if_then(armed, m([("push", k2)]) + ["SLOAD", 1, "SSTORE"]))
    probe_at = TFn("probeAt(uint256 k)", require(X + [("push", k1), "EQ", "ISZERO"]) + asm.if_then(armed, m(X) + ["SLOAD", 1, "SSTORE"]),
                   domains=[[k2, k3]])
    both = TFn("setAndProbe()", [1] + m([("push", k1)]) + ["SSTORE"] + m([("push", k2)]) + ["SLOAD", 1, "SSTORE"])
    reader = probe if v % 4 < 2 else probe_at
    fns = [set_, reader] if v % 2 == 0 else [reader, set_]
    if v >= 4:
        fns.append(both)
    fns += [TFn("seen()", asm.return_word([1, "SLOAD"]), mutability="view"), TFn("armed()", asm.return_word(armed), mutability="view")]
    tgt = Target("SymMap", fns)
    seen = call_view(A, asm.selector("seen()"))
    arm = call_view(A, asm.selector("armed()"))
    invs = [Inv("invariant_seen_zero", fail_if(seen + ["ISZERO", "ISZERO"])),
            Inv("invariant_seen_ne7", fail_if(asm.eq_const(seen, 7), "flag")),
            Inv("invariant_not_armed", fail_if(arm))]
    extra = asm.cheat_call(asm.SVM_ADDRESS, 0xDC00BA4D, [[("push", A)]]) + e2e.assume_or_stop(seen + ["ISZERO"]) + \
        e2e.assume_or_stop(arm + ["ISZERO"])

    def slot(key):
        return int.from_bytes(asm.keccak256(key.to_bytes(32, "big") + (0).to_bytes(32, "big")), "big")

    inits = [[(A, slot(k2), x0)] for x0 in (0, 1, 7)] + [[(A, slot(k3), 7)], [(A, slot(k1), 5), (A, slot(k2), 7)]]

    def replay_inits(calls, model):
        out = []
        for (_addr, fn, args, _v, _c) in calls:
            if fn == "probeAt" and args:
                k = _tok(args[0], model) % e2e.W
                out += [[(A, slot(k), 7)], [(A, slot(k), 1)]]
        return out

    return Scenario("InvSymMap", [tgt], invs, replay_inits=replay_inits, kind="symbolic-mapping:" + ("literal-key" if reader is probe else "calldata-key")
                    + (":write-first" if v % 2 == 0 else ":read-first"), setup_extra=extra, init_variants=inits)


TEMPLATES = [s_counter, s_counter, s_setter, s_toggle, s_token, s_token, s_owned, s_owned, s_clock, s_two, s_two, s_two, s_boom,
             s_symstore, s_symmap, s_assertinc, s_alias, s_indirect, s_mapkey, s_mixedtuple]


# ------------------------------------------------------------------------------------------------ halmos output


_CALL = re.compile(r"^    CALL (\S+?)::(\w+)\((.*)\) \(value: (\S+)\) \(caller: (\S+)\)\s*$")
_VERDICT = re.compile(r"^\[(PASS|FAIL|ERROR|TIMEOUT)\] (\S+)")
_ASSIGN = re.compile(r"^    (\S+) = (0x[0-9a-fA-F]+)\s*$")


def parse_reports(stdout: str):
    """-> {test name: [ {model: {name: int}, calls: [(addr, fn, [arg tokens], value token, caller token)], probe: str|None} ]}"""
    out, cur, blocks = {}, None, []
    lines = stdout.splitlines()
    i = 0
    pending_probe = None
    while i < len(lines):
        ln = lines[i]
        m = _VERDICT.match(ln)
        if m:
            out[m.group(2)] = blocks
            blocks = []
            i += 1
            continue
        if ln.startswith("Assertion failure detected in "):
            pending_probe = ln[len("Assertion failure detected in "):].strip()
            i += 1
            continue
        if ln.startswith("Counterexample:"):
            cur = {"model": {}, "calls": [], "probe": pending_probe}
            pending_probe = None
            i += 1
            while i < len(lines) and _ASSIGN.match(lines[i]):
                a = _ASSIGN.match(lines[i])
                cur["model"][a.group(1)] = int(a.group(2), 16)
                i += 1
            if i < len(lines) and lines[i].startswith("Sequence:"):
                i += 1
                while i < len(lines) and (lines[i].startswith("    ") or not lines[i].strip()):
                    c = _CALL.match(lines[i])
                    if c:
                        inner = c.group(3).strip()
                        if inner.startswith("Concat(") and inner.endswith(")"):
                            inner = inner[len("Concat("):-1]
                        args = [t.strip() for t in inner.split(",")] if inner else []
                        cur["calls"].append((c.group(1), c.group(2), args, c.group(4), c.group(5)))
                    if not lines[i].strip():
                        i += 1
                        break
                    i += 1
            blocks.append(cur)
            continue
        i += 1
    out["<tail>"] = blocks
    return out


def _tok(tok: str, model: dict) -> int:
    tok = tok.strip()
    if tok.startswith("0x"):
        return int(tok, 16)
    if tok.isdigit():
        return int(tok)
    return model.get(tok, 0)


def replay_lines(batch, scn, block, inv_name, init=()):
    """the printed call sequence + model on the reference EVM -> (indices of the committed calls, index of the invariant call)"""
    model = block["model"]
    batch.load(0)
    batch.add("baldefault " + e2e.hx(1 << 128))
    for a_, sl_, v_ in init:
        batch.add(f"storage {e2e.hx(a_)} {e2e.hx(sl_)} {e2e.hx(v_)}")
    idxs = []
    sels = {}
    for t in scn.targets:
        for f in t.fns:
            sels[(t.addr, f.canon.split("(")[0])] = f
    for k, (addr, fn, args, value, caller) in enumerate(block["calls"], 1):
        a = int(addr, 16) if addr.startswith("0x") else next((t.addr for t in scn.targets if t.name == addr), 0)
        f = sels.get((a, fn))
        if f is None:
            return None, None
        if f.from_model is not None:
            cd = asm.selector(f.canon).to_bytes(4, "big") + f.from_model(model, args)
        else:
            cd = asm.selector(f.canon).to_bytes(4, "big") + b"".join((_tok(x, model) % e2e.W).to_bytes(32, "big") for x in args)
        idxs.append(batch.call(a, cd, sender=_tok(caller, model) & e2e.M160, value=0, commit=True))
        ts = [v for n, v in model.items() if n.startswith(f"halmos_block_timestamp_depth{k}_")]
        if ts:
            batch.add(f"param timestamp {e2e.hx(ts[0])}")
    sel = asm.selector(f"{inv_name}()").to_bytes(4, "big") if inv_name else b""
    inv_idx = batch.call(FOUNDRY_TEST, sel) if inv_name else None
    return idxs, inv_idx


# ------------------------------------------------------------------------------------------------ filters: code vs Spec, directly


def check_filters_direct(ctx):
    """every combination of target/exclude contracts and target/exclude selectors over two targets (each possibly in several
    filters at once) through the real resolve_target_contracts / resolve_target_selectors, against the Foundry rules
    (vlib/e2e.Scenario.targeted / callable_of). Selector entries are non-empty (an empty entry is skipped by Foundry and kept as a
    key by halmos: recorded in Props/C15.lean, outside this comparison)."""
    import itertools
    import types
    from types import MappingProxyType

    from vlib.artifacts import build, reset_halmos_state
    from vlib.impl import use_repo

    use_repo()
    import halmos.__main__ as hm
    from halmos.exceptions import HalmosException
    from halmos.sevm import FOUNDRY_TEST as FT, con_addr
    from halmos.solve import InvariantTestingContext

    rng = random.Random(7)
    a, _ = t_counter(rng, "CounterA")
    b = Target("CounterB", [TFn("bump()", [0, "SLOAD", 2, "ADD", 0, "SSTORE"]), TFn("zero()", [0, 0, "SSTORE"]),
                            TFn("get()", asm.return_word([0, "SLOAD"]), mutability="view")])
    a.addr, b.addr = FIRST_CREATED, FIRST_CREATED + 1
    A, B = a.addr, b.addr
    jsons = {A: build(a.desc()).contract_json, B: build(b.desc()).contract_json}
    a_sels = [asm.selector(f.canon) for f in a.fns if f.mutability != "view"]
    b_sels = [asm.selector("bump()"), asm.selector("zero()")]
    subsets = [[], [A], [B], [A, B]]
    sel_opts = [[], [(A, a_sels[:1])], [(B, b_sels[:1])], [(A, a_sels[:1]), (B, b_sels)], [(B, b_sels[1:])], [(A, a_sels), (A, a_sels[:1])]]
    ex = types.SimpleNamespace(code={FT: None, con_addr(A): None, con_addr(B): None})

    def to_map(entries):
        d = {}
        for addr, sels in entries:
            d.setdefault(con_addr(addr), []).extend(s.to_bytes(4, "big") for s in sels)
        return MappingProxyType({k: frozenset(v) for k, v in d.items()})

    for tc, xc, ts, xs in itertools.product(subsets, subsets, sel_opts, sel_opts):
        flt = {"targetContracts": tc, "excludeContracts": xc, "targetSelectors": ts, "excludeSelectors": xs}
        scn = Scenario("F", [a, b], [], filters=flt)
        inv = InvariantTestingContext(
            target_senders=frozenset(), target_contracts=frozenset(con_addr(x) for x in tc), target_selectors=to_map(ts),
            excluded_senders=frozenset(), excluded_contracts=frozenset(con_addr(x) for x in xc), excluded_selectors=to_map(xs))
        try:
            got = sorted(x.as_long() for x in hm.resolve_target_contracts(inv, ex))
        except HalmosException:
            got = []
        want = sorted(t.addr for t in scn.targeted())
        key = "+".join(k for k, v in flt.items() if v) or "nofilter"
        overlap = []
        if set(tc) & set(xc):
            overlap.append("target&exclude-contract")
        if set(xc) & {x for x, _ in ts}:
            overlap.append("excluded-contract-with-targetSelector")
        if {x for x, _ in ts} & {x for x, _ in xs}:
            overlap.append("target&exclude-selectors-same-contract")
        ctx.case(f"filters-direct|{tc}|{xc}|{ts}|{xs}")
        ctx.count("filters-direct:" + ("overlap" if overlap else "disjoint"))
        if got != want:
            ctx.violation(
                f"filters-not-as-foundry|contracts|{'+'.join(overlap) or key}",
                f"resolve_target_contracts with {flt} = {[hex(x) for x in got]}, Foundry rules give {[hex(x) for x in want]} "
                f"(A={A:#x}, B={B:#x})", {"direct": True})
            continue
        for t in scn.targeted():
            gs = sorted(sig for sig, _ in hm.resolve_target_selectors(inv, con_addr(t.addr), jsons[t.addr]))
            ws = sorted(f.canon for f in scn.callable_of(t))
            if gs != ws:
                ctx.violation(f"filters-not-as-foundry|selectors|{'+'.join(overlap) or key}",
                              f"resolve_target_selectors({t.name}) with {flt} = {gs}, Foundry rules give {ws}", {"direct": True})


# ------------------------------------------------------------------------------------------------ the check


@contextlib.contextmanager
def probes_awaited():
    """before a frontier level ≥ 2 is computed, wait until every solver query submitted so far (the probes of the previous level:
    assertion failures inside target functions) has been answered and its callback has run — what happens in an ordinary run
    whenever the solver is faster than the invariant checks on the previous level"""
    import time

    from vlib import artifacts
    from vlib.impl import use_repo

    use_repo()
    import halmos.__main__ as hm

    orig = hm._compute_frontier

    def compute(ctx_, depth_):
        if depth_ >= 2:
            artifacts._drain_executors(timeout=5.0)
            time.sleep(0.05)
        yield from orig(ctx_, depth_)

    hm._compute_frontier = compute
    try:
        yield
    finally:
        hm._compute_frontier = orig


def run_scenario(scn, depth, solver_cmd=None, **cfg):
    from vlib.artifacts import YICES_COMMAND, run_contract_offline

    desc, others = scn.build()
    wait = getattr(scn, "wait_probes", False)
    if wait:
        cfg.setdefault("solver_threads", 1)
    with (probes_awaited() if wait else contextlib.nullcontext()):
        run = run_contract_offline(desc, others=others, solver_command=solver_cmd or YICES_COMMAND, invariant_depth=depth,
                                   solver_timeout_assertion="5000ms", **cfg)
    return desc, others, run


def flt_key(flt):
    return "+".join(sorted(flt)) or "nofilter"


def check_scenarios(ctx, items):
    """items: list of dict(scn, depth, spec). Runs halmos on each, then one reference batch for brute force, one for replays."""
    batch = e2e.RefBatch()
    for it in items:
        scn, depth = it["scn"], it["depth"]
        it["desc"], it["others"], it["run"] = run_scenario(scn, depth)
        it["explore"] = []
        for init in scn.init_variants:
            ei, it["moves"], it["names"] = e2e.explore_lines(batch, scn, it["desc"], depth, init)
            it["explore"].append(ei)
    batch.run(ctx)
    rep = e2e.RefBatch()
    for it in items:
        scn, depth, run = it["scn"], it["depth"], it["run"]
        it["levels_by_init"] = [e2e.parse_explore(batch.replies[ei]) for ei in it["explore"]]
        it["reports"] = parse_reports(run.stdout)
        rep.world(it["desc"])
        it["replays"] = []
        for inv in scn.invs:
            for blk in it["reports"].get(f"{inv.name}()", []):
                if blk["probe"]:
                    continue
                # the model does not name the arbitrary initial storage (symbols `storage_…`): a replay from any admissible
                # initial storage counts
                inits = list(scn.init_variants) + (scn.replay_inits(blk["calls"], blk["model"]) if scn.replay_inits else [])
                tries = [replay_lines(rep, scn, blk, inv.name, init) for init in inits]
                it["replays"].append((inv.name, blk, tries))
    rep.run(ctx)
    for it in items:
        judge(ctx, it, rep)


def judge(ctx, it, rep):
    scn, depth, run, levels_by_init = it["scn"], it["depth"], it["run"], it["levels_by_init"]
    levels = levels_by_init[0]
    by = run.by_name
    fk = flt_key(scn.filters)
    nstates = sum(len(lv) for lvs in levels_by_init for lv in lvs)
    ctx.count(f"scenario:{scn.kind}")
    ctx.count(f"depth:{depth}")
    ctx.count(f"filters:{fk}")
    ctx.count("ref:states", nstates)
    ctx.count("ref:moves", len(it["moves"]))
    base = {"spec": it["spec"], "depth": depth, "filters": {k: str(v) for k, v in scn.filters.items()}}
    inv_errors = [m for m in run.errors + run.warnings if "get_invariant_testing_context" in m or "No target contracts" in m]
    callable_ = scn.callable()
    if not callable_:
        # nothing may be called: Foundry refuses to run; halmos raises "No target contracts available" at depth >= 1
        ctx.count("no-callable-target")
    for j, inv in enumerate(scn.invs):
        name = f"{inv.name}()"
        r = by.get(name)
        verdict = {0: "PASS", 1: "FAIL", 2: "TIMEOUT"}.get(r.exitcode, f"ERROR{r.exitcode}") if r is not None else "MISSING"
        first = None
        for vi, lvs in enumerate(levels_by_init):
            for d, lv in enumerate(lvs):
                if first is not None and d >= first[0]:
                    break
                hit = next((s for s in lv if e2e.probe_fails(s.probes[j])), None)
                if hit is not None:
                    first = (d, hit, scn.init_variants[vi])
                    break
        ctx.case(f"{scn.kind}|{fk}|d{depth}|{inv.name.rstrip('0123456789')}|viol@{first[0] if first else '-'}|{verdict}")
        ctx.count(f"verdict:{'violation-reachable' if first else 'no-violation'}:{verdict}")
        if first:
            ctx.count(f"violation-first-at-depth:{first[0]}")
        if verdict == "MISSING":
            ctx.violation(f"invariant-test-missing|{scn.kind}|{fk}", f"{scn.name}.{name}: no result; errors {run.errors[:2]}", base)
            continue
        flagged = [m for lv_, m in run.log if lv_ in ("WARNING", "ERROR", "CRITICAL")]
        if first and verdict == "PASS":
            d, s, init0 = first
            seq = [it["moves"][k][0] for k in s.witness]
            if init0:
                seq = [f"initial storage {[(hex(a_), sl_, v_) for a_, sl_, v_ in init0]}"] + seq
            needs = "block-number-only-difference" if scn.kind == "clock-roll" else ("filters:" + fk if scn.filters else "plain")
            if scn.kind.startswith("symbolic-storage"):
                needs = "untouched-arbitrary-slot-vs-explicit-zero"
            if scn.kind.startswith("symbolic-mapping"):
                needs = "read-of-unwritten-key-after-write-of-another-key"
            if flagged:
                ctx.count("pass-on-violation-but-flagged")
                if not callable_ or inv_errors:
                    continue
            ctx.violation(
                f"invariant-pass-on-reachable-violation|{scn.kind}|{needs}",
                f"{scn.name}.{name} PASS at invariant_depth={depth} (filters {scn.filters}) but the sequence {seq} "
                f"(depth {d}) reaches a state (storage {s.storage}, number {s.num}, timestamp {s.ts}) in which the invariant fails "
                f"on the reference EVM; warnings: {flagged[:2]}", dict(base, invariant=name, sequence=seq))
    # counterexample sequences must replay and be within the depth
    for inv_name, blk, tries in it["replays"]:
        ctx.count("cex-sequence:seen")
        idxs, inv_idx = tries[0]
        for ti, ii in tries:
            if ti is not None and all(rep.outcome(i).halt == "success" for i in ti) and rep.outcome(ii).fails():
                idxs, inv_idx = ti, ii
                break
        if idxs is None:
            ctx.violation(f"cex-sequence-unparsable|{scn.kind}", f"{scn.name}.{inv_name}: {blk['calls']}", base)
            continue
        if len(blk["calls"]) > depth:
            ctx.violation(f"cex-sequence-longer-than-depth|{scn.kind}", f"{scn.name}.{inv_name}: {len(blk['calls'])} calls at depth {depth}", base)
        # each call must be one Foundry may make
        allowed = {(t.addr, f.canon.split("(")[0]) for t, f in callable_}
        snd = set(scn.sender_domain()) if (scn.filters.get("targetSenders") or scn.filters.get("excludeSenders")) else None
        for (addr, fn, _a, _v, caller) in blk["calls"]:
            a = int(addr, 16)
            if (a, fn) not in allowed:
                ctx.violation(f"cex-sequence-calls-filtered-function|{scn.kind}|{fk}",
                              f"{scn.name}.{inv_name}: sequence calls {addr}::{fn} which the filters {scn.filters} exclude", base)
            c = _tok(caller, blk["model"]) & e2e.M160
            if scn.filters.get("targetSenders") and [x for x in scn.filters["targetSenders"] if x not in scn.filters.get("excludeSenders", [])]:
                if c not in snd:
                    ctx.violation(f"cex-sequence-sender-not-targeted|{scn.kind}|{fk}",
                                  f"{scn.name}.{inv_name}: caller {c:#x} not among target senders {scn.filters}", base)
            elif scn.filters.get("excludeSenders") and c in scn.filters["excludeSenders"]:
                ctx.violation(f"cex-sequence-sender-excluded|{scn.kind}|{fk}",
                              f"{scn.name}.{inv_name}: caller {c:#x} is an excluded sender {scn.filters}", base)
        outs = [rep.outcome(i) for i in idxs]
        o = rep.outcome(inv_idx)
        if any(x.halt != "success" for x in outs) or not o.fails():
            ctx.violation(
                f"cex-sequence-replay|{scn.kind}|{fk}",
                f"{scn.name}.{inv_name} (depth {depth}): printed sequence {[(c[1], c[2]) for c in blk['calls']]} with model "
                f"{ {k: hex(v) for k, v in blk['model'].items()} } replays to calls {[x.halt for x in outs]}, invariant halt={o.halt} "
                f"data={o.data.hex()[:72]} flag={o.failed_flag()}", dict(base, invariant=inv_name))
        else:
            ctx.count("cex-sequence:replayed")
    # assertion failures inside targets reachable within depth-1 calls must at least be reported
    if depth >= 1:
        reach = set()
        for d, lv in [(d_, lv_) for lvs in levels_by_init for d_, lv_ in enumerate(lvs[:depth])]:
            for s in lv:
                for k, data in s.panicking_moves.items():
                    if len(data) == 36 and data[:4] == asm.PANIC_SELECTOR.to_bytes(4, "big") and int.from_bytes(data[4:], "big") == 1:
                        reach.add(it["moves"][k][0].split("[")[0])
        for fn in sorted(reach):
            ctx.count("target-assertion:reachable")
            if f"Assertion failure detected in {fn}" not in run.stdout:
                ctx.violation(f"target-assertion-not-reported|{scn.kind}|{fk}",
                              f"{scn.name}: Panic(1) inside {fn} is reachable within {depth} calls but no probe report was printed", base)
            else:
                ctx.count("target-assertion:reported")
                if all(r.exitcode == 0 for r in run.results):
                    ctx.count("target-assertion:reported-but-every-verdict-PASS")


def make_item(seed, tmpl_idx, depth, mode=None, variant=None):
    rng = random.Random(seed)
    tmpl = TEMPLATES[tmpl_idx % len(TEMPLATES)]
    if mode:
        scn = tmpl(rng, depth, mode)
    elif variant is not None and tmpl in (s_token, s_owned, s_two, s_symstore, s_symmap, s_assertinc, s_alias, s_indirect, s_mapkey, s_mixedtuple):
        scn = tmpl(rng, depth, variant)
    else:
        scn = tmpl(rng, depth)
    return {"scn": scn, "depth": depth, "spec": {"seed": seed, "tmpl": tmpl_idx % len(TEMPLATES), "depth": depth, "mode": mode,
                                                 "variant": variant}}


THOROUGH_BUDGET_S = 900


def correspond(ctx):
    check_filters_direct(ctx)
    items = []
    cdir = VERIF / "corpus" / "C15"
    if cdir.exists():
        for p in sorted(cdir.glob("*.json")):
            d = json.loads(p.read_text())
            items.append(make_item(d["seed"], d["tmpl"], d["depth"], d.get("mode"), d.get("variant")))
    # directed: the Block-fields case of dedup_only_identical_cex (states differing only in block.number)
    items.append(make_item(1, TEMPLATES.index(s_clock), 2, "roll"))
    # directed: every filter setting of the two-target template (incl. one contract in several filters at once), and the
    # sender settings with an address in both lists
    n_two = 24
    for v in range(n_two):
        items.append(make_item(1000 + v, TEMPLATES.index(s_two), 2, variant=v))
    for v in (6, 7):
        items.append(make_item(2000 + v, TEMPLATES.index(s_owned), 1, variant=v))
    # directed: symbolic target storage, "explicit zero" vs "never written", both function orders
    for v in range(6):
        items.append(make_item(3000 + v, TEMPLATES.index(s_symstore), 1 + v % 2, variant=v))
    # directed: target functions with an assertion-failure path and a mutating path, called repeatedly (probe reports awaited)
    for v in range(4):
        items.append(make_item(5000 + v, TEMPLATES.index(s_assertinc), 2 + v % 2, variant=v))
    # directed: a target whose parameters mix a multi-word static item and a dynamic one
    for v in range(4):
        items.append(make_item(9000 + v, TEMPLATES.index(s_mixedtuple), 1 + v // 2, variant=v))
    # directed: mapping written through a symbolic key, read through a constant key by a sibling target and by the invariant
    for v in range(4):
        items.append(make_item(8000 + v, TEMPLATES.index(s_mapkey), 2, variant=v))
    # directed: two post-states of one call with identical storage terms, told apart only by a constraint on a branched-on argument
    for v in range(4):
        items.append(make_item(7000 + v, TEMPLATES.index(s_indirect), 1 + v % 2, variant=v))
    # directed: a storage-held symbolic address called by two target functions from the same frontier state
    for v in range(4):
        items.append(make_item(6000 + v, TEMPLATES.index(s_alias), 2, variant=v))
    # directed: symbolic mapping storage, write m[k1] then read the never-written m[k2] (literal / calldata key, both orders)
    for v in range(6):
        items.append(make_item(4000 + v, TEMPLATES.index(s_symmap), 2 if v < 4 else (1 + v % 2 * 2), variant=v))
    n_directed = len(items)
    n = ctx.scale(6, 390)
    for i in range(n):
        t = i % len(TEMPLATES)
        depth = [1, 2, 2, 0, 2, 1, 3][i % 7]
        if depth == 3 and TEMPLATES[t] not in (s_toggle, s_boom, s_owned, s_setter):
            depth = 2
        items.append(make_item(ctx.rng.randrange(1 << 40), t, depth, variant=i // len(TEMPLATES) + (i % 3) * 4))
    import time

    chunk = 24
    for off in range(0, len(items), chunk):
        # directed / corpus items are at the front; random ones stop once the thorough wall-clock budget is used
        if off >= n_directed and ctx.tier != "quick" and time.time() - ctx.t0 > THOROUGH_BUDGET_S:
            ctx.count("budget-stop")
            break
        check_scenarios(ctx, items[off:off + chunk])
    ctx.sample({"scenario": items[-1]["scn"].name, "filters": str(items[-1]["scn"].filters), "depth": items[-1]["depth"],
                "invariants": [i.name for i in items[-1]["scn"].invs]})


def replay(ctx, data) -> bool:
    if data.get("direct"):
        check_filters_direct(ctx)
        return bool(ctx.violations)
    spec = data.get("spec")
    if not spec:
        return False
    check_scenarios(ctx, [make_item(spec["seed"], spec["tmpl"], spec["depth"], spec.get("mode"), spec.get("variant"))])
    return bool(ctx.violations)
