"""C16 — The unsat-core cache never changes a verdict.

Real code under test: solve.parse_unsat_core, check_unsat_cores, solve_end_to_end (+ SolvingContext.unsat_cores),
__main__._solve_end_to_end_callback (append_unsat_core on unsat), sevm.Path.to_smt2 (assertion ids = z3 ast ids).
Model: lean/HalmosVerif/Model/Cache.lean, Driver/Cache.lean.
"""
from __future__ import annotations

import contextlib
import gc
import hashlib
import io
import json
import shutil
import subprocess
import tempfile
import time
from concurrent.futures import Future
from pathlib import Path as FsPath

from vlib.runner import VERIF

ID = "C16"
EXTRACTORS = ["solve_tables"]
LEAN_MODULES = ["HalmosVerif.Props.C16"]
RULE = (
    "(a) parse_unsat_core on real yices/z3 answers to named-assertion queries and on synthetic answers (blank/paren/error-line "
    "variants, glued ids, junk) and check_unsat_cores on random id sets, real vs Lean vs an independent subset test; "
    "(a2) cycles v0<v1<...<v0 of 30-60 conditions (every one needed) through the real pipeline with yices and z3, so the real wrapped "
    "multi-line core goes through parse_unsat_core: stored core == ids printed (read independently) and a later satisfiable sub-query is not "
    "answered from the cache; synthetic wrapped cores; "
    "(b) histories of queries built from z3 conditions through the real Path.append/to_smt2 -> solve_end_to_end -> "
    "_solve_end_to_end_callback with the real SolvingContext (yices and z3), cache on vs cache off vs z3's own verdict on the "
    "conditions, in two modes: paths retained (as run_test does through the futures) and paths dropped with gc.collect() between "
    "queries; histories also produced by the real SEVM on generated multi-path programs; every (id, sexpr digest) serialised is "
    "recorded and IdStable is evaluated; the Lean run model is replayed on the recorded ids/solver answers; "
    "(b2) run level: function-level histories made only of real Path.branch()/activate() sequences (as SEVM.jumpi produces them: "
    "true branch parked, false branch continued, finished path dropped + gc, sibling activated, fresh conditions appended one by one) "
    "and real SEVM explorations of multi-JUMPI programs consumed lazily; id->sexpr monitor over the whole history (IdStable must hold "
    "on the unchanged tree) and cache-on vs cache-off vs z3 after every query; "
    "(b3) one cache fed by paths that extend_path() different pre-states (different inherited constraints, optional slice, the same "
    "hash-consed body conditions, second body condition through branch()/activate()): tracked ids == all condition ids and cache-on == "
    "cache-off == z3 per query; "
    "(b5) paths that need refinement (mul/div/mod by a symbolic operand; really unsat and really sat after refinement) through the real "
    "solve_end_to_end with a non-empty cache: cache-on == cache-off == truth under exact EVM operations; "
    "(b6) the real run_test() loop with run_message replaced by a generator of end states carrying real Paths (stuck+infeasible end state, "
    "success, gc, Panic path steered onto the freed ast ids), cache off vs on: same exit code/counterexamples/verdicts and no core cached for an "
    "end state that is not retained; "
    "(b4) a scripted solver front-end (vlib/stub_solver.py) whose first unsat reply carries an empty core `()`, no core line, or a core "
    "with an error line, followed by satisfiable queries answered by real z3: nothing degenerate is stored and no later query is "
    "answered from the cache; "
    "(c) a directed sweep (shapes of freed/unsat condition x shapes of new condition x number of intervening allocations) for a "
    "*top-level* condition that gets the ast id of a freed one, then the real pipeline is run on each recipe found. "
    "A case is distinct by its text / history digest / recipe."
)
TRUSTED = [
    "external solvers (yices-smt2, z3) are sound and their unsat cores are unsatisfiable subsets (hypothesis SolverOk of the theorems)",
    "z3's in-process verdict on the conjunction of the conditions is the ground truth for small queries",
]
ASSUMPTIONS = [
    "IdStable (no ast id denotes two different conditions along the history of one SolvingContext) — NOT guaranteed by the code; monitored",
]

KEY_FLIP = "unsat-core-cache:recycled-ast-id-flips-verdict"
KEY_RECYCLE = "unsat-core-cache:ids-are-recyclable-z3-ast-ids"


def hexs(s: str) -> str:
    return s.encode("latin-1").hex() or "-"


def _env():
    from vlib import solvekit as K
    import z3
    from halmos.__main__ import CounterexampleHandler, mk_solver
    from halmos.calldata import FunctionInfo
    from halmos.sevm import Path, SMTQuery
    from halmos.solve import ContractContext, FunctionContext, solve_end_to_end

    return K, z3, CounterexampleHandler, mk_solver, FunctionInfo, Path, SMTQuery, ContractContext, FunctionContext, solve_end_to_end


class Pipeline:
    """one FunctionContext (= one SolvingContext / one unsat-core cache) driven like run_test drives it"""

    def __init__(self, eng, cache, solver_cmd):
        K, z3, Handler, mk_solver, FunctionInfo, Path, SMTQuery, ContractContext, FunctionContext, solve_end_to_end = _env()
        self.K, self.solve = K, solve_end_to_end
        self.args = eng.args(cache_solver=cache, solver_command=solver_cmd, solver_timeout_assertion=4.0)
        self.args_long = eng.args(cache_solver=cache, solver_command=solver_cmd, solver_timeout_assertion=30.0)
        self.retries = 0
        cctx = ContractContext(args=self.args, name="T", funsigs=[], creation_hexcode="", deployed_hexcode="", abi={},
                               method_identifiers={}, contract_json={}, libs={}, build_out_map={})
        self.fctx = FunctionContext(args=self.args, info=FunctionInfo("T", "test", "test()", "f8a8fd6d"), solver=None, contract_ctx=cctx)
        self.handler = Handler(ctx=self.fctx, is_invariant=False, is_probe=False, flamegraph_enabled=False,
                               potential_flamegraphs={}, submitted_futures=[])
        self.n = 0

    def query(self, path):
        """to_smt2 -> solve_end_to_end -> callback; returns (verdict, ids, invoked-solver?, core stored by this step)"""
        self.n += 1
        q = path.to_smt2(self.args)
        pc = self.K.path_ctx(self.args, self.n, self.fctx.solving_ctx, q)
        ncores = len(self.fctx.solving_ctx.unsat_cores)
        out = self.solve(pc)
        if (out.result if isinstance(out.result, str) else str(out.result)) not in ("sat", "unsat"):
            # no verdict (timeout under load / solver error): ask once more with a longer timeout
            self.retries += 1
            pc = self.K.path_ctx(self.args_long, self.n, self.fctx.solving_ctx, q)
            out = self.solve(pc)
        self.fctx.call_sequences[self.n] = ""
        fut = Future()
        fut.set_result(out)
        buf = io.StringIO()
        with contextlib.redirect_stdout(buf), contextlib.redirect_stderr(buf):
            self.handler._solve_end_to_end_callback(fut, ex=None, path_ctx=pc, description=None)
        new = self.fctx.solving_ctx.unsat_cores[ncores:]
        verdict = out.result if isinstance(out.result, str) else str(out.result)
        return verdict, list(q.assertions), out.unsat_core, [list(c) for c in new]

    def close(self):
        self.fctx.thread_pool.shutdown(wait=False)
        with contextlib.suppress(Exception):
            self.fctx.solving_ctx.executor.shutdown(wait=False)
        with contextlib.suppress(Exception):
            self.fctx.solving_ctx.dump_dir.cleanup()


def correspond(ctx):
    import logging

    K, z3, Handler, mk_solver, FunctionInfo, Path, SMTQuery, ContractContext, FunctionContext, solve_end_to_end = _env()
    from halmos.solve import check_unsat_cores, parse_unsat_core

    logging.disable(logging.CRITICAL)
    rng = ctx.rng
    eng = K.Engine(nvars=3)
    DEF = ("sat", "unsat")

    def judge(v_on, v_off, t):
        """the property: (1) cache-on `unsat` only for really unsatisfiable queries (z3 ground truth), (2) cache-on == cache-off when both
        external runs produced a verdict.  Runs without a verdict (timeout / error) have nothing to compare: counted, never reported."""
        if v_on not in DEF or v_off not in DEF:
            ctx.count(f"solver-timing:on={v_on}:off={v_off}:truth={t}")
        if t not in DEF:
            ctx.count("solver-timing:ground-truth-unknown")
        if v_on == "unsat" and t == "sat":
            return True
        if v_on in DEF and v_off in DEF and v_on != v_off:
            return True
        if v_on in DEF and t in DEF and v_on != t:
            ctx.count(f"solver-vs-z3:on={v_on}:truth={t}")   # not the cache's doing (the solver itself answered); C05/C11 territory
        return False
    tmp = FsPath(tempfile.mkdtemp(prefix="verif-c16-"))
    yices = shutil.which("yices-smt2") or "/venv/bin/yices-smt2"
    z3bin = shutil.which("z3") or "/venv/bin/z3"
    solver_cmds = {"yices": f"{yices} --smt2-model-format --bvconst-in-decimal", "z3": z3bin}
    ints = K.harvest_ints([("solve.py", {"parse_unsat_core", "check_unsat_cores", "solve_end_to_end"}), ("sevm.py", {"to_smt2"})])
    reqs = []
    x, y, z = eng.vars

    # =============================================================== (a) unit level
    outs = []
    for qi in range(ctx.scale(8, 60)):
        n = rng.randrange(1, 7)
        ids = rng.sample(range(1, 99999), n)
        bad = rng.sample(ids, rng.randrange(1, n + 1))
        lines = ["(set-option :produce-unsat-cores true)", "(set-logic QF_AUFBV)", "(declare-fun v () (_ BitVec 8))"]
        lines += [f"(declare-fun |{i}| () Bool)" for i in ids]
        for k, i in enumerate(ids):
            c = f"(= v #x{k:02x})" if i in bad and len(bad) > 1 else ("false" if i in bad else "(bvuge v #x00)")
            lines.append(f"(assert (=> |{i}| {c}))")
        lines += [f"(assert (! |{i}| :named <{i}>))" for i in ids] + ["(check-sat)", "(get-model)", "(get-unsat-core)"]
        f = tmp / f"u{qi}.smt2"
        f.write_text("\n".join(lines) + "\n")
        for name, cmd in (("yices", [yices, "--smt2-model-format"]), ("z3", [z3bin])):
            out = subprocess.run(cmd + [str(f)], capture_output=True, text=True).stdout
            core = parse_unsat_core(out)
            ctx.count(f"core:real:{name}")
            if out.startswith("unsat"):
                if core is None or not set(core) <= {str(i) for i in ids} or not core:
                    ctx.violation("parse_unsat_core:real-solver-core-misread", f"{name}: {out!r} -> {core}", {"kind": "core", "stdout": out})
                else:
                    # the core must really be unsatisfiable: at least the `false` one or two different equalities
                    if len(bad) > 1 and len(set(core) & {str(i) for i in bad}) < 2 or (len(bad) == 1 and str(bad[0]) not in core):
                        ctx.violation("parse_unsat_core:core-not-unsat", f"{name}: {out!r} -> {core}, bad={bad}", {"kind": "core", "stdout": out})
            outs.append(out)
            if qi < 2:
                ctx.sample({"solver": name, "stdout": out})
    blank = [" ", "\n", "\t", "  ", "\r\n", ""]
    for _ in range(ctx.scale(250, 5000)):
        ids = [str(rng.choice(ints + [rng.randrange(10**6)])) for _ in range(rng.randrange(0, 6))]
        sep = rng.choice([" ", " ", "\n", "  ", "\t", ""])
        core = "(" + rng.choice(blank) + sep.join(f"<{i}>" for i in ids) + rng.choice(blank) + ")"
        err = rng.choice(["", "", '(error "the context is unsatisfiable")\n', '( error  "x")', '(error "a (b) c")\n', "(error)\n", '(error "no paren"\n'])
        head = rng.choice(["unsat", "unsat", "unsat", "sat", "unknown", "Unsat", "unsat\r", "xunsat", ""])
        tail = rng.choice(["", "\n", "\n(<9>)", " trailing"])
        outs.append(head + rng.choice(blank) + err + core + tail)
    outs += ["", "unsat", "unsat\n", "unsat\n()", "unsat ( )", "unsat (<1>", "unsat <1>)", "unsat\n(<1> <x>)", "unsat\n(<1> 2)", "unsat(<01>)", "sat\nunsat\n(<3>)",
             "unsat\n(error \"e\")\n(error \"f\")\n(<4>)", "unsat\n(<-1>)", "unsat\n(< 1>)", "unsat\n(<1>)(<2>)"]
    cdir = VERIF / "corpus" / ID
    if cdir.exists():
        for f in sorted(cdir.glob("*.json")):
            d = json.loads(f.read_text())
            if d.get("kind") == "core":
                outs.append(d["stdout"])
                ctx.count("corpus")
    for out in outs:
        got = parse_unsat_core(out)
        ctx.case("core|" + out, nontrivial=got is not None)
        ctx.count("core:" + ("none" if got is None else f"ids{min(len(got), 4)}"))
        reqs.append((f"core {hexs(out)}", "none" if got is None else "some " + (",".join(got) or "-"), f"core {out!r}"))

    def fmt_ids(l):
        return ",".join(l) or "-"

    for _ in range(ctx.scale(300, 5000)):
        universe = [str(rng.choice(ints + list(range(40)))) for _ in range(rng.randrange(0, 8))]
        cores = []
        for _ in range(rng.randrange(0, 4)):
            cores.append([rng.choice(universe) if (universe and rng.random() < 0.75) else str(rng.randrange(60))
                          for _ in range(rng.randrange(0, 5))])
        got = check_unsat_cores(SMTQuery("", universe), cores)
        want = any(set(c) <= set(universe) for c in cores)
        ctx.case(f"check|{universe}|{cores}", nontrivial=bool(cores))
        ctx.count(f"check:{got}")
        if got != want:
            ctx.violation("check_unsat_cores:not-a-subset-test", f"{universe} {cores} -> {got}", {"kind": "check", "ids": universe, "cores": cores})
        reqs.append((f"check {fmt_ids(universe)} {';'.join(','.join(c) or 'e' for c in cores) or '-'}", "1" if got else "0", f"check {universe} {cores}"))

    # =============================================================== (a2) long cores: the solver wraps its (get-unsat-core) answer
    # n conditions v0<v1<...<v(n-1)<v0: every one is needed, so the core has n members and yices prints it on several lines.
    # Through the real Path.to_smt2 -> solve_end_to_end -> callback; the stored core must be exactly the ids the solver printed,
    # and a later *satisfiable* query made of all but one of the conditions must not be answered from the cache.
    import re as _re

    def truth0(conds):
        sv = z3.Solver()
        sv.set(timeout=5000)
        sv.add(*conds)
        return str(sv.check())

    for li in range(ctx.scale(4, 24)):
        n = rng.choice([30, 36, 45, 60]) if li else 40
        sname = "yices" if li % 2 == 0 else "z3"
        vs = [z3.BitVec(f"p_c{li}_{k}_uint32", 32) for k in range(n)]
        chain = [z3.ULT(vs[k], vs[(k + 1) % n]) for k in range(n)]
        on = Pipeline(eng, True, solver_cmds[sname])
        pA = Path(mk_solver(eng.base_args))
        for c in chain:
            pA.append(c)
        condsA = list(pA.conditions)
        vA, idsA, coreA, newA = on.query(pA)
        raw = FsPath(str(on.fctx.solving_ctx.dump_dir.name if hasattr(on.fctx.solving_ctx.dump_dir, "name") else on.fctx.solving_ctx.dump_dir)) / f"{on.n}.smt2.out"
        out = raw.read_text() if raw.exists() else ""
        printed = _re.findall(r"<([0-9]+)>", out)
        core_lines = [l for l in out.splitlines() if "<" in l]
        ctx.case(f"longcore|{n}|{sname}|{len(core_lines)}", nontrivial=len(core_lines) > 1)
        ctx.count(f"longcore:{sname}:n={n}:lines={min(len(core_lines), 5)}:verdict={vA}")
        if vA == "unsat":
            outs_extra = out
            got = parse_unsat_core(out)
            reqs.append((f"core {hexs(out)}", "none" if got is None else "some " + (",".join(got) or "-"), f"core[long {sname} n={n}]"))
            if got is None or sorted(got) != sorted(printed) or coreA != got:
                ctx.violation("parse_unsat_core:wrapped-core-truncated-or-misread",
                              f"{sname}, {n}-member core printed on {len(core_lines)} line(s): solver printed {len(printed)} ids, parse_unsat_core returns "
                              f"{None if got is None else len(got)} ids, stored core has {None if coreA is None else len(coreA)}",
                              {"kind": "core", "stdout": out})
            if not set(printed) <= set(idsA) or len(printed) < n:
                ctx.count("longcore:solver-core-not-minimal-or-foreign")
            # later satisfiable query: drop one condition that is not on the first printed line (any one if the core is on one line)
            first_line = set(_re.findall(r"<([0-9]+)>", core_lines[0])) if core_lines else set()
            cand = [k for k, c in enumerate(condsA) if str(c.get_id()) not in first_line] or list(range(len(condsA)))
            drop = rng.choice(cand)
            pB = Path(mk_solver(eng.base_args))
            for k, c in enumerate(condsA):
                if k != drop:
                    pB.append(c)
            tB = truth0(list(pB.conditions))
            vB, idsB, _, _ = on.query(pB)
            ctx.count(f"longcore:later-query:{sname}:on={vB}:truth={tB}")
            if tB == "sat" and vB == "unsat":
                ctx.violation("unsat-core-cache:truncated-core-flips-verdict",
                              f"{sname}: a {n}-condition cycle v0<v1<...<v0 is unsat (core printed on {len(core_lines)} lines, {len(printed)} ids); the stored core "
                              f"{on.fctx.solving_ctx.unsat_cores[-1:]} has {len(on.fctx.solving_ctx.unsat_cores[-1]) if on.fctx.solving_ctx.unsat_cores else 0} ids; "
                              f"the satisfiable query without condition #{drop} is answered unsat from the cache",
                              {"kind": "longcore", "n": n, "solver": sname})
            del pB
        on.close()
        del pA, condsA, chain
    # synthetic wrapped cores (independent reading: every <id> between `unsat` [+ error line] and the closing parenthesis)
    for _ in range(ctx.scale(40, 600)):
        ids = [str(rng.randrange(1, 10**5)) for _ in range(rng.randrange(1, 70))]
        per = rng.choice([1, 3, 8, 16, 22])
        rows = [" ".join(f"<{i}>" for i in ids[k:k + per]) for k in range(0, len(ids), per)]
        body = "(" + rng.choice(["\n ", "\n", "\n  "]).join(rows) + ")"
        err = rng.choice(["", '(error "the context is unsatisfiable")\n', '(error "line 1 column 268: model is not available")\n'])
        out = "unsat\n" + err + body + "\n"
        got = parse_unsat_core(out)
        ctx.case("corewrap|" + out, nontrivial=len(rows) > 1)
        ctx.count(f"core:wrapped:lines={min(len(rows), 4)}")
        if got != ids:
            ctx.violation("parse_unsat_core:wrapped-core-truncated-or-misread",
                          f"synthetic {len(ids)}-id core on {len(rows)} line(s): parse_unsat_core returns {None if got is None else len(got)} ids",
                          {"kind": "core", "stdout": out})
        reqs.append((f"core {hexs(out)}", "none" if got is None else "some " + (",".join(got) or "-"), "core[wrapped]"))

    # =============================================================== (b) histories
    seen = {}           # id -> sexpr digest, per SolvingContext history
    unstable = []

    def monitor(tag, path):
        for c in path.conditions:
            i, d = c.get_id(), hashlib.sha1(c.sexpr().encode()).hexdigest()[:16]
            old = seen.setdefault((tag, i), d)
            if old != d:
                unstable.append((tag, i))

    def truth(conds):
        s = z3.Solver()
        s.set(timeout=5000)
        s.add(*conds)
        return str(s.check())

    def cond_pool(k):
        c = rng.choice(ints + [rng.randrange(1, 10**6)]) % 2**256
        return [
            z3.ULT(x, z3.BitVecVal(c, 256)), z3.UGT(x, z3.BitVecVal(c + 7, 256)), x == z3.BitVecVal(c, 256), x == z3.BitVecVal(c + 1, 256),
            z3.ULT(x, y), z3.ULT(y, x), z3.ULT(y, z), z3.ULT(z, x), y == x + 1, z == y + 1, z3.And(z3.ULT(x, y), z3.ULT(y, x), x != c),
            z3.Not(x == z3.BitVecVal(c, 256)), z3.ULT(x + y, z), z3.UGT(x & y, x), (x ^ y) == z3.BitVecVal(c, 256), z3.Or(x == y, y == z),
        ][k]

    def run_history(tag, paths_iter, solver_name, retain):
        """paths_iter yields Path objects (possibly lazily); returns number of queries"""
        on = Pipeline(eng, True, solver_cmds[solver_name])
        off = Pipeline(eng, False, solver_cmds[solver_name])
        kept, rec, flips = [], [], 0
        for path in paths_iter:
            monitor(tag, path)
            conds = list(path.conditions)
            t = truth(conds)
            desc = [c.sexpr()[:80] for c in conds][:6]
            v_on, ids, core, new = on.query(path)
            v_off, _, _, _ = off.query(path)
            rec.append((ids, v_on, v_off, core, new))
            ctx.count(f"history:{solver_name}:{'retain' if retain else 'drop'}:on={v_on}:off={v_off}")
            if judge(v_on, v_off, t):
                flips += 1
                recycled = any(k[0] == tag for k in unstable)
                key = KEY_FLIP if (recycled and v_on == "unsat") else f"unsat-core-cache:verdict-differs[cache-on={v_on},cache-off={v_off},truth={t}]"
                ctx.violation(key, f"history {tag} ({solver_name}, paths {'retained' if retain else 'freed'}): query {len(rec)} ids {ids} conditions {desc}: "
                                   f"cache-on {v_on}, cache-off {v_off}, z3 says {t}; cores {on.fctx.solving_ctx.unsat_cores}",
                              {"kind": "history", "tag": tag})
            if retain:
                kept.append(path)
            del conds, path
            if not retain:
                gc.collect()
        # replay on the Lean run model: solver answers as recorded (cache-off verdict; core as parsed when the solver was asked)
        if rec:
            items = []
            for ids, v_on, v_off, core, new in rec:
                cf = "none" if core is None else (",".join(core) or "e")
                items.append(f"{fmt_ids(ids)}/{v_off}/{cf if v_off == 'unsat' else 'none'}")
            final = on.fctx.solving_ctx.unsat_cores
            exp = ",".join(r[1] for r in rec) + " # " + (";".join(",".join(c) or "e" for c in final) or "-")
            # when the cache answered, the solver was not asked with cache on: its core is unknown; such histories are replayed
            # only if every cache hit was for a query the cache-off solver also found unsat
            if any(r[1] not in DEF or r[2] not in DEF for r in rec):
                ctx.count("solver-timing:history-not-replayed-on-model")   # a run without a verdict cannot be replayed deterministically
            elif all(not (r[1] == "unsat" and r[3] is None and r[2] != "unsat") for r in rec) and all(len(i) > 0 for i, *_ in rec):
                hits = [r for r in rec if r[1] == "unsat" and r[3] is None]
                reqs.append(("run " + "|".join(items), exp, f"run[{tag}]")) if not hits or all(r[4] == [] for r in hits) else None
        ctx.case(f"hist|{tag}|{solver_name}|{retain}|{[(r[0], r[1]) for r in rec]}", nontrivial=any(r[1] == "unsat" for r in rec))
        on.close()
        off.close()
        del kept
        gc.collect()
        return len(rec), flips

    nhist = ctx.scale(8, 150)
    for hi in range(nhist):
        solver_name = "yices" if hi % 2 == 0 else "z3"
        retain = hi % 3 != 2
        nq = rng.randrange(3, 9)
        plan = [[rng.randrange(16) for _ in range(rng.randrange(1, 5))] for _ in range(nq)]

        def gen(plan=plan):
            base = [cond_pool(k) for k in range(16)] if retain else None
            for ks in plan:
                p = Path(mk_solver(eng.base_args))
                for k in ks:
                    p.append(base[k] if base is not None else cond_pool(k))
                yield p

        run_history(f"hand{hi}", gen(), solver_name, retain)

    # histories produced by the real SEVM (many paths per program; every path is queried)
    for pi in range(ctx.scale(4, 40)):
        nb = rng.choice([2, 3, 3, 4])
        items, desc = K.gen_program(rng, nb, [i for i in ints if i < 2**256] + [3, 5, 7], nvars=3, ops=["ADD", "SUB", "AND"])
        code = K.asm(items)
        retain = pi % 2 == 0

        def gen(code=code):
            try:
                exs = eng.run(code)
            except Exception as e:
                ctx.count(f"engine-error:{type(e).__name__}")
                return
            while exs:
                ex = exs.pop(0)
                yield ex.path
                del ex

        n, _ = run_history(f"sevm{pi}:{desc[:60]}", gen(), "yices" if pi % 2 else "z3", retain)
        ctx.count(f"sevm-history-queries:{min(n, 16)}")

    ctx.extra["id_stable_violations_in_histories"] = len(unstable)

    # =============================================================== (b2) run level: real Path.branch()/activate() histories
    # One function-level history = one root Path, one shared z3 solver, one SolvingContext.  Paths are created only through
    # Path.branch() (as SEVM.jumpi does), parked, and activated after the current path has been finished and dropped.
    # On the unchanged tree every condition of the history stays alive (the memo dict shared by all paths of a function holds
    # the terms), so no ast id may ever be seen with two different conditions, and cache-on == cache-off after every query.
    from halmos.utils import create_solver

    def path_history(tag, solver_name, steps):
        on = Pipeline(eng, True, solver_cmds[solver_name])
        off = Pipeline(eng, False, solver_cmds[solver_name])
        hist_seen, core_ids, breaches, flips, nq = {}, set(), [], [], 0
        xs = [z3.BitVec(f"p_h{k}_uint256", 256) for k in range(3)]
        zs = [z3.BitVec(f"p_j{k}_uint256", 256) for k in range(4)]
        ys = [z3.BitVec(f"p_y{k}_uint256", 256) for k in range(steps + 2)]

        def ask(path, what):
            nonlocal nq
            nq += 1
            for c in path.conditions:
                i, d = str(c.get_id()), hashlib.sha1(c.sexpr().encode()).hexdigest()[:16]
                old = hist_seen.setdefault(i, (d, c.sexpr()[:90]))
                if old[0] != d:
                    breaches.append((i, old[1], c.sexpr()[:90], i in core_ids))
            conds = list(path.conditions)
            t = truth(conds)
            v_on, ids, core, new = on.query(path)
            v_off, _, _, _ = off.query(path)
            for c in new:
                core_ids.update(c)
            ctx.count(f"path-history:{what}:on={v_on}:off={v_off}")
            if judge(v_on, v_off, t):
                flips.append((nq, ids, v_on, v_off, t, [c.sexpr()[:70] for c in conds][:5]))
            return v_on

        c0 = rng.choice([5, 7, 100, 2**128]) + rng.randrange(3)
        cur = Path(create_solver())
        cur.append(z3.ULT(xs[0], z3.BitVecVal(c0, 256)), branching=True)
        parked = []
        for k in range(rng.randrange(1, 4)):      # JUMPIs: park the true branch, go on as the false branch
            jc = zs[k] == z3.BitVecVal(1, 256)
            parked.append(cur.branch(jc))
            cur.append(z3.Not(jc), branching=True)
            del jc
        # the deepest false branch runs into a contradiction that only the external solver sees
        cur.append(z3.UGT(xs[0], z3.BitVecVal(c0 + 5, 256)), branching=True)
        ask(cur, "contradiction")
        del cur
        gc.collect()
        budget = steps
        while parked:
            p = parked.pop()                      # DFS order, like SEVM's worklist
            p.activate()
            n = budget if not parked else rng.randrange(2, 6)
            for k in range(n):
                kind = rng.random()
                if kind < 0.7:
                    p.append(ys[k] == ys[k + 1], branching=True)
                elif kind < 0.85:
                    p.append(z3.ULT(ys[k], z3.BitVecVal(rng.randrange(10, 10**6), 256)), branching=True)
                else:
                    p.append(z3.Not(ys[k] == z3.BitVecVal(rng.randrange(10**6), 256)), branching=True)
                ask(p, "sibling")
            if parked and rng.random() < 0.5:     # this sibling also dies in a contradiction of its own
                p.append(z3.UGT(xs[1], xs[2]), branching=True)
                p.append(z3.UGT(xs[2], xs[1]), branching=True)
                ask(p, "contradiction")
            del p
            gc.collect()
        cores = [list(c) for c in on.fctx.solving_ctx.unsat_cores]
        on.close()
        off.close()
        ctx.case(f"pathhist|{tag}|{solver_name}|{nq}|{cores}", nontrivial=bool(cores))
        where = f"history {tag} ({solver_name}, {nq} queries, real Path.branch/activate, finished paths dropped + gc)"
        for i, old, newc, in_core in breaches[:1]:
            key = ("unsat-core-cache:path-history:condition-freed-while-core-cached" if any(b[3] for b in breaches)
                   else "unsat-core-cache:path-history:ast-id-reused-within-function")
            b = next((b for b in breaches if b[3]), breaches[0])
            ctx.violation(key, f"{where}: ast id {b[0]} was serialised for {b[1]!r} and later for {b[2]!r} "
                               f"({len(breaches)} breaches of IdStable; cached cores {cores})", {"kind": "path-history", "tag": tag})
        for f in flips[:1]:
            ctx.violation("unsat-core-cache:path-history:verdict-flipped",
                          f"{where}: query {f[0]} ids {f[1]} conditions {f[5]}: cache-on {f[2]}, cache-off {f[3]}, z3 says {f[4]}; cached cores {cores}",
                          {"kind": "path-history", "tag": tag})
        return nq, len(breaches), len(flips)

    tot = [0, 0, 0]
    for hi in range(ctx.scale(3, 40)):
        r = path_history(f"branch{hi}", "yices" if hi % 3 else "z3", steps=ctx.scale(25, 80))
        tot = [a + b for a, b in zip(tot, r)]

    # the same through the real SEVM: programs with several JUMPIs on symbolic calldata, paths taken lazily from the DFS
    # generator and dropped after their query (parked siblings live on SEVM's worklist)
    for pi in range(ctx.scale(3, 30)):
        items, desc = K.gen_program(rng, rng.choice([3, 4, 4]), [i for i in ints if i < 2**256] + [3, 5, 7], nvars=3, ops=["ADD", "SUB", "AND"])
        code = K.asm(items)
        name = "yices" if pi % 2 else "z3"
        on, off = Pipeline(eng, True, solver_cmds[name]), Pipeline(eng, False, solver_cmds[name])
        hist_seen, nb, nf, nq = {}, 0, 0, 0
        try:
            it = eng.run_iter(code)
            for ex in it:
                path = ex.path
                for c in path.conditions:
                    i, d = c.get_id(), hashlib.sha1(c.sexpr().encode()).hexdigest()[:16]
                    if hist_seen.setdefault(i, d) != d:
                        nb += 1
                t = truth(list(path.conditions))
                v_on = on.query(path)[0]
                v_off = off.query(path)[0]
                nq += 1
                ctx.count(f"path-history:sevm:on={v_on}:off={v_off}")
                if judge(v_on, v_off, t):
                    nf += 1
                    ctx.violation("unsat-core-cache:path-history:verdict-flipped",
                                  f"SEVM program {desc[:80]} ({name}): path {nq}: cache-on {v_on}, cache-off {v_off}, z3 says {t}", {"kind": "path-history-sevm", "desc": desc})
                del ex, path
                gc.collect()
            del it
        except Exception as e:
            ctx.count(f"engine-error:{type(e).__name__}")
        if nb:
            ctx.violation("unsat-core-cache:path-history:ast-id-reused-within-function",
                          f"SEVM program {desc[:80]} ({name}): {nb} ast ids were serialised for two different conditions within one exploration "
                          f"({nq} paths, each dropped after its query)", {"kind": "path-history-sevm", "desc": desc})
        ctx.case(f"pathhist-sevm|{desc}|{nq}", nontrivial=nq > 2)
        tot = [tot[0] + nq, tot[1] + nb, tot[2] + nf]
        on.close()
        off.close()
    ctx.extra["path_history"] = {"queries": tot[0], "idstable_breaches": tot[1], "flips": tot[2]}

    # =============================================================== (b3) several pre-states feeding one cache (invariant tests)
    # One FunctionContext (one unsat-core list) serves paths that extend different frontier states (Path.extend_path), each with its own
    # inherited constraints; the same hash-consed body condition recurs on top of different pre-states.  Cache-on == cache-off == z3.
    bx, by = z3.BitVec("p_inv_x_uint256", 256), z3.BitVec("p_inv_y_uint256", 256)
    for hi in range(ctx.scale(4, 40)):
        sname = "yices" if hi % 2 else "z3"
        on, off = Pipeline(eng, True, solver_cmds[sname]), Pipeline(eng, False, solver_cmds[sname])
        bound = rng.choice([10, 16, 100])
        inherited_pool = [[z3.ULT(bx, z3.BitVecVal(bound, 256))], [z3.ULT(bx, z3.BitVecVal(bound * 50, 256))], [], [z3.ULT(by, bx)],
                          [z3.ULT(bx, z3.BitVecVal(bound, 256)), by == bx + 1], [z3.UGT(bx, z3.BitVecVal(3, 256))]]
        pres = []
        for k in ([0, 1] if hi == 0 else rng.sample(range(len(inherited_pool)), rng.randrange(2, 5))):
            pp = Path(mk_solver(eng.base_args))
            for c in inherited_pool[k]:
                pp.append(c)
            if rng.random() < 0.3 and inherited_pool[k]:
                pp.slice({bx})
            pres.append(pp)
        body_pool = [z3.UGT(bx, z3.BitVecVal(bound * 2, 256)), bx == z3.BitVecVal(bound + 5, 256), z3.ULT(bx, by), z3.UGT(by, z3.BitVecVal(7, 256)),
                     z3.Not(bx == z3.BitVecVal(1, 256)), by == z3.BitVecVal(2, 256)]
        plan = [(0, [0]), (1, [0])] if hi == 0 else [(rng.randrange(len(pres)), rng.sample(range(len(body_pool)), rng.randrange(1, 3))) for _ in range(rng.randrange(4, 9))]
        kept, nq = [], 0
        for pk, bodies in plan:
            path = Path(mk_solver(eng.base_args))
            path.extend_path(pres[pk])
            if len(bodies) > 1 and rng.random() < 0.5:      # second body condition through a real branch()/activate()
                path.append(body_pool[bodies[0]], branching=True)
                child = path.branch(body_pool[bodies[1]])
                child.activate()
                kept.append(path)
                path = child
            else:
                for b in bodies:
                    path.append(body_pool[b], branching=True)
            conds = list(path.conditions)
            t = truth(conds)
            v_on, ids, core, new = on.query(path)
            v_off, _, _, _ = off.query(path)
            nq += 1
            kept.append(path)
            ctx.count(f"pre-states:{sname}:on={v_on}:off={v_off}:truth={t}")
            want_ids = [str(c.get_id()) for c in conds]
            if ids != want_ids:
                ctx.violation("unsat-core-cache:inherited-conditions-not-tracked",
                              f"with --cache-solver the query of a path extending a pre-state tracks ids {ids} but its conditions are {want_ids} "
                              f"({len(list(pres[pk].conditions))} inherited): cores cannot name the inherited conditions they depend on",
                              {"kind": "pre-states", "history": hi})
            if judge(v_on, v_off, t):
                ctx.violation("unsat-core-cache:pre-states:verdict-flipped",
                              f"history {hi} ({sname}): query {nq} on pre-state {pk} (inherited {[str(c)[:50] for c in pres[pk].conditions]}) with body "
                              f"{[str(body_pool[b])[:50] for b in bodies]}: cache-on {v_on}, cache-off {v_off}, z3 says {t}; cached cores "
                              f"{on.fctx.solving_ctx.unsat_cores}", {"kind": "pre-states", "history": hi})
        ctx.case(f"prestates|{hi}|{sname}|{plan}", nontrivial=bool(on.fctx.solving_ctx.unsat_cores))
        on.close()
        off.close()
        del kept, pres

    # =============================================================== (b5) paths whose answer needs refinement
    # The first query is sat with an f_evm_ model, so solve_end_to_end solves the refined query; cache on vs cache off vs the truth under
    # the exact EVM operations (really unsat after refinement, and really sat after refinement).
    from halmos.sevm import f_div, f_mod, f_mul

    rx, ry = z3.BitVec("p_rx_uint256", 256), z3.BitVec("p_ry_uint256", 256)

    def kv(n):
        return z3.BitVecVal(n, 256)

    def udiv0(a_, b_):
        return z3.If(b_ == 0, kv(0), z3.UDiv(a_, b_))

    def urem0(a_, b_):
        return z3.If(b_ == 0, kv(0), z3.URem(a_, b_))

    ref_cases = [
        ("mul-unsat", [f_mul[256](rx, ry) == kv(15), rx == kv(3), ry != kv(5)], [rx * ry == kv(15), rx == kv(3), ry != kv(5)]),
        ("mul-sat", [f_mul[256](rx, ry) == kv(15), rx == kv(3)], [rx * ry == kv(15), rx == kv(3)]),
        ("div-by-zero-unsat", [f_div(rx, ry) == kv(3), ry == kv(0)], [udiv0(rx, ry) == kv(3), ry == kv(0)]),
        ("div-sat", [f_div(rx, ry) == kv(3), ry == kv(4), rx == kv(13)], [udiv0(rx, ry) == kv(3), ry == kv(4), rx == kv(13)]),
        ("mod-unsat", [f_mod[256](rx, ry) == kv(7), ry == kv(5)], [urem0(rx, ry) == kv(7), ry == kv(5)]),
        ("mod-zero-unsat", [f_mod[256](rx, ry) == rx, ry == kv(0), rx == kv(9)], [urem0(rx, ry) == rx, ry == kv(0), rx == kv(9)]),
        ("mod-sat", [f_mod[256](rx, ry) == kv(2), ry == kv(5), rx == kv(12)], [urem0(rx, ry) == kv(2), ry == kv(5), rx == kv(12)]),
    ]
    t_b5 = time.time()
    def mulmod_abs(a_, b_, m_):
        return z3.Extract(255, 0, f_mod[512](f_mul[512](z3.ZeroExt(256, a_), z3.ZeroExt(256, b_)), z3.ZeroExt(256, m_)))

    def mulmod_exact(a_, b_, m_):
        return z3.If(m_ == 0, kv(0), z3.Extract(255, 0, z3.URem(z3.ZeroExt(256, a_) * z3.ZeroExt(256, b_), z3.ZeroExt(256, m_))))

    # 256- and 512-bit multiplications in one query, in both declaration orders (MULMOD's wide product)
    ref_cases += [
        ("mul256-then-mulmod-unsat", [f_mul[256](rx, ry) == kv(10), mulmod_abs(rx, ry, kv(7)) == kv(4), rx == kv(2), ry == kv(5)],
         [rx * ry == kv(10), mulmod_exact(rx, ry, kv(7)) == kv(4), rx == kv(2), ry == kv(5)]),
        ("mulmod-then-mul256-unsat", [mulmod_abs(rx, ry, kv(7)) == kv(3), f_mul[256](rx, ry) == kv(11), rx == kv(2), ry == kv(5)],
         [mulmod_exact(rx, ry, kv(7)) == kv(3), rx * ry == kv(11), rx == kv(2), ry == kv(5)]),
        ("mul256-then-mulmod-sat", [f_mul[256](rx, ry) == kv(10), mulmod_abs(rx, ry, kv(7)) == kv(3), rx == kv(2), ry == kv(5)],
         [rx * ry == kv(10), mulmod_exact(rx, ry, kv(7)) == kv(3), rx == kv(2), ry == kv(5)]),
        ("mulmod-then-mul256-sat", [mulmod_abs(rx, ry, kv(7)) == kv(3), f_mul[256](rx, ry) == kv(10), rx == kv(2), ry == kv(5)],
         [mulmod_exact(rx, ry, kv(7)) == kv(3), rx * ry == kv(10), rx == kv(2), ry == kv(5)]),
    ]
    for ri, (rname, conds_abs, conds_exact) in enumerate(ref_cases):
        t_case = time.time()
        for sname in ("yices", "z3"):
            if sname == "z3" and not rname.startswith("mul") and ctx.tier == "quick":
                continue        # z3 takes 15-20 s on refined 256-bit division queries; yices milliseconds
            if ctx.tier == "quick" and rname.startswith("mul-") and (ri + (sname == "z3")) % 2:
                continue
            if ctx.tier == "quick" and rname.startswith("mul") and not rname.startswith("mul-") and sname == "z3":
                continue
            on, off = Pipeline(eng, True, solver_cmds[sname]), Pipeline(eng, False, solver_cmds[sname])
            # an earlier unsat query of the same function, so that the cache is not empty
            p0 = Path(mk_solver(eng.base_args))
            p0.append(z3.ULT(rx, kv(5)))
            p0.append(z3.UGT(rx, kv(10)))
            on.query(p0)
            pr = Path(mk_solver(eng.base_args))
            for c in conds_abs:
                pr.append(c)
            t = truth0(conds_exact)
            v_on = on.query(pr)[0]
            v_off = off.query(pr)[0]
            ctx.case(f"refined|{rname}|{sname}")
            ctx.count(f"refined:{rname}:{sname}:on={v_on}:off={v_off}:truth={t}")
            if v_on not in DEF or v_off not in DEF:
                ctx.count(f"solver-timing:on={v_on}:off={v_off}:truth={t}")
            elif v_on != v_off or (t in DEF and v_on != t):
                ctx.violation("unsat-core-cache:refined-query:verdict-differs",
                              f"{rname} ({sname}): conditions {[str(c)[:60] for c in conds_abs]} need refinement; with --cache-solver solve_end_to_end answers {v_on}, "
                              f"without it {v_off}; under the exact EVM operations the path is {t}", {"kind": "refined", "case": rname, "solver": sname})
            on.close()
            off.close()
            del p0, pr
        ctx.extra.setdefault('t_b5_cases', {})[rname] = round(time.time() - t_case, 1)
    ctx.extra['t_b5'] = round(time.time() - t_b5, 1)

    # =============================================================== (b6) the real run_test() loop: which end states feed the cache
    # run_test() is driven with its path explorer (run_message) replaced by a generator of end states carrying real Paths: a stuck end state
    # whose condition the solver proves unsat (it is dropped, nothing retains it), a successful path, a gc, then a Panic path whose fresh
    # satisfiable conditions are steered onto the freed ast ids.  Same scenario with the cache off and on: the verdict must be the same, and
    # no core may be cached for an end state that is not retained until the function's queries have finished.
    import halmos.__main__ as hm

    class _Out:
        def __init__(self, error=None):
            self.error, self.data = error, None

    class _Ctx:
        def __init__(self, stuck, error):
            self.output, self._stuck = _Out(error), stuck

        def is_stuck(self):
            return self._stuck

        def get_stuck_reason(self):
            return RuntimeError("stub: unsupported opcode")

        def subcalls(self):
            return []

    class _Ex:
        def __init__(self, path, stuck=False, panic=False):
            self.path, self.context, self.call_sequence, self._panic = path, _Ctx(stuck, "Revert()" if panic else None), [], panic

        def is_panic_of(self, codes):
            return self._panic

    def run_test_scenario(cache, scmd, lo, hi_, info):
        rargs = eng.args(cache_solver=cache, solver_command=scmd, no_status=True, solver_threads=1, solver_timeout_assertion=20.0)
        pool = [z3.BitVec(f"halmos_w{i}_uint256_00", 256) for i in range(60)]
        xx = z3.BitVec("halmos_q_uint256_00", 256)

        def scenario(*_a, **_k):
            ok_path = Path(mk_solver(rargs))
            ok_path.append(z3.ULT(pool[0], z3.BitVecVal(1000, 256)))
            p0 = Path(mk_solver(rargs))
            p0.append(z3.ULT(xx, z3.BitVecVal(lo, 256)))
            p0.append(z3.UGT(xx, z3.BitVecVal(hi_, 256)))
            dead = {c.get_id() for c in p0.conditions}
            info["dead"] = sorted(dead)
            yield _Ex(p0, stuck=True)
            del p0
            yield _Ex(ok_path)
            gc.collect()
            p2 = Path(mk_solver(rargs))
            junk, rec = [], set()
            for i in range(len(pool)):
                for j in range(i + 1, len(pool)):
                    c = z3.simplify(z3.ULE(pool[i], pool[j]))
                    if c.get_id() in dead:
                        p2.append(c)
                        rec.add(c.get_id())
                    else:
                        junk.append(c)
                    if rec == dead:
                        break
                if rec == dead:
                    break
            p2.append(z3.ULT(pool[0], z3.BitVecVal(7, 256)))
            info["recycled"] = sorted(rec)
            info["p2_ids"] = [c.get_id() for c in p2.conditions]
            yield _Ex(p2, panic=True)
            del junk

        fi = FunctionInfo("RT", "check_rt", "check_rt()", "deadbeef")
        cctx = ContractContext(args=rargs, name="RT", funsigs=["check_rt()"], creation_hexcode="", deployed_hexcode="",
                               abi={"check_rt()": {"inputs": [], "name": "check_rt", "type": "function"}}, method_identifiers={"check_rt()": "deadbeef"},
                               contract_json={}, libs={}, build_out_map={})
        fctx = FunctionContext(args=rargs, info=fi, solver=None, contract_ctx=cctx)
        old = hm.run_message
        hm.run_message = scenario
        try:
            with contextlib.redirect_stdout(io.StringIO()), contextlib.redirect_stderr(io.StringIO()):
                res = hm.run_test(fctx)
        finally:
            hm.run_message = old
        verdicts = [str(o.result) for o in sorted(fctx.solver_outputs, key=lambda o: o.path_id)]
        cores = [list(c) for c in fctx.solving_ctx.unsat_cores]
        with contextlib.suppress(Exception):
            fctx.solving_ctx.executor.shutdown(wait=False)
        with contextlib.suppress(Exception):
            fctx.solving_ctx.dump_dir.cleanup()
        return res.exitcode, res.num_models, verdicts, cores

    for ti in range(ctx.scale(3, 20)):
        lo = rng.choice([3, 4, 9])
        hi_ = lo + rng.choice([2, 5])
        scmd = z3bin if ti % 2 == 0 else solver_cmds["yices"]
        info_off, info_on = {}, {}
        off_r = run_test_scenario(False, scmd, lo, hi_, info_off)
        gc.collect()
        on_r = run_test_scenario(True, scmd, lo, hi_, info_on)
        gc.collect()
        ctx.case(f"run_test|{ti}|{lo}|{hi_}|{scmd[-6:]}")
        ctx.count(f"run_test:off={off_r[0]}/{off_r[1]}:on={on_r[0]}/{on_r[1]}:recycled={len(info_on.get('recycled', []))}of{len(info_on.get('dead', []))}")
        dead_on = {str(i) for i in info_on.get("dead", [])}
        stray = [c for c in on_r[3] if c and set(c) <= dead_on]
        if stray:
            ctx.violation("unsat-core-cache:run_test:core-cached-for-unretained-stuck-end-state",
                          f"run_test with --cache-solver: the feasibility query of a stuck end state (conditions ids {sorted(dead_on)}) was proved unsat and its core "
                          f"{stray} is in the function's cache, although that end state is dropped right away (its ast ids can be recycled)",
                          {"kind": "run_test", "dead": sorted(dead_on), "cores": on_r[3]})
        if all(v in DEF for v in off_r[2] + on_r[2]) and (off_r[0], off_r[1], off_r[2]) != (on_r[0], on_r[1], on_r[2]):
            ctx.violation("unsat-core-cache:run_test:verdict-flipped",
                          f"run_test on the same end states: cache off -> exitcode {off_r[0]}, {off_r[1]} counterexample(s), assertion verdicts {off_r[2]}; cache on -> "
                          f"exitcode {on_r[0]}, {on_r[1]} counterexample(s), verdicts {on_r[2]}; cores {on_r[3]}; stuck path ids {info_on.get('dead')}, recycled onto the "
                          f"Panic path: {info_on.get('recycled')} (its ids {info_on.get('p2_ids')})", {"kind": "run_test", "info": info_on})
        elif (off_r[0], off_r[1]) != (on_r[0], on_r[1]):
            ctx.count("solver-timing:run_test")

    # =============================================================== (b4) degenerate cores from the solver / front-end
    # The first unsat reply of a function carries an empty core `()` (what z3 prints when no assertion is named, or a front-end that
    # strips :named), no core line at all, or a core with an error line; the following satisfiable queries must still reach the solver.
    from vlib.stub_solver import Script

    for di, (core_kind, extra) in enumerate([("empty", {}), ("empty", {"error_line": True}), ("none", {}), ("all", {"error_line": True})]):
        with Script(tmp / f"stub{di}") as st:
            st.rule(dict(path=1), reply="unsat", core=core_kind, **extra)
            st.default(reply="real", real=[z3bin])
            st.write()
            on = Pipeline(eng, True, st.command)
            kept = []
            p1 = Path(mk_solver(eng.base_args))
            p1.append(z3.ULT(x, z3.BitVecVal(5, 256)))
            p1.append(z3.UGT(x, z3.BitVecVal(10, 256)))
            v1, ids1, core1, new1 = on.query(p1)
            kept.append(p1)
            ctx.count(f"degenerate-core:{core_kind}:first={v1}:parsed={'none' if core1 is None else len(core1)}:stored={len(new1)}")
            if core1 == [] and new1:
                ctx.violation("unsat-core-cache:empty-core-stored",
                              f"the solver answered `unsat` with the core `()`; the callback stored {new1}: check_unsat_cores is then vacuously true for "
                              f"every later query of the function", {"kind": "degenerate-core", "core": core_kind})
            for qi in range(ctx.scale(4, 12)):
                pq = Path(mk_solver(eng.base_args))
                c = rng.randrange(20, 10**6)
                for cnd in rng.sample([z3.ULT(x, z3.BitVecVal(c, 256)), z3.UGT(y, z3.BitVecVal(c, 256)), x == y + 1, z3.ULT(z, x), y == z3.BitVecVal(c, 256)], rng.randrange(1, 4)):
                    pq.append(cnd)
                t = truth(list(pq.conditions))
                vq, idsq, _, _ = on.query(pq)
                kept.append(pq)
                ctx.case(f"degenerate|{core_kind}|{extra}|{qi}|{idsq}")
                ctx.count(f"degenerate-core:{core_kind}:later:on={vq}:truth={t}")
                if vq == "unsat" and t == "sat":
                    ctx.violation("unsat-core-cache:degenerate-core:verdict-flipped",
                                  f"after an `unsat` reply with core kind {core_kind!r}{' + error line' if extra else ''} (stored cores {on.fctx.solving_ctx.unsat_cores}), "
                                  f"the satisfiable query {[str(k)[:50] for k in pq.conditions]} is answered unsat from the cache",
                                  {"kind": "degenerate-core", "core": core_kind})
            on.close()
            del kept

    # =============================================================== (c) directed search for a recycled top-level id
    shapesA = {
        "and2": lambda c: z3.And(z3.ULT(x, c), z3.UGT(x, c + 7)),
        "and3": lambda c: z3.And(z3.ULT(x, c), z3.UGT(x, c + 7), x != c + 100),
        "eq2": lambda c: z3.And(x == c, x == c + 1),
        "andy": lambda c: z3.And(z3.ULT(x, y), z3.ULT(y, x), x != c),
    }
    shapesB = {
        "ult": lambda c: z3.ULT(x, c), "and2s": lambda c: z3.And(z3.ULT(x, c + 50), z3.UGT(x, c)),
        "or2": lambda c: z3.Or(z3.ULT(x, c), z3.UGT(x, c + 7)), "eq": lambda c: x == c,
        "andy": lambda c: z3.And(z3.ULT(x, y), x != c), "not": lambda c: z3.Not(x == c),
    }
    budget = ctx.scale(20, 600)
    t0 = time.time()
    recipes, tries = [], 0
    kmax = 12 if ctx.tier == "quick" else 40
    for na, fa in shapesA.items():
        for nb_, fb in shapesB.items():
            for k in range(kmax):
                if time.time() - t0 > budget * 0.5:
                    break
                tries += 1
                c = 1000 + tries * 1000
                pA = Path(mk_solver(eng.base_args))
                pA.append(fa(c))
                cond = next(iter(pA.conditions))
                a, sa = cond.get_id(), cond.sexpr()
                del cond, pA
                gc.collect()
                hold = [z3.BitVecVal(c + 500 + i, 256) for i in range(k)]
                pB = Path(mk_solver(eng.base_args))
                pB.append(fb(c + 300))
                b = next(iter(pB.conditions))
                if b.get_id() == a and b.sexpr() != sa:
                    recipes.append((na, nb_, k))
                del b, pB, hold
                gc.collect()
    ctx.count("directed:allocation-recipes-tried", tries)
    ctx.count("directed:top-level-id-reused", len(recipes))
    flipped = []
    for na, nb_, k in recipes[: ctx.scale(6, 40)]:
        for solver_name in ("z3", "yices"):
            on = Pipeline(eng, True, solver_cmds[solver_name])
            c = 77000 + 1000 * len(flipped)
            pA = Path(mk_solver(eng.base_args))
            pA.append(shapesA[na](c))
            vA, idsA, coreA, _ = on.query(pA)
            sexA = [t.sexpr() for t in pA.conditions]
            del pA
            gc.collect()
            hold = [z3.BitVecVal(c + 500 + i, 256) for i in range(k)]
            pB = Path(mk_solver(eng.base_args))
            pB.append(shapesB[nb_](c + 300))
            condsB = list(pB.conditions)
            tB = truth(condsB)
            vB, idsB, _, _ = on.query(pB)
            ctx.case(f"directed|{na}|{nb_}|{k}|{solver_name}")
            ctx.count(f"directed:pipeline:{solver_name}:A={vA}:B={vB}:truth={tB}:same-id={idsA == idsB}")
            if vB == "unsat" and tB == "sat":
                flipped.append({"shapeA": na, "shapeB": nb_, "allocs": k, "solver": solver_name, "idsA": idsA, "coreA": coreA, "idsB": idsB,
                                "condA": sexA, "condB": [t.sexpr() for t in condsB]})
                reqs.append((f"run {fmt_ids(idsA)}/unsat/{','.join(coreA or []) or 'none'}|{fmt_ids(idsB)}/sat/none", f"unsat,unsat # {','.join(coreA or [])}", "run[directed]"))
            on.close()
            del pB, condsB, hold
            gc.collect()
    if flipped:
        w = flipped[0]
        ctx.violation(
            KEY_FLIP,
            f"{len(flipped)} of {2 * min(len(recipes), ctx.scale(6, 40))} directed runs: a satisfiable query is answered unsat from the cache. Example ({w['solver']}): "
            f"path 1 condition {w['condA']} ids {w['idsA']} -> unsat, core {w['coreA']} stored; path 1 freed + gc.collect(); {w['allocs']} intervening "
            f"allocations; path 2 condition {w['condB']} gets ids {w['idsB']} (same z3 ast id) -> solve_end_to_end returns unsat without "
            f"running the solver ('Already proven unsat'), z3 says sat. API level: Path.to_smt2 + solve_end_to_end + SolvingContext.unsat_cores. "
            f"In run_test the Exec of a submitted query stays referenced by the done-callback partial of its Future only when the callback "
            f"was registered before the future completed (concurrent.futures keeps callbacks of pending futures), which is what keeps ids stable there.",
            {"kind": "directed", "recipes": flipped[:5]},
        )
    elif recipes or unstable:
        ctx.violation(KEY_RECYCLE, f"top-level conditions received the ast id of a freed condition in {len(recipes)} of {tries} allocation recipes "
                                   f"(e.g. {recipes[:3]}); IdStable violations observed in histories: {len(unstable)}; no flipped verdict found",
                      {"kind": "directed", "recipes": recipes[:10]})
    ctx.extra["directed"] = {"tried": tries, "recipes": recipes[:20], "flipped": len(flipped)}

    # =============================================================== Lean
    reqs = [r for r in reqs if r]
    replies = ctx.lean("Cache").ask([r for r, _, _ in reqs])
    mism = [f"{label}: request {req[:300]}\n  impl : {exp}\n  model: {got}" for (req, exp, label), got in zip(reqs, replies) if got != exp]
    ctx.note(f"lean requests: {len(reqs)}; histories: {nhist}; unstable ids seen: {len(unstable)}; recipes: {len(recipes)}/{tries}; flipped: {len(flipped)}")
    shutil.rmtree(tmp, ignore_errors=True)
    logging.disable(logging.NOTSET)
    if mism:
        raise RuntimeError(f"Lean model and implementation disagree on {len(mism)} case(s); first: " + mism[0])


def replay(ctx, data) -> bool:
    key = data.get("key")
    correspond(ctx)
    return any(v["key"] == key for v in ctx.violations)
