"""C17 — Solver subprocess lifecycle is safe under every schedule.

Correspondence = schedule replay.  The REAL `halmos.processes.PopenFuture` / `PopenExecutor` classes and the REAL
`halmos.solve.solve_low_level` run under a cooperative scheduler: the names `threading`, `Popen`, `psutil`, `time`,
`concurrent` of the `halmos.processes` module namespace (and `PopenFuture`, `dump`, `open` of `halmos.solve`) are
substituted from here, nothing in /repo is edited.  Exactly one logical thread runs at a time; a thread parks *before*
each instrumented primitive (= one atomic step of lean/HalmosVerif/Model/Popen.lean) and the controller decides who
moves next.  Schedules come from the Lean model (`enumerate`: all schedules within a delay bound) and from random
walks chosen here; for every schedule the set of enabled steps before every step and the final state are compared
with the model, and the property itself (result delivered exactly once, timeout -> unknown, nothing alive / nothing
accepted after shutdown returned, no deadlock) is checked directly on what the real code did.
A second part runs the unmodified classes with real OS subprocesses.
"""
from __future__ import annotations

import ast
import json
import subprocess
import threading
import time
import types
from pathlib import Path

from vlib import runner
from vlib.impl import use_repo

ID = "C17"
EXTRACTORS: list[str] = []
LEAN_MODULES = ["HalmosVerif.Props.C17"]
LEAN_EXTRA_TARGETS: list[str] = []
RULE = (
    "case = (configuration, schedule): 1-4 jobs x {timeout?, ignores SIGTERM?, Popen fails?, answer} x shutdown callers "
    "{none, wait=False, wait=True, two callers}; schedules = every schedule of the Lean model within a delay bound "
    "(<=2 quick, <=3 thorough) for several rotations of the default scheduler, plus random walks chosen on the real code; "
    "a case is distinct by (variant, configuration, label sequence) and non-trivial when at least two threads interleave; "
    "plus directed priority schedules (all 24 orders of submitters/shutdown callers/cancel tasks/workers, >=2 jobs), simulated "
    "process-tree probes, and runs with real OS processes (single processes, shells with children, SIGTERM ignorers, wrappers)"
)
TRUSTED = [
    "the cooperative scheduler and the simulated Popen/psutil/threading/concurrent.futures objects of tools/props/c17.py "
    "(switch points = the model's atomic steps; code between two switch points touches shared state only through them)",
    "CPython's concurrent.futures.Future (set_result / result / Condition protocol) is executed for real, with its Condition "
    "replaced by a cooperative one",
]
ASSUMPTIONS = [
    "real OS process, pipe and signal behaviour is not modelled (simulated processes: exit, ignore-SIGTERM, Popen failure); "
    "communicate() is assumed to return once the process is gone and cancel() to raise nothing but psutil.NoSuchProcess",
    "threads are fairly scheduled (progress statements are 'some step of the thread is enabled and its rank decreases')",
    "ThreadPoolExecutor in shutdown(wait=False) is modelled with one thread per cancel task (more interleavings than the pool)",
    "the Lean model has one executor and no ExecutorRegistry: shutdown_all() is a loop of shutdown(wait=False) over the registered "
    "executors. With one registered executor it executes exactly the primitives of shutdown(wait=False), so every compared "
    "schedule whose even-numbered wait=False callers go through ExecutorRegistry().shutdown_all() ties it to the model; "
    "several executors (registry probes, real runs in mode `registry`) are checked on the real code only",
    "the Lean model has one process per job; process trees (a child that ignores SIGTERM) are covered by direct property checks "
    "only: simulated tree probes and real wrapper/child commands, verdict from process state (/proc: alive and no SIGKILL pending)",
    "cancel() must clean up the tree that stands when it is called and what a SIGTERM-surviving solver forks during the 0.5 s "
    "grace period (judged by the late-fork probes, fork triggered by the SIGTERM itself); forks after the final listing are "
    "outside the property",
    "FunctionContext / SolvingContext construction and the registry-level shutdown are not in the Lean model: every executor "
    "built by the real FunctionContext.__post_init__ (all option combinations that select a code path there) must be shut down "
    "by ExecutorRegistry().shutdown_all() — checked on the real code only (function-context probes, scripted and real processes)",
    "solve_end_to_end is modelled by `pipeline` (core hit / first job / refinement / second job, eight kinds of solver reply); "
    "tied by the stub-solver runs (all reply pairs with scripted Popen, a few pairs with a real sh stub)",
    "real-subprocess verdicts never come from an elapsed-time threshold: readiness, survival and delivery are decided from "
    "/proc state, future state and worker-thread liveness; waits that run out are counted as real:slow:* without verdict",
]

KEY_SUBMIT = "submit-after-shutdown:flag-read-outside-lock"
KEY_CANCEL = "cancel-before-popen:process-starts-after-shutdown"
KEY_JOIN = "shutdown-wait:join-aborts-on-job-exception"
KEY_JOINSNAP = "shutdown-wait:snapshot-outside-lock"

ANSWER_TEXT = {"s": "sat\n", "u": "unsat\n", "k": "unknown\n", "g": "(error \"boom\")\n"}


class SchedAbort(BaseException):
    """raised inside parked logical threads when a run is torn down"""


class HarnessError(Exception):
    pass


# --------------------------------------------------------------------------------------------------------------------
# cooperative scheduler
# --------------------------------------------------------------------------------------------------------------------

class CoopThread:
    __slots__ = ("name", "sem", "pending", "enabled", "state", "choice", "real", "error", "steps")

    def __init__(self, name):
        self.name = name
        self.sem = threading.Semaphore(0)
        self.pending = None        # op name the thread is parked at
        self.enabled = None        # callable -> bool
        self.state = "new"         # new | parked | running | finished
        self.choice = None
        self.real = None
        self.error = None
        self.steps = 0


class Sched:
    def __init__(self):
        self.threads: dict[str, CoopThread] = {}
        self.by_ident: dict[int, CoopThread] = {}
        self.ctl = threading.Semaphore(0)
        self.abort = False
        self.fresh: list[CoopThread] = []

    def current(self) -> CoopThread:
        return self.by_ident[threading.get_ident()]

    def spawn(self, name, fn, first_op=None):
        if name in self.threads:
            raise HarnessError(f"duplicate logical thread {name}")
        t = CoopThread(name)
        self.threads[name] = t
        if first_op is not None:
            t.pending, t.enabled, t.state = first_op, (lambda: True), "parked"
        else:
            self.fresh.append(t)

        def body():
            self.by_ident[threading.get_ident()] = t
            t.sem.acquire()
            try:
                if self.abort:
                    raise SchedAbort()
                t.state = "running"
                t.pending = None
                fn()
            except SchedAbort:
                pass
            except BaseException as e:  # noqa: BLE001 - recorded, compared by the caller
                t.error = e
            finally:
                t.state = "finished"
                t.pending = None
                self.ctl.release()

        t.real = threading.Thread(target=body, daemon=True)
        t.real.start()
        return t

    # called by logical threads -------------------------------------------------------------------------------------
    def park(self, op, enabled=None):
        if self.abort:
            raise SchedAbort()
        t = self.current()
        t.pending, t.enabled, t.state = op, (enabled or (lambda: True)), "parked"
        self.ctl.release()
        t.sem.acquire()
        if self.abort:
            raise SchedAbort()
        t.state, t.pending = "running", None
        t.steps += 1
        return t.choice

    # called by the controller --------------------------------------------------------------------------------------
    def _resume(self, t, choice=None):
        t.choice = choice
        t.sem.release()
        if not self.ctl.acquire(timeout=20):
            raise HarnessError(f"logical thread {t.name} blocked outside a switch point")

    def settle(self):
        """run freshly created threads up to their first switch point (they touch nothing shared before it)"""
        while self.fresh:
            t = self.fresh.pop(0)
            self._resume(t)

    def move(self, name, choice=None):
        t = self.threads[name]
        if t.state != "parked" or not t.enabled():
            raise HarnessError(f"{name} is not enabled")
        self._resume(t, choice)
        self.settle()

    def teardown(self):
        self.abort = True
        for t in self.threads.values():
            if t.state != "finished":
                t.sem.release()
        for t in self.threads.values():
            t.real.join(timeout=20)
            if t.real.is_alive():
                raise HarnessError(f"logical thread {t.name} did not unwind")


# --------------------------------------------------------------------------------------------------------------------
# simulated world
# --------------------------------------------------------------------------------------------------------------------

class Stream:
    def __init__(self):
        self.closed = False

    def close(self):
        self.closed = True


class Job:
    def __init__(self, code: str, timeout_value=None):
        self.code = code
        self.has_timeout = code[0] == "T"
        self.ign_term = code[1] == "I"
        self.popen_fails = code[2] == "F"
        self.answer = code[3]
        # value handed to --solver-timeout-assertion (0 = no timeout)
        self.timeout_value = (timeout_value if timeout_value else 7.5) if self.has_timeout else 0


class World:
    """one executor, its jobs and shutdown callers, with every blocking primitive under the scheduler"""

    def __init__(self, halmos_mods, cfg: str, timeouts=None, tree=False, n_exec=1):
        self.P, self.S = halmos_mods
        # n_exec > 1 (registry probes, outside the Lean model which has one executor): job i belongs to executor i % n_exec;
        # executors are registered through fresh `ExecutorRegistry()` calls, shutdown goes through `shutdown_all()`
        self.n_exec = n_exec
        self.via_registry = set()        # shutdown callers that went through ExecutorRegistry().shutdown_all()
        self.reg_done = set()            # executor indices registered so far
        self.covered = {}                # caller k -> executor indices registered when its shutdown_all() began
        # tree=True (probes outside the Lean model, which has one process per job): every solver process has one child
        # process that ignores SIGTERM; `kids[i]` is its state
        self.tree = tree
        self.kids: dict[int, str] = {}
        jobs, waits = cfg.split(":")
        codes = jobs.split(".")
        timeouts = list(timeouts or [])
        self.jobs = [Job(c, timeouts[n] if n < len(timeouts) else None) for n, c in enumerate(codes)]
        self.waits = [] if waits == "-" else [w == "1" for w in waits]
        self.sched = Sched()
        self.procs: dict[int, SimProc] = {}
        self.futures: dict[int, object] = {}
        self.setres = {}            # job -> number of set_result calls
        self.out = {}               # job -> outcome of solve_low_level
        self.shout = {}             # k -> ret | raised
        self.comm_timeout_seen = {}
        self.timed_out = set()
        self.events = []            # (label, op)
        self.lock_role = "slock"
        self.exec_lock = None
        self.flag = None
        self.first_step_at = {}     # thread name -> index of its first step
        self.finished_at = {}       # thread name -> index of the step after which it was finished
        self.files = {}
        self.flagged = set()
        self._install()

    # -- substitution of names in the module namespaces --------------------------------------------------------------
    def _install(self):
        P, S, w = self.P, self.S, self
        sched = self.sched

        class FakeEvent:
            def __init__(self):
                self._f = False
                if w.flag is None:
                    w.flag = self

            def is_set(self):
                sched.park("flagRead")
                return self._f

            def set(self):
                sched.park("flagSet")
                self._f = True

        class FakeLock:
            def __init__(self):
                self.role = w.lock_role
                self.owner = None
                if self.role == "lock" and w.exec_lock is None:
                    w.exec_lock = self

            def acquire(self, blocking=True, timeout=-1):
                sched.park("lockAcq" if self.role == "lock" else "slockAcq", lambda: self.owner is None)
                self.owner = sched.current().name
                return True

            def release(self):
                if self.role == "lock":
                    sched.park("lockRel")
                self.owner = None

            def locked(self):
                return self.owner is not None

            __enter__ = acquire

            def __exit__(self, *a):
                self.release()

        class FakeThread:
            def __init__(self, target=None, daemon=None, args=(), kwargs=None, name=None, group=None):
                self.target, self.args, self.kwargs = target, args, kwargs or {}

            def start(self):
                sched.park("threadStart")
                cur = sched.current().name
                if not cur.startswith("s"):
                    raise HarnessError("Thread.start outside a submitter")
                sched.spawn("w" + cur[1:], lambda: self.target(*self.args, **self.kwargs))

            def join(self, timeout=None):
                raise HarnessError("unexpected Thread.join")

        fake_threading = types.SimpleNamespace(
            Event=FakeEvent, Lock=FakeLock, RLock=FakeLock, Thread=FakeThread,
            get_ident=threading.get_ident, current_thread=threading.current_thread,
        )

        def fake_popen(cmd, stdout=None, stderr=None, text=None, **kw):
            sched.park("popen")
            i = int(cmd[1])
            job = w.jobs[i]
            if job.popen_fails:
                raise FileNotFoundError(2, "No such file or directory", cmd[0])
            if i in w.procs:
                raise HarnessError(f"second Popen for job {i}")
            p = SimProc(w, i, cmd)
            w.procs[i] = p
            if w.tree:
                w.kids[i] = "running"
            return p

        import psutil as real_psutil

        class FakePsProcess:
            def __init__(self, pid):
                self.p = w.procs.get(pid - 1000)
                if self.p is None or self.p.state != "running":
                    raise real_psutil.NoSuchProcess(pid)
                self.pid = pid

            def children(self, recursive=False):
                i = self.p.i
                return [FakePsChild(i)] if w.kids.get(i) == "running" else []

            def terminate(self):
                sched.park("term")
                if self.p.state != "running":
                    raise real_psutil.NoSuchProcess(self.pid)
                if not w.jobs[self.p.i].ign_term:
                    self.p.state, self.p.rc = "killed", -15

            def wait(self, timeout=None):
                if self.p.state == "running":
                    raise real_psutil.TimeoutExpired(timeout, self.pid)
                return self.p.rc

            def is_running(self):
                sched.park("kill")
                return self.p.state == "running"

            def kill(self):
                if self.p.state == "running":
                    self.p.state, self.p.rc = "killed", -9

        class FakePsChild:
            """descendant of the solver process that ignores SIGTERM (tree probes only)"""

            def __init__(self, i):
                self.i, self.pid = i, 2000 + i

            def __eq__(self, other):
                return isinstance(other, FakePsChild) and other.pid == self.pid

            def __hash__(self):
                return self.pid

            def terminate(self):
                sched.park("term")
                if w.kids.get(self.i) != "running":
                    raise real_psutil.NoSuchProcess(self.pid)

            def is_running(self):
                sched.park("kill")
                return w.kids.get(self.i) == "running"

            def kill(self):
                if w.kids.get(self.i) == "running":
                    w.kids[self.i] = "killed"

        fake_psutil = types.SimpleNamespace(
            Process=FakePsProcess, NoSuchProcess=real_psutil.NoSuchProcess, TimeoutExpired=real_psutil.TimeoutExpired,
            AccessDenied=real_psutil.AccessDenied, ZombieProcess=real_psutil.ZombieProcess, Error=real_psutil.Error,
        )

        clock = [1000.0]

        def fake_time():
            clock[0] += 1.0
            return clock[0]

        fake_time_mod = types.SimpleNamespace(time=fake_time, sleep=lambda s: None, monotonic=fake_time)

        import concurrent.futures as real_cf

        class PoolTask:
            def __init__(self):
                self.is_done = False

            def done(self):
                return self.is_done

        class FakePool:
            def __init__(self, max_workers=None, **kw):
                self.tasks = []

            def __enter__(self):
                return self

            def __exit__(self, *a):
                if not all(t.is_done for t in self.tasks):
                    sched.park("poolExit", lambda: all(t.is_done for t in self.tasks))
                return False

            def submit(self, fn, *args, **kwargs):
                cur = sched.current().name
                fut = getattr(fn, "__self__", None)
                if not cur.startswith("h") or fut is None or not hasattr(fut, "_c17_job"):
                    raise HarnessError("unexpected pool task")
                task = PoolTask()
                self.tasks.append(task)

                def body():
                    try:
                        fn(*args, **kwargs)
                    finally:
                        task.is_done = True

                sched.spawn(f"c{cur[1:]}.{fut._c17_job}", body, first_op="cbegin")
                return task

            def shutdown(self, wait=True, cancel_futures=False):
                self.__exit__()

        def fake_wait(fs, timeout=None, return_when=None):
            fs = list(fs)
            sched.park("poolWait", lambda: all(f.done() for f in fs))
            return (set(fs), set())

        fake_cf = types.SimpleNamespace(
            ThreadPoolExecutor=FakePool, wait=fake_wait, CancelledError=real_cf.CancelledError,
            Future=real_cf.Future, Executor=real_cf.Executor, TimeoutError=real_cf.TimeoutError,
            InvalidStateError=real_cf.InvalidStateError, ALL_COMPLETED=real_cf.ALL_COMPLETED,
            FIRST_COMPLETED=real_cf.FIRST_COMPLETED, FIRST_EXCEPTION=real_cf.FIRST_EXCEPTION,
            as_completed=None,
        )
        fake_concurrent = types.SimpleNamespace(futures=fake_cf)

        class CoopCondition:
            def __init__(self):
                self.depth = 0
                self.waiters = []

            def __enter__(self):
                self.depth += 1
                return self

            def __exit__(self, *a):
                self.depth -= 1
                return False

            def wait(self, timeout=None):
                me = [False]
                self.waiters.append(me)
                d, self.depth = self.depth, 0
                sched.park("cwait", lambda: me[0])
                self.depth = d
                return True

            def notify_all(self):
                for m in self.waiters:
                    m[0] = True
                self.waiters = []

            notify = notify_all

        class CoopList:
            def __init__(self):
                self.items = []

            def append(self, x):
                sched.park("append")
                self.items.append(x)

            def __iter__(self):
                sched.park("snap")
                return iter(list(self.items))

            def __len__(self):
                return len(self.items)

            def items_jobs(self):
                return [f._c17_job for f in self.items]

        RealFuture = P.PopenFuture

        def make_future(cmd, timeout=None):
            f = RealFuture(cmd, timeout=timeout)
            i = int(cmd[1])
            f._c17_job = i
            f._condition = CoopCondition()
            real_set_result, real_result = f.set_result, f.result
            w.setres[i] = 0

            def set_result(r):
                sched.park("setres")
                w.setres[i] += 1
                return real_set_result(r)

            def result(timeout=None):
                sched.park("result")
                return real_result(timeout=timeout)

            f.set_result, f.result = set_result, result
            w.futures[i] = f
            return f

        class NullFile:
            def __init__(self, name):
                self.name = name

            def __enter__(self):
                return self

            def __exit__(self, *a):
                return False

            def write(self, s):
                if not isinstance(s, str):
                    raise TypeError("write() argument must be str")
                w.files[self.name] = s

        self._saved = []

        def sub(mod, name, value):
            self._saved.append((mod, name, getattr(mod, name, None), hasattr(mod, name)))
            setattr(mod, name, value)

        sub(P, "threading", fake_threading)
        sub(P, "Popen", fake_popen)
        sub(P, "psutil", fake_psutil)
        sub(P, "time", fake_time_mod)
        sub(P, "concurrent", fake_concurrent)
        sub(S, "PopenFuture", make_future)
        sub(S, "dump", lambda path_ctx: None)
        sub(S, "open", lambda name, mode="r", *a, **k: NullFile(name))

        class InstrumentedExecutor(P.PopenExecutor):
            """same code; whatever is bound to `_futures` (also by a later rebinding inside the code under test) is
            kept as an instrumented list, so that its reads and writes stay switch points"""

            def __setattr__(self, name, value):
                if name == "_futures" and not isinstance(value, CoopList):
                    cl = CoopList()
                    cl.items = list(value)
                    value = cl
                object.__setattr__(self, name, value)

        self.CoopList = CoopList
        self.lock_role = "lock"
        self.ex = InstrumentedExecutor()
        self.exs = [self.ex] + [InstrumentedExecutor() for _ in range(self.n_exec - 1)]
        self.lock_role = "slock"
        if self.exec_lock is None or self.flag is None:
            raise HarnessError("PopenExecutor no longer creates threading.Lock / threading.Event")
        # the registry is a process-wide singleton: every world starts with a fresh one; the first executor is registered
        # the way halmos does it (a constructor call followed by register), the others by their first submitter
        self._saved_registry = getattr(P.ExecutorRegistry, "_instance", None)
        P.ExecutorRegistry._instance = None
        self.register(0)

    def register(self, e):
        if e not in self.reg_done:
            self.P.ExecutorRegistry().register(self.exs[e])
            self.reg_done.add(e)

    def flag_of(self, e) -> bool:
        ev = getattr(self.exs[e], "_shutdown", None)
        return bool(getattr(ev, "_f", False))

    def restore(self):
        with __import__("contextlib").suppress(Exception):
            self.P.ExecutorRegistry._instance = self._saved_registry
        for mod, name, old, had in reversed(self._saved):
            if had:
                setattr(mod, name, old)
            else:
                delattr(mod, name)

    # -- logical threads -----------------------------------------------------------------------------------------------
    def start_threads(self):
        P, S = self.P, self.S
        for i, job in enumerate(self.jobs):
            args = types.SimpleNamespace(
                resolved_solver_command=["sim-solver", str(i)], verbose=0,
                solver_timeout_assertion=job.timeout_value, cache_solver=False,
            )
            pctx = types.SimpleNamespace(
                args=args, path_id=i, dump_file=Path(f"/c17-sim/{i}.smt2"), query=None,
                solving_ctx=types.SimpleNamespace(executor=self.exs[i % self.n_exec]),
            )

            def body(i=i, pctx=pctx):
                try:
                    if self.n_exec > 1:
                        self.sched.park("sbegin")          # registration is interleaved with the other threads
                        self.register(i % self.n_exec)
                    o = S.solve_low_level(pctx)
                    r = o.result
                    self.out[i] = r if isinstance(r, str) else str(r)
                    if self.out[i] == "unknown" and i in self.timed_out and o.returncode != S.EXIT_TIMEDOUT:
                        self.out[i] = f"unknown(returncode={o.returncode})"
                except P.ShutdownError:
                    self.out[i] = "raisedShutdown"
                except SchedAbort:
                    raise
                except Exception as e:  # noqa: BLE001
                    self.out[i] = "raisedOther"
                    self.files[f"exc{i}"] = repr(e)

            self.sched.spawn(f"s{i}", body)
        for k, wait in enumerate(self.waits):
            def hbody(k=k, wait=wait):
                try:
                    if not wait and k % 2 == 0:
                        # the way halmos requests it (on_exit / on_signal): a fresh constructor call, then shutdown_all().
                        # With one registered executor this executes exactly the primitives of ex.shutdown(wait=False).
                        self.via_registry.add(k)
                        if self.n_exec > 1:
                            self.sched.park("hbegin")
                        self.covered[k] = set(self.reg_done)
                        P.ExecutorRegistry().shutdown_all()
                    else:
                        self.ex.shutdown(wait=wait)
                    self.shout[k] = "ret"
                except SchedAbort:
                    raise
                except BaseException:  # noqa: BLE001
                    self.shout[k] = "raised"

            self.sched.spawn(f"h{k}", hbody)
        self.sched.settle()

    # -- observation ---------------------------------------------------------------------------------------------------
    def enabled(self) -> list[str]:
        out = []
        for t in self.sched.threads.values():
            if t.state != "parked":
                continue
            if t.pending == "comm":
                p = self.procs[int(t.name[1:])]
                if p.state != "running":
                    out.append(f"{t.name}:commRet")
                elif p.comm_timeout is not None:
                    out.append(f"{t.name}t:commTimeout")
            elif t.enabled():
                out.append(f"{t.name}:{t.pending}")
        for i, p in self.procs.items():
            if p.state == "running":
                out.append(f"e{i}:exit")
        return out

    def do(self, label: str):
        """execute one step; returns the op name"""
        n = len(self.events)
        if label.startswith("e"):
            p = self.procs.get(int(label[1:]))
            if p is None or p.state != "running":
                raise HarnessError(f"{label} not enabled")
            p.state, p.rc = "exited", 0
            if self.kids.get(p.i) == "running":
                self.kids[p.i] = "exited"      # a solver that finishes by itself takes its worker child with it
            self.events.append((label, "exit"))
            return "exit"
        name, choice = (label[:-1], "timeout") if label.endswith("t") else (label, "ret")
        t = self.sched.threads.get(name)
        if t is None or t.state != "parked":
            raise HarnessError(f"{label} not enabled")
        op = t.pending
        if op == "comm":
            p = self.procs[int(name[1:])]
            ok = (p.state == "running" and p.comm_timeout is not None) if choice == "timeout" else p.state != "running"
            if not ok:
                raise HarnessError(f"{label} not enabled")
            op = "commTimeout" if choice == "timeout" else "commRet"
            if choice == "timeout":
                self.timed_out.add(int(name[1:]))
        elif choice == "timeout":
            raise HarnessError(f"{label} not enabled")
        self.first_step_at.setdefault(name, n)
        self.events.append((label, op))
        self.sched.move(name, choice)
        for tt in self.sched.threads.values():
            if tt.state == "finished":
                self.finished_at.setdefault(tt.name, n)
        return op

    def registered(self) -> list:
        """job ids in the executor's bookkeeping (`_futures`), read without a switch point"""
        out = []
        for ex in self.exs:
            fs = getattr(ex, "_futures", [])
            items = fs.items if isinstance(fs, self.CoopList) else list(fs)
            out += [getattr(f, "_c17_job", -1) for f in items]
        return out

    def exn_kind(self, i):
        f = self.futures.get(i)
        if f is None:
            return "none"
        e = f._exception
        if e is None:
            return "none"
        if isinstance(e, subprocess.TimeoutExpired):
            return "timeout"
        if isinstance(e, self.P.ShutdownError):
            return "cancelled"
        return "other"

    def final(self) -> dict:
        n = len(self.jobs)
        th = self.sched.threads
        lock = self.exec_lock.owner or "-"

        def wpc(i):
            t = th.get(f"w{i}")
            return "notStarted" if t is None else ("fin" if t.state == "finished" else "run")

        return {
            "flag": "1" if self.flag._f else "0",
            "lock": lock,
            "futs": self.registered(),
            "wpc": [wpc(i) for i in range(n)],
            "proc": [self.procs[i].state if i in self.procs else "none" for i in range(n)],
            "exn": [self.exn_kind(i) for i in range(n)],
            "res": [self.setres.get(i, 0) for i in range(n)],
            "creq": ["1" if getattr(self.futures.get(i), "_cancel_requested", False) else "0" for i in range(n)],
            "sh": [self.shout.get(k, "run") for k in range(len(self.waits))],
            "out": [self.out.get(i, "pending") for i in range(n)],
        }


class SimProc:
    def __init__(self, w: World, i: int, cmd):
        self.w, self.i, self.cmd = w, i, cmd
        self.pid = 1000 + i
        self.state = "running"
        self.rc = None
        self.returncode = None
        self.stdout, self.stderr, self.stdin = Stream(), Stream(), None
        self.comm_timeout = "unset"

    def communicate(self, input=None, timeout=None):
        self.comm_timeout = timeout
        self.w.comm_timeout_seen[self.i] = timeout
        choice = self.w.sched.park("comm")
        if choice == "timeout":
            raise subprocess.TimeoutExpired(self.cmd, timeout)
        self.returncode = self.rc
        text = ANSWER_TEXT[self.w.jobs[self.i].answer] if self.state == "exited" else ""
        return (text, "")

    def poll(self):
        self.w.sched.park("poll")
        if self.state == "running":
            return None
        self.returncode = self.rc
        return self.rc

    def wait(self, timeout=None):
        raise HarnessError("unexpected Popen.wait")

    def kill(self):
        raise HarnessError("unexpected Popen.kill")

    terminate = kill


# --------------------------------------------------------------------------------------------------------------------
# running one schedule on the real code + checking the property on what happened
# --------------------------------------------------------------------------------------------------------------------

_MODS = None


def mods():
    global _MODS
    if _MODS is None:
        use_repo()
        import halmos.processes as P
        import halmos.solve as S

        _MODS = (P, S)
    return _MODS


class Run:
    """result of one schedule on the real code"""

    def __init__(self, cfg):
        self.cfg = cfg
        self.labels = []
        self.enabled = []      # enabled set before each step, and after the last one
        self.final = None
        self.spec = []         # (key, what) property violations observed
        self.error = None      # harness / divergence problem (str)
        self.ops = []


TIMEOUT_POOL = [7.5]


def run_real(cfg: str, chooser, max_steps=400, timeouts=None, tree=False, n_exec=1) -> Run:
    """chooser(step_index, enabled_labels_sorted) -> label or None (stop)"""
    P, S = mods()
    r = Run(cfg)
    if timeouts is None:
        # deterministic spread over the pool (configured time limits; the simulated process ignores the magnitude)
        h = sum(ord(ch) for ch in cfg)
        timeouts = [TIMEOUT_POOL[(h + 3 * n) % len(TIMEOUT_POOL)] for n in range(cfg.count(".") + 1)]
    r.timeouts = timeouts
    w = World((P, S), cfg, timeouts, tree, n_exec)
    try:
        w.start_threads()
        alive_after = {}       # k -> True once shutdown caller k has finished
        while len(r.labels) < max_steps:
            en = sorted(w.enabled())
            r.enabled.append(en)
            lab = chooser(len(r.labels), [e.split(":")[0] for e in en])
            if lab is None:
                break
            if lab not in [e.split(":")[0] for e in en]:
                r.error = f"step {len(r.labels)}: {lab} is not enabled on the real code; enabled: {en}"
                break
            op = w.do(lab)
            r.labels.append(lab)
            r.ops.append(op)
            check_quiescence(w, r, alive_after)
        else:
            r.enabled.append(sorted(w.enabled()))
        if len(r.enabled) == len(r.labels):
            r.enabled.append(sorted(w.enabled()))
        r.final = w.final()
        terminal = not r.enabled[-1]
        check_final(w, r, terminal)
        for t in w.sched.threads.values():
            if t.error is not None and not isinstance(t.error, SchedAbort):
                r.spec.append((f"thread-exception:{t.name[0]}:{type(t.error).__name__}",
                               f"exception escaped logical thread {t.name}: {t.error!r}"))
    except HarnessError as e:
        r.error = f"harness: {e}"
    except Exception as e:  # noqa: BLE001 - the code under test broke an assumption of the harness: a divergence, not a crash
        r.error = f"harness: {type(e).__name__}: {e}"
    finally:
        try:
            w.sched.teardown()
        except HarnessError as e:
            r.error = r.error or f"harness: {e}"
        finally:
            w.restore()
    if r.final is None:
        r.final = {}
    return r


def _index_of(events, label, op):
    for n, (l, o) in enumerate(events):
        if l == label and o == op:
            return n
    return None


def classify_alive(w: World, i: int, k: int) -> tuple[str, str]:
    """why is process i running although shutdown caller k has returned?"""
    ev = w.events
    flagset = _index_of(ev, f"h{k}", "flagSet")
    app = _index_of(ev, f"s{i}", "append")
    snap = _index_of(ev, f"h{k}", "snap")
    pop = _index_of(ev, f"w{i}", "popen")
    wait = w.waits[k]
    # was the flag read under the lock?
    fr = _index_of(ev, f"s{i}", "flagRead")
    la = _index_of(ev, f"s{i}", "lockAcq")
    read_under_lock = fr is not None and la is not None and la < fr
    if wait:
        if w.shout.get(k) == "raised":
            return KEY_JOIN, "shutdown(wait=True) propagated a job's stored exception out of _join and left other jobs running"
        if app is not None and snap is not None and app > snap:
            if read_under_lock:
                return KEY_JOINSNAP, "_join snapshots _futures without the lock: a submit inside its critical section is not waited for"
            return KEY_SUBMIT, "submit read _shutdown before shutdown(wait=True) set it and appended after the _join snapshot"
        return "shutdown-wait:returned-with-live-process", "shutdown(wait=True) returned while a joined job's process is running"
    if app is not None and flagset is not None and app > flagset and (snap is None or app > snap):
        if not read_under_lock:
            return KEY_SUBMIT, ("submit read _shutdown outside the lock before shutdown(wait=False) set it; the job was "
                                "appended and started after shutdown returned")
        return "submit-after-shutdown:other", "job appended after the shutdown snapshot although the flag is read under the lock"
    cb = _index_of(ev, f"c{k}.{i}", "cbegin")
    cdone = w.finished_at.get(f"c{k}.{i}")
    if pop is not None and cdone is not None and cdone < pop:
        return KEY_CANCEL, ("cancel() ran before the worker thread reached Popen (no-op); the process started after "
                            "shutdown(wait=False) returned")
    if cb is None:
        return "quiescence:no-cancel-task", "an accepted future got no cancel task from shutdown(wait=False)"
    return "quiescence:process-survives-cancel", "process running after its cancel task finished"


def check_quiescence(w: World, r: Run, alive_after: dict):
    n = len(w.events) - 1
    # process trees (probes): once a job has delivered, or shutdown(wait=False) has returned, no descendant is left
    for i, st in w.kids.items():
        if st != "running" or ("kid", i) in w.flagged:
            continue
        why = None
        if any((not wt) and k in w.shout for k, wt in enumerate(w.waits)):
            why = "shutdown-nowait"
        elif w.setres.get(i, 0) >= 1 and not any(t.state != "finished" for t in w.sched.threads.values()):
            # everything has finished (in particular every cancel() that was in progress)
            why = "timeout" if i in w.timed_out else "result"
        if why:
            w.flagged.add(("kid", i))
            r.spec.append((f"tree:descendant-alive-after-cancel:{why}",
                           f"job {i}: the solver's child process (ignores SIGTERM) is still running after "
                           f"{'its result was delivered' if why != 'shutdown-nowait' else 'shutdown(wait=False) returned'} "
                           f"[step {n}]"))
    # bookkeeping: a future whose worker thread exists and that has not delivered yet must be known to the executor
    # (otherwise neither shutdown(wait=False) can cancel it nor shutdown(wait=True) wait for it)
    reg = w.registered()
    for i in range(len(w.jobs)):
        if f"w{i}" in w.sched.threads and w.setres.get(i, 0) == 0 and i not in reg and ("lost", i) not in w.flagged:
            w.flagged.add(("lost", i))
            r.spec.append(("bookkeeping:unfinished-future-dropped",
                           f"job {i} was accepted and has not delivered its result, but is no longer in the executor's "
                           f"_futures {reg} [step {n}, after {w.events[-1][0]}:{w.events[-1][1]}]"))
    for k, _wait in enumerate(w.waits):
        if k not in w.shout:
            continue
        # executors this caller is responsible for (all, unless it went through a registry that knew only some of them)
        resp = w.covered.get(k, set(range(w.n_exec))) if k in w.via_registry else {0}
        if k in w.via_registry and ("registry", k) not in w.flagged:
            missed = [e for e in sorted(resp) if not w.flag_of(e)]
            if missed:
                w.flagged.add(("registry", k))
                r.spec.append(("registry:shutdown-all-missed-registered-executor",
                               f"ExecutorRegistry().shutdown_all() returned, but executor(s) {missed} registered before the call "
                               f"(through ExecutorRegistry().register) were not shut down: flag unset, their jobs "
                               f"{[i for i in range(len(w.jobs)) if i % w.n_exec in missed]} keep running / being accepted "
                               f"[shutdown caller {k}, step {n}]"))
        for i, p in w.procs.items():
            if i % w.n_exec not in resp:
                continue
            if p.state == "running":
                key, what = classify_alive(w, i, k)
                r.spec.append((key, f"{what} [job {i}, shutdown caller {k}, step {n}]"))
        # shutdown(wait=True) returned normally: every accepted job has delivered its result
        if _wait and w.shout.get(k) == "ret":
            for i in range(len(w.jobs)):
                if f"w{i}" in w.sched.threads and w.setres.get(i, 0) == 0 and ("wait-incomplete", i, k) not in w.flagged:
                    app = _index_of(w.events, f"s{i}", "append")
                    fs = _index_of(w.events, f"h{k}", "flagSet")
                    if app is not None and fs is not None and app < fs:
                        w.flagged.add(("wait-incomplete", i, k))
                        r.spec.append(("shutdown-wait:returned-before-accepted-job-done",
                                       f"shutdown(wait=True) returned although job {i}, accepted before the shutdown request, "
                                       f"has not delivered its result [shutdown caller {k}, step {n}]"))
        # no job accepted after shutdown returned
        done_at = w.finished_at.get(f"h{k}")
        for i in range(len(w.jobs)):
            first = w.first_step_at.get(f"s{i}")
            if i % w.n_exec not in resp:
                continue
            if first is not None and done_at is not None and first > done_at and i in w.registered():
                r.spec.append(("submit-accepted-after-shutdown-returned",
                               f"submit of job {i} began after shutdown caller {k} returned and was accepted"))


def check_final(w: World, r: Run, terminal: bool):
    n = len(w.jobs)
    for i in range(n):
        c = w.setres.get(i, 0)
        started = f"w{i}" in w.sched.threads
        if c > 1:
            r.spec.append(("result-once:set-result-twice", f"set_result executed {c} times for job {i}"))
        if terminal and started and c != 1:
            r.spec.append(("result-once:never-delivered", f"job {i}: worker started but set_result executed {c} times"))
        if i in w.timed_out and w.sched.threads[f"s{i}"].state == "finished" and w.out.get(i) != "unknown":
            r.spec.append(("timeout-not-unknown", f"job {i} exceeded its time limit but solve_low_level gave {w.out.get(i)}"))
        if w.out.get(i) == "unsat" and not (w.procs.get(i) and w.procs[i].state == "exited" and w.jobs[i].answer == "u"):
            r.spec.append(("unsat-without-solver-answer", f"job {i} reported unsat without the solver printing it"))
        if w.out.get(i) == "sat" and not (w.procs.get(i) and w.procs[i].state == "exited" and w.jobs[i].answer == "s"):
            r.spec.append(("sat-without-solver-answer", f"job {i} reported sat without the solver printing it"))
        if i in w.comm_timeout_seen:
            want = w.jobs[i].timeout_value or None
            if w.comm_timeout_seen[i] != want:
                r.spec.append(("timeout-value-not-passed", f"job {i}: communicate(timeout={w.comm_timeout_seen[i]!r}), configured {want!r}"))
        f = w.futures.get(i)
        if f is not None and w.setres.get(i, 0) >= 1:
            p = w.procs.get(i)
            if p is not None and p.state == "running":
                r.spec.append(("result-set-while-process-running", f"job {i}: set_result executed while its process is still running"))
            if terminal and p is not None and not (p.stdout.closed and p.stderr.closed) and p.state == "killed":
                r.spec.append(("killed-process-streams-left-open", f"job {i}: pipes of a killed process not closed"))
    if terminal:
        stuck = [t.name for t in w.sched.threads.values() if t.state != "finished"]
        if stuck:
            r.spec.append(("deadlock", f"no step enabled but threads {stuck} have not finished"))


# --------------------------------------------------------------------------------------------------------------------
# comparison with the Lean model
# --------------------------------------------------------------------------------------------------------------------

def parse_model_final(s: str) -> dict:
    d = {}
    for part in s.strip().split(" "):
        k, v = part.split("=", 1)
        d[k] = [] if v == "-" else v.split(",")
    return d


def compare_with_model(r: Run, reply: str) -> str | None:
    """None if the model agrees with what the real code did"""
    if not reply.startswith("ok "):
        return f"model: {reply} (real code executed {','.join(r.labels)})"
    body, fin = reply[3:].split(" # ")
    en_model = [sorted([] if e == "-" else e.split("+")) for e in body.split(";")]
    if len(en_model) != len(r.enabled):
        return f"model lists {len(en_model)} enabled sets, real run {len(r.enabled)}"
    for n, (a, b) in enumerate(zip(en_model, r.enabled)):
        if a != b:
            return f"enabled steps differ before step {n}: model {a} / real {b} (prefix {','.join(r.labels[:n])})"
    m = parse_model_final(fin)
    f = r.final
    lock = {"-": "-"}.get(m["lock"][0] if m["lock"] else "-", m["lock"][0] if m["lock"] else "-")
    checks = [
        ("flag", m["flag"][0], f["flag"]),
        ("lock", lock, f["lock"]),
        ("futs", [int(x) for x in m["futs"]], f["futs"]),
        ("proc", m["proc"], f["proc"]),
        ("exn", m["exn"], f["exn"]),
        ("res", [int(x) for x in m["res"]], f["res"]),
        ("creq", m["creq"], f["creq"]),
        ("wpc", [x if x in ("fin", "notStarted") else "run" for x in m["wpc"]], f["wpc"]),
        ("sh", [x if x in ("ret", "raised") else "run" for x in m["sh"]], f["sh"]),
        ("out", m["out"], [o if not o.startswith("unknown(") else o for o in f["out"]]),
    ]
    for name, a, b in checks:
        if a != b:
            return f"final {name}: model {a} / real {b} (schedule {','.join(r.labels)})"
    return None


# --------------------------------------------------------------------------------------------------------------------
# variant detection (structural probes on the real code)
# --------------------------------------------------------------------------------------------------------------------

def detect_variant() -> str:
    """three bits: submitLocked cancelFlag joinFixed — read off the first instrumented primitives of the real code"""
    bits = []
    # 1: first primitive of submit
    r = run_real("tifu:-", lambda n, en: None)
    first = [e for e in r.enabled[0] if e.startswith("s0:")]
    if first == ["s0:flagRead"]:
        bits.append("0")
    elif first == ["s0:lockAcq"]:
        bits.append("1")
    else:
        raise RuntimeError(f"cannot classify PopenExecutor.submit: first primitive {first}")
    # 2: first primitive of the worker thread
    r = run_real("tifu:-", lambda n, en: "s0" if ("s0" in en and "w0" not in en) else None)
    first = [e for e in r.enabled[-1] if e.startswith("w0:")]
    if first == ["w0:popen"]:
        bits.append("0")
    elif first == ["w0:slockAcq"]:
        bits.append("1")
    else:
        raise RuntimeError(f"cannot classify PopenFuture.start/run: first primitive {first} ({r.error})")
    # 3: primitive after _shutdown.set() in shutdown(wait=True)
    r = run_real("tifu:1", lambda n, en: "h0" if n == 0 else None)
    nxt = [e for e in r.enabled[-1] if e.startswith("h0:")]
    if nxt == ["h0:snap"]:
        bits.append("0")
    elif nxt == ["h0:lockAcq"]:
        bits.append("1")
    else:
        raise RuntimeError(f"cannot classify PopenExecutor._join: primitive after flagSet {nxt} ({r.error})")
    return "".join(bits)


# --------------------------------------------------------------------------------------------------------------------
# literals of the code under test
# --------------------------------------------------------------------------------------------------------------------

def harvest_literals() -> list:
    vals = set()
    for rel, names in (("src/halmos/processes.py", None), ("src/halmos/solve.py", {"solve_low_level"})):
        tree = ast.parse((runner.REPO / rel).read_text())
        for node in ast.walk(tree):
            if names is not None:
                if not (isinstance(node, ast.FunctionDef) and node.name in names):
                    continue
                sub = ast.walk(node)
            else:
                sub = [node]
            for x in sub:
                if isinstance(x, ast.Constant) and isinstance(x.value, (int, float)) and not isinstance(x.value, bool):
                    vals.add(x.value)
    out = set()
    for v in vals:
        for d in (-1, 0, 1):
            if v + d > 0:
                out.add(v + d)
    return sorted(out)


# --------------------------------------------------------------------------------------------------------------------
# configurations
# --------------------------------------------------------------------------------------------------------------------

JOB_CODES = [t + i + f + a for t in "tT" for i in "iI" for f in "fF" for a in "sukg"]


def base_configs():
    """small scope, listed exhaustively over the interesting job kinds"""
    one = ["tifu", "Tifu", "TIfs", "tIfk", "tiFu", "Tifg"]
    shs = ["-", "0", "1", "00", "01"]
    cfgs = [f"{j}:{s}" for j in one for s in shs]
    two = [("tifu", "Tifs"), ("tiFu", "tifu"), ("Tifu", "tIfu"), ("TIfu", "tifk")]
    cfgs += [f"{a}.{b}:{s}" for a, b in two for s in ["0", "1", "01"]]
    three = [("tifu", "Tifs", "tiFg"), ("Tifu", "tifu", "tIfk"), ("tifu", "tifu", "tifu")]
    cfgs += [f"{a}.{b}.{c}:{s}" for a, b, c in three for s in ["0", "1"]]
    cfgs += ["tifu.Tifu.tifu.tIfu:0", "tifs.tifu.Tifk.tifu:1"]
    return cfgs


def random_config(rng, max_jobs=4):
    n = rng.choice([1, 2, 2, 3, 3, 4][: max(1, (max_jobs - 1) * 2)])
    jobs = [rng.choice(JOB_CODES) for _ in range(n)]
    sh = rng.choice(["-", "0", "0", "1", "1", "00", "01", "10", "11", "001"])
    return ".".join(jobs) + ":" + sh


# --------------------------------------------------------------------------------------------------------------------
# real subprocesses
# --------------------------------------------------------------------------------------------------------------------

SIGTERM_BIT = 1 << 14     # bit of SIGTERM (15) in the masks of /proc/<pid>/status
SIGKILL_BIT = 1 << 8      # SIGKILL (9)


def proc_info(pid: int):
    """(cmdline list, state letter, SigIgn, pending) of a live process entry, or None"""
    try:
        with open(f"/proc/{pid}/cmdline", "rb") as fh:
            cmd = [x.decode("utf-8", "replace") for x in fh.read().split(b"\0") if x]
        st = {}
        with open(f"/proc/{pid}/status") as fh:
            for line in fh:
                k, _, v = line.partition(":")
                st[k] = v.strip()
        return cmd, st.get("State", "?")[:1], int(st.get("SigIgn", "0"), 16), \
            int(st.get("SigPnd", "0"), 16) | int(st.get("ShdPnd", "0"), 16)
    except (OSError, ValueError):
        return None


def token_procs(token: str) -> dict:
    """pid -> info of every process whose command line mentions `token` (each job's commands carry a unique token)"""
    out = {}
    me = str(__import__("os").getpid())
    for name in __import__("os").listdir("/proc"):
        if not name.isdigit() or name == me:
            continue
        info = proc_info(int(name))
        if info and any(token in c for c in info[0]):
            out[int(name)] = info
    return out


def survivors(token: str) -> dict:
    """processes of the job that are alive and that nobody has killed: not zombie/dead and no SIGKILL pending.
    Decided from process state, not from elapsed time."""
    return {pid: i for pid, i in token_procs(token).items() if i[1] not in "ZX" and not (i[3] & SIGKILL_BIT)}


class RealJob:
    """one job with real OS processes. `tree` = (number of descendants that must exist, top-level ignores SIGTERM,
    descendants ignore SIGTERM): the process tree the command builds; shutdown / the time limit only come after it stands"""

    KINDS = {
        # name: (argv with {t} = token, timeout, tree)
        "true": (["true"], None, None),
        "false": (["false"], None, None),
        "missing-binary": (["/nonexistent/c17-solver"], None, None),
        "not-executable": (["{noexec}"], None, None),               # Popen raises PermissionError
        # cancel() is called before submit(): the worker finds the request before Popen (the ShutdownError path)
        "cancelled-before-start": (["sleep", "{t}"], None, None),
        "sleep-short": (["sleep", "0.05"], None, None),
        "echo": (["sh", "-c", "echo unsat"], 30.0, None),
        "sleep-long": (["sleep", "{t}"], None, (0, False, False)),
        "timeout": (["sleep", "{t}"], 0.05, (0, False, False)),
        "ignore-term": (["sh", "-c", "trap '' TERM; sleep {t}"], None, (1, True, True)),
        "ignore-term-timeout": (["sh", "-c", "trap '' TERM; sleep {t}"], 3.0, (1, True, True)),
        "children": (["sh", "-c", "sleep {t} & sleep {t} & wait"], None, (2, False, False)),
        "children-timeout": (["sh", "-c", "sleep {t} & sleep {t} & wait"], 3.0, (2, False, False)),
        # wrapper that exits on SIGTERM, worker child that ignores it (a --solver-command launcher)
        "wrapper-child-ignores": (["sh", "-c", "(trap '' TERM; exec sleep {t}) & wait"], None, (1, False, True)),
        "wrapper-child-ignores-timeout": (["sh", "-c", "(trap '' TERM; exec sleep {t}) & wait"], 3.0, (1, False, True)),
    }
    # a solver that writes N bytes to stdout / stderr and exits at once, with and without a time limit
    OUT_SIZES = (1, 65535, 65537, 1048576)
    for _n in OUT_SIZES:
        for _lim in (None, 6.0):
            KINDS[f"out-stdout-{_n}" + ("-limit" if _lim else "")] = (["head", "-c", str(_n), "/dev/zero"], _lim, None)
            KINDS[f"out-stderr-{_n}" + ("-limit" if _lim else "")] = (
                ["sh", "-c", f"exec head -c {_n} /dev/zero >&2"], _lim, None)
    del _n, _lim
    SIMPLE = ("true", "false", "missing-binary", "not-executable", "cancelled-before-start", "sleep-short", "sleep-long",
              "timeout")
    NOEXEC = None

    @classmethod
    def noexec_path(cls):
        import os
        import tempfile
        if cls.NOEXEC is None or not os.path.exists(cls.NOEXEC):
            fd, path = tempfile.mkstemp(prefix="c17_noexec_")
            os.write(fd, b"#!/bin/sh\necho unsat\n")
            os.close(fd)
            os.chmod(path, 0o644)
            cls.NOEXEC = path
        return cls.NOEXEC

    ENDLESS = ("sleep-long", "ignore-term", "children", "wrapper-child-ignores")

    def __init__(self, P, kind, serial, escaped):
        self.kind = kind
        argv, self.timeout, self.tree = self.KINDS[kind]
        self.token = f"3{serial % 7}.{serial:05d}{__import__('os').getpid() % 1000:03d}"
        argv = [a.replace("{t}", self.token).replace("{noexec}", self.noexec_path() if "{noexec}" in a else "") for a in argv]
        self.f = P.PopenFuture(argv, timeout=self.timeout)
        self.callbacks = [0]
        self.f.add_done_callback(lambda fut: self.callbacks.__setitem__(0, self.callbacks[0] + 1))
        self.count = [0]
        real_set, real_cancel = self.f.set_result, self.f.cancel

        def set_result(r):
            self.count[0] += 1
            return real_set(r)

        def cancel():
            try:
                return real_cancel()
            except BaseException as e:  # noqa: BLE001 - recorded (the pool of shutdown() would swallow it), re-raised
                escaped.append(types.SimpleNamespace(exc_value=e, via_cancel=True))
                raise

        self.f.set_result, self.f.cancel = set_result, cancel
        self.pre_cancelled = False
        self.stalled = False
        self.stall_obs = []          # consecutive observations (time, bytes written) of the solver blocked in write()
        self.worker = None
        self.t_submit = None
        self.t_ready = None

    CREATED: list = []     # worker threads created by the code under test (recorded by the Thread subclass below)

    def submit(self, ex):
        n_before = len(RealJob.CREATED)
        try:
            self._submit(ex)
        finally:
            made = RealJob.CREATED[n_before:]
            if len(made) == 1:
                self.worker = made[0]

    def _submit(self, ex):
        if self.kind == "cancelled-before-start" and hasattr(self.f, "_cancel_requested"):
            self.f.cancel()
            self.pre_cancelled = True
        elif self.kind == "cancelled-before-start":
            self.f.cmd = ["true"]      # code without a cancel request flag: an ordinary short job
        before = set(threading.enumerate())
        self.t_submit = time.time()
        ex.submit(self.f)
        new = [t for t in threading.enumerate() if t not in before]
        self.worker = new[0] if len(new) == 1 else None      # fallback; normally overwritten from RealJob.CREATED

    def ready(self) -> bool:
        """the process tree stands (decided from /proc): all expected descendants exec'ed, signal dispositions in place"""
        f = self.f
        if f.done() or self.tree is None:
            return True
        if f.process is None:
            return False
        n, top_ign, desc_ign = self.tree
        top = proc_info(f.process.pid)
        if top is None:
            return True   # already gone
        if bool(top[2] & SIGTERM_BIT) != top_ign:
            return False
        desc = {pid: i for pid, i in token_procs(self.token).items() if pid != f.process.pid}
        good = [i for i in desc.values() if i[0] and i[0][0] == "sleep" and bool(i[2] & SIGTERM_BIT) == desc_ign]
        if len(good) == n and len(desc) == n:
            self.t_ready = self.t_ready or time.time()
            return True
        return False

    def cleanup(self):
        import os
        import signal
        for pid in token_procs(self.token):
            with __import__("contextlib").suppress(OSError):
                os.kill(pid, signal.SIGKILL)
        if self.f.process is not None:
            with __import__("contextlib").suppress(Exception):
                self.f.process.kill()


def real_process_runs(ctx, n_runs, literals, forced=None):
    P, _S = mods()
    # exceptions that escape a thread of the code under test (e.g. psutil failing while it scans /proc)
    escaped = []
    old_hook = threading.excepthook
    threading.excepthook = lambda a: escaped.append(a)

    # the only substitution in this section: `threading.Thread` as seen by halmos.processes is a subclass that remembers
    # the thread objects it creates (a worker whose Popen fails ends within microseconds; its state must stay observable)
    class RecordingThread(threading.Thread):
        def __init__(self, *a, **k):
            super().__init__(*a, **k)
            RealJob.CREATED.append(self)

    class ThreadingProxy:
        Thread = RecordingThread

        def __getattr__(self, name):
            return getattr(threading, name)

    old_threading = P.threading
    P.threading = ThreadingProxy()
    old_registry = getattr(P.ExecutorRegistry, "_instance", None)
    try:
        _real_process_runs(ctx, n_runs, P, ctx.rng, escaped, forced)
        if not forced:
            for path in ("shutdown", "timeout"):
                late_fork_probe(ctx, P, escaped, path)
    finally:
        threading.excepthook = old_hook
        P.threading = old_threading
        P.ExecutorRegistry._instance = old_registry
        del RealJob.CREATED[:]


LATE_FORK_WRAPPER = r"""
import signal, subprocess, sys, time
got = []
signal.signal(signal.SIGTERM, lambda *a: got.append(1))      # survives SIGTERM; learns that cancel() has sent it
open(sys.argv[1], "w").close()                               # ready: handler installed, no child yet
while not got:
    time.sleep(0.002)
subprocess.Popen(["sleep", sys.argv[2]])                     # forked after cancel() listed the tree, inside its grace period
with open(sys.argv[1] + ".forked.tmp", "w") as fh:
    fh.write(repr(time.monotonic()))
import os
os.rename(sys.argv[1] + ".forked.tmp", sys.argv[1] + ".forked")
time.sleep(120)
"""

KEY_LATE_FORK = "real:descendant-alive-after-cancel:forked-during-grace-period"


def late_fork_probe(ctx, P, escaped, path):
    """JUDGED. A top-level solver process that survives SIGTERM and forks a child only after cancel() has sent SIGTERM
    (so after cancel() listed the process tree), i.e. inside the grace period. After cancel() — reached through
    shutdown(wait=False) (`path == "shutdown"`) or through the job's time limit (`path == "timeout"`) — no process of
    the tree may survive and the result must be delivered.
    Deterministic: the fork is triggered by the SIGTERM itself. Judged only when the fork is known (CLOCK_MONOTONIC
    stamps of both sides) to have happened at least 0.1 s before the earliest possible end of the 0.5 s grace period;
    otherwise the run is counted as real:slow:* without verdict."""
    import os
    import sys
    import tempfile
    flag = tempfile.mktemp(prefix="c17_latefork_")
    token = f"38.{os.getpid() % 100000:05d}{'77' if path == 'shutdown' else '88'}"
    limit = None if path == "shutdown" else 3.0
    replay = {"kind": "late-fork", "path": path}
    del escaped[:]
    ex = P.PopenExecutor()
    f = P.PopenFuture([sys.executable, "-c", LATE_FORK_WRAPPER, flag, token], timeout=limit)
    t_cancel = []
    real_cancel = f.cancel

    def cancel():
        t_cancel.append(time.monotonic())
        try:
            return real_cancel()
        except BaseException as e:  # noqa: BLE001
            escaped.append(types.SimpleNamespace(exc_value=e))
            raise

    f.cancel = cancel
    count = [0]
    real_set = f.set_result

    def set_result(r):
        count[0] += 1
        return real_set(r)

    f.set_result = set_result
    ctx.count(f"real:late-fork:{path}")
    ctx.case(("real", "late-fork", path))
    try:
        n_before = len(RealJob.CREATED)
        t_submit = time.monotonic()
        ex.submit(f)
        worker = RealJob.CREATED[n_before:]
        worker = worker[0] if len(worker) == 1 else None
        t_end = time.time() + 60
        while not os.path.exists(flag) and time.time() < t_end and not f.done():
            time.sleep(0.002)
        if not os.path.exists(flag) or (limit and time.monotonic() - t_submit > limit - 1.0):
            ctx.count("real:slow:late-fork-setup-not-ready-in-time(no verdict)")
            return
        if path == "shutdown":
            how, _info = bounded_shutdown(ex, False, [])
            if how == "slow":
                ctx.count("real:slow:shutdown-did-not-return-in-150s(no verdict)")
                return
        else:
            # the job's own time limit: wait for the worker's cleanup (future done, or worker thread ended)
            t_end = time.time() + 120
            while not f.done() and time.time() < t_end and (worker is None or worker.is_alive()):
                time.sleep(0.01)
        if [a for a in escaped if not isinstance(a.exc_value, P.ShutdownError)]:
            ctx.count("real:assumption-broken:cancel-raised-in-late-fork-probe")
            return
        # did the fork happen in time to be seen by a re-listing at the end of the grace period?
        t_end = time.time() + 30
        while not os.path.exists(flag + ".forked") and time.time() < t_end:
            time.sleep(0.005)
        try:
            t_fork = float(open(flag + ".forked").read())
        except (OSError, ValueError):
            t_fork = None
        if not t_cancel or t_fork is None or t_fork > t_cancel[0] + 0.4:
            ctx.count("real:slow:late-fork-after-grace-period(no verdict)")
            return
        if path == "timeout" and not f.done() and worker is not None and worker.is_alive():
            # the worker is still inside cancel()/communicate: judged below from the process state only if cancel returned
            pass
        job = _TokenOnly(token)
        left = _settled_survivors([job], patience=60.0)
        if left:
            pids = left[job]
            cmds = [" ".join(token_procs(token).get(p, ([], "", 0, 0))[0])[:50] for p in pids]
            ctx.violation(KEY_LATE_FORK,
                          f"real processes: processes {pids} ({cmds}) of a solver that forked during cancel()'s grace period are "
                          f"alive and not killed after {'shutdown(wait=False) returned' if path == 'shutdown' else 'the time limit cleanup'}"
                          f"; result delivered: {f.done()}", replay)
            return
        t_end = time.time() + 90
        while not f.done() and time.time() < t_end and (worker is None or worker.is_alive()):
            time.sleep(0.01)
        if not f.done():
            if worker is not None and not worker.is_alive():
                ctx.violation("real:result-never-delivered", "late-fork probe: the worker thread has ended without set_result", replay)
            else:
                ctx.count("real:slow:result-pending-after-90s(no verdict)")
        elif count[0] != 1:
            ctx.violation("real:result-once", f"late-fork probe: set_result executed {count[0]} times", replay)
    finally:
        import signal
        for pid in token_procs(token):
            with __import__("contextlib").suppress(OSError):
                os.kill(pid, signal.SIGKILL)
        for suffix in ("", ".forked", ".forked.tmp"):
            with __import__("contextlib").suppress(OSError):
                os.unlink(flag + suffix)
        detach_stuck_workers(ctx, [locals().get("worker")])


def detach_stuck_workers(ctx, workers, grace=3.0):
    """worker threads of the code under test are non-daemon; one that is left blocked for good (e.g. in communicate() on
    pipes that a defective cancel() closed under it) would keep this process from exiting. After the verdicts are in,
    such a thread is taken off the interpreter's exit-time join list (it then dies with the process like a daemon)."""
    t_end = time.time() + grace
    for t in workers:
        if t is None:
            continue
        while t.is_alive() and time.time() < t_end:
            time.sleep(0.01)
        if t.is_alive():
            ctx.count("real:worker-thread-left-blocked(detached)")
            try:
                with threading._shutdown_locks_lock:
                    threading._shutdown_locks.discard(t._tstate_lock)
            except Exception:  # noqa: BLE001
                pass


def worker_is_draining(worker) -> bool | None:
    """is the worker thread inside Popen.communicate (which reads the pipes)? None if unknown"""
    import sys
    fr = sys._current_frames().get(getattr(worker, "ident", None)) if worker is not None else None
    if fr is None:
        return None
    while fr is not None:
        if fr.f_code.co_filename.endswith("subprocess.py") and fr.f_code.co_name in ("communicate", "_communicate"):
            return True
        fr = fr.f_back
    return False


def check_output_stall(ctx, jobs, replay) -> bool:
    """State-decided: the solver process is alive and blocked in write() on a full pipe, has written nothing for four
    observations >= 0.5 s apart, and the worker thread is NOT inside communicate() (nobody drains the pipe): the job can
    only end by its time limit, or never. Reports it, then kills the process so that the run can go on."""
    found = False
    for j in jobs:
        f = j.f
        if j.stalled or f.done() or f.process is None or not j.kind.startswith("out-"):
            continue
        pid = f.process.pid
        try:
            wchan = open(f"/proc/{pid}/wchan").read()
            sysc = open(f"/proc/{pid}/syscall").read().split()[:1]
            wchar = [int(l.split()[1]) for l in open(f"/proc/{pid}/io") if l.startswith("wchar")][0]
        except (OSError, ValueError, IndexError):
            j.stall_obs = []
            continue
        in_write = "pipe_w" in wchan or sysc == ["1"]
        if not in_write or worker_is_draining(j.worker) is not False:
            j.stall_obs = []
            continue
        now = time.time()
        if j.stall_obs and j.stall_obs[-1][1] != wchar:
            j.stall_obs = []
        if not j.stall_obs or now - j.stall_obs[-1][0] >= 0.5:
            j.stall_obs.append((now, wchar))
        if len(j.stall_obs) >= 4:
            j.stalled = found = True
            ctx.violation("real:output-not-drained:solver-blocked-in-write",
                          f"real processes: job {j.kind}: the solver process wrote {wchar} bytes and has been blocked in write() on a "
                          f"full pipe for {now - j.stall_obs[0][0]:.1f} s while the worker thread is not in communicate() "
                          f"(nothing reads the pipe): the result can only come from the time limit ({j.timeout}) or never", replay)
            with __import__("contextlib").suppress(Exception):
                f.process.kill()
    return found


def bounded_shutdown(ex, wait, jobs, patience=150.0, call=None, tick=None):
    """run `ex.shutdown(wait=...)` of the code under test in a helper thread that can be abandoned.
    -> ("ok", None) | ("raised", exc) | ("hang", why) | ("slow", None).
    "hang" is decided from state, not from time: shutdown(wait=True) is still blocked although the worker thread of
    every job whose result is not delivered has ended — nothing can ever complete those futures."""
    box = {}

    def body():
        try:
            if call is not None:
                call()
            else:
                ex.shutdown(wait=wait)
            box["ok"] = True
        except BaseException as e:  # noqa: BLE001
            box["exc"] = e

    th = threading.Thread(target=body, daemon=True, name="c17-shutdown-helper")
    th.start()
    t_end = time.time() + patience
    stuck_since = None
    while True:
        th.join(0.01)
        if not th.is_alive():
            break
        if tick is not None:
            tick()
        pending = [j for j in jobs if not j.f.done()]
        if wait and pending and all(j.worker is not None and not j.worker.is_alive() for j in pending):
            stuck_since = stuck_since or time.time()
            if time.time() - stuck_since > 1.0:
                return "hang", [j.kind for j in pending]
        else:
            stuck_since = None
        if time.time() > t_end:
            return "slow", None
    return ("raised", box["exc"]) if "exc" in box else ("ok", None)


class _TokenOnly:
    def __init__(self, token):
        self.token = token


def _settled_survivors(jobs, patience=60.0):
    """survivors per job, confirmed by two scans one second apart (same pid, still alive, still not killed).
    Processes with a SIGKILL pending are waited for (up to `patience`) but never judged."""
    t_end = time.time() + patience
    while True:
        first = {j: survivors(j.token) for j in jobs}
        if not any(first.values()):
            return {}
        time.sleep(1.0)
        second = {j: survivors(j.token) for j in jobs}
        both = {j: sorted(set(first[j]) & set(second[j])) for j in jobs}
        both = {j: v for j, v in both.items() if v}
        if both or time.time() > t_end:
            return both


def _real_process_runs(ctx, n_runs, P, rng, escaped, forced=None):
    variant = str(ctx.extra.get("variant", "000"))
    names = sorted(RealJob.KINDS)
    serial = [rng.randint(0, 50000)]

    def make(kind):
        serial[0] += 1
        return RealJob(P, kind, serial[0], escaped)

    directed = [
        ("none", ["out-stdout-65537", "out-stderr-1048576-limit", "out-stdout-1"], False),
        ("wait", ["out-stdout-1048576-limit", "out-stderr-65537", "out-stdout-65535"], False),
        # through the registry, the way halmos requests it (on_exit / on_signal): 2 executors, then 1
        ("nowait", ["sleep-long", "sleep-long", "ignore-term"], False, 2),
        ("nowait", ["sleep-long", "timeout"], False, 1),
        ("nowait", ["wrapper-child-ignores", "sleep-long"], False),
        ("wait", ["wrapper-child-ignores-timeout", "echo"], False),
        ("nowait", ["sleep-long", "sleep-long", "timeout"], True),
        ("wait", ["echo", "timeout", "children-timeout"], False),
        ("nowait", ["ignore-term", "children", "true"], False),
        ("wait", ["missing-binary", "cancelled-before-start", "echo"], False),
        ("none", ["not-executable", "cancelled-before-start", "sleep-short"], False),
        ("nowait", ["cancelled-before-start", "not-executable", "sleep-long"], False),
    ]
    if forced:
        directed = forced
    for run in range(n_runs):
        del escaped[:]
        n_exec = 0          # > 0: that many executors, registered through ExecutorRegistry(), shut down by shutdown_all()
        if run < len(directed):
            mode, chosen, overlap = directed[run][:3]
            n_exec = directed[run][3] if len(directed[run]) > 3 else 0
        else:
            mode = rng.choice(["nowait", "nowait", "wait", "wait", "none"])
            pool = [k for k in names if not (mode in ("wait", "none") and k in RealJob.ENDLESS)]
            chosen = [rng.choice(pool) for _ in range(rng.randint(1, 4))]
            # `overlap`: call shutdown while worker threads may not have reached Popen yet; only single-process commands
            # (a command that is still building its process tree when cancel() arrives is outside the property's
            # assumptions: cancel() lists the tree once)
            overlap = rng.random() < 0.25
            if overlap:
                chosen = [k if k in RealJob.SIMPLE and not (mode != "nowait" and k == "sleep-long")
                          else ("sleep-short" if mode != "nowait" else "sleep-long") for k in chosen]
        # at most one job with a 3 s time limit per run (keeps a run short)
        seen_t = False
        for n, k in enumerate(chosen):
            if k.endswith("-timeout"):
                if seen_t:
                    chosen[n] = "timeout"
                seen_t = True
        if run >= len(directed) and mode == "nowait" and not overlap and rng.random() < 0.35:
            n_exec = rng.randint(1, 3)
        via_registry = n_exec > 0
        P.ExecutorRegistry._instance = None      # a fresh singleton per run (restored by real_process_runs)
        exs = [P.PopenExecutor() for _ in range(max(1, n_exec))]
        ex = exs[0]
        jobs = [make(k) for k in chosen]
        replay = {"kind": "real", "mode": mode, "jobs": chosen, "overlap": overlap, "n_exec": n_exec}
        ctx.count(f"real:{'registry' + str(n_exec) if via_registry else mode}:{'overlap' if overlap else 'started'}")
        for k in chosen:
            ctx.count(f"real-job:{k}")
        ctx.case(("real", mode, overlap, tuple(chosen)), nontrivial=len(chosen) > 1)
        try:
            registered = set()
            for idx, j in enumerate(jobs):
                j.ex = exs[idx % len(exs)]
                if via_registry and (idx % len(exs)) not in registered:
                    # like FunctionContext.__post_init__: a fresh constructor call, interleaved with the submits
                    P.ExecutorRegistry().register(j.ex)
                    registered.add(idx % len(exs))
                j.submit(j.ex)
            slow = False
            if not overlap:
                t_end = time.time() + 60
                while not all(j.ready() for j in jobs):
                    if time.time() > t_end:
                        slow = True
                        break
                    time.sleep(0.005)
                # a time limit that fired before the tree stood: not judged
                for j in jobs:
                    if j.timeout and j.tree and j.tree[0] and not slow:
                        if j.t_ready is None or j.t_ready - j.t_submit > j.timeout - 1.0:
                            slow = True
            if slow:
                ctx.count("real:slow:setup-not-ready-in-time(no verdict)")
                continue
            lost = [j.kind for j in jobs if not j.f.done() and j.f not in list(j.ex.futures)]
            if lost:
                ctx.violation("bookkeeping:unfinished-future-dropped",
                              f"real processes: accepted, unfinished futures {lost} are no longer in executor.futures", replay)
            raised = None
            hung = False
            if mode != "none":
                how, info = bounded_shutdown(ex, mode == "wait", jobs,
                                             call=(lambda: P.ExecutorRegistry().shutdown_all()) if via_registry else None,
                                             tick=lambda: check_output_stall(ctx, jobs, replay))
                if via_registry and how == "ok":
                    missed = [e for e in sorted(registered) if not exs[e].is_shutdown()]
                    if missed:
                        ctx.violation("real:registry:shutdown-all-missed-registered-executor",
                                      f"real processes: ExecutorRegistry().shutdown_all() returned but executor(s) {missed} of "
                                      f"{len(exs)}, registered through ExecutorRegistry().register before the call, are not shut "
                                      "down (is_shutdown() False)", replay)
                if how == "raised":
                    raised = info
                elif how == "slow":
                    ctx.count("real:slow:shutdown-did-not-return-in-150s(no verdict)")
                    continue
                elif how == "hang":
                    hung = True
                    ctx.violation("shutdown-wait:does-not-return",
                                  f"real processes: shutdown(wait=True) stays blocked although the worker threads of the "
                                  f"undelivered jobs {info} have ended (their futures can never complete)", replay)
            time.sleep(0.01)
            via_cancel = [a for a in escaped if getattr(a, "via_cancel", False)]
            cancel_ids = {id(a.exc_value) for a in via_cancel}
            # an exception that ended a worker thread and did not come out of cancel(): the code under test itself failed
            for a in escaped:
                if not getattr(a, "via_cancel", False) and id(a.exc_value) not in cancel_ids \
                        and not isinstance(a.exc_value, P.ShutdownError):
                    ctx.violation(f"real:worker-thread-exception:{type(a.exc_value).__name__}",
                                  f"real processes: exception {a.exc_value!r} ended a worker thread of jobs {chosen}", replay)
            fault = [a for a in via_cancel if not isinstance(a.exc_value, P.ShutdownError)]
            if fault or (raised is not None and mode == "nowait"):
                # outside the stated assumptions (cancel() raised something else than psutil.NoSuchProcess, typically
                # psutil tripping over an unrelated process while scanning /proc): recorded, not judged
                kind = type(fault[0].exc_value).__name__ if fault else type(raised).__name__
                ctx.count(f"real:assumption-broken:cancel-raised-{kind}")
                ctx.note(f"real-process run {run}: exception {kind} escaped cancel()/worker thread (not judged)")
                continue
            if raised is not None:
                ctx.count("real:shutdown-raised")
            if raised is None and not hung and mode == "wait" and not all(j.f.done() for j in jobs):
                ctx.violation("shutdown-wait:returned-before-accepted-job-done",
                              "real processes: shutdown(wait=True) returned although an accepted job has not delivered its result",
                              replay)

            # ---- nothing of any job's process tree is alive once cancel()/shutdown has returned (decided by process state)
            judged = jobs if raised is None else []
            if mode == "none":
                # no shutdown: wait (by state) until every job has delivered or lost its worker thread
                t_w = time.time() + 120
                while time.time() < t_w and any(not j.f.done() and (j.worker is None or j.worker.is_alive())
                                                for j in jobs if j.kind not in RealJob.ENDLESS):
                    check_output_stall(ctx, jobs, replay)
                    time.sleep(0.01)
                judged = [j for j in jobs if j.f.done()]
            if mode == "wait":
                # only jobs whose result is delivered have been cleaned up
                judged = [j for j in judged if j.f.done()]
            alive = _settled_survivors(judged)
            if raised is not None and mode == "wait":
                left = _settled_survivors(jobs, patience=5.0)
                if left:
                    ctx.violation(KEY_JOIN, f"real processes: shutdown(wait=True) raised {type(raised).__name__} while "
                                            f"{[j.kind for j in left]} still run", replay)
            for j, pids in alive.items():
                top = j.f.process.pid if j.f.process is not None else None
                what = "top-level process" if top in pids else "descendant process"
                cmds = [" ".join(token_procs(j.token).get(p, ([], "", 0, 0))[0])[:60] for p in pids]
                if overlap and mode == "nowait":
                    key = KEY_CANCEL if variant[1] == "0" else "real:alive-after-shutdown-nowait-overlap"
                elif what == "descendant process":
                    path = "timeout" if (j.timeout and j.f.done()) else f"shutdown-{mode}"
                    key = f"real:descendant-alive-after-cancel:{path}"
                else:
                    key = f"real:alive-after-shutdown-{'registry' if via_registry else mode}"
                ctx.violation(key, f"real processes: job {j.kind}: {what} {pids} ({cmds}) alive, not killed, after "
                                   f"{'shutdown(wait=' + str(mode == 'wait') + ')' } returned / the job's cancel() finished", replay)
            for j in alive:
                j.cleanup()

            # ---- every result is delivered exactly once (decided by future + worker-thread state, not by a deadline)
            t_end = time.time() + 90
            for j in jobs:
                f = j.f
                while not f.done() and time.time() < t_end and (j.worker is None or j.worker.is_alive()):
                    check_output_stall(ctx, jobs, replay)
                    time.sleep(0.01)
                if not f.done():
                    if j.worker is not None and not j.worker.is_alive():
                        time.sleep(0.05)
                        if not f.done():
                            ctx.violation("real:result-never-delivered",
                                          f"{j.kind}: the worker thread has ended without set_result", replay)
                    elif j in alive:
                        pass   # consequence of the surviving process reported above
                    else:
                        ctx.count("real:slow:result-pending-after-90s(no verdict)")
                    continue
                try:
                    res, exc = f.result(timeout=0), None
                except BaseException as e:  # noqa: BLE001
                    res, exc = None, e
                if j.count[0] != 1:
                    ctx.violation("real:result-once", f"{j.kind}: set_result executed {j.count[0]} times", replay)
                if j.callbacks[0] != 1:
                    ctx.violation("real:done-callback-count", f"{j.kind}: done callback invoked {j.callbacks[0]} times", replay)
                if j.kind.startswith("out-") and not j.stalled and mode != "nowait" and raised is None:
                    n = int(j.kind.split("-")[2])
                    want = (n, 0) if "stdout" in j.kind else (0, n)
                    got = (len(res[0] or ""), len(res[1] or ""), res[2]) if exc is None and res else None
                    if got != (want[0], want[1], 0):
                        ctx.violation("real:solver-output-lost-or-wrong",
                                      f"{j.kind}: the solver wrote {n} bytes and exited 0; result() gave "
                                      f"{'(len stdout, len stderr, returncode) = ' + str(got) if got else repr(exc)}", replay)
                if j.kind == "not-executable" and not isinstance(exc, PermissionError):
                    ctx.violation("real:popen-error-lost", f"{j.kind}: result() gave {exc!r}", replay)
                if j.pre_cancelled and not (isinstance(exc, P.ShutdownError) and f.process is None):
                    ctx.violation("real:cancelled-before-start-not-ShutdownError",
                                  f"{j.kind}: cancel() before submit: result() gave {exc!r}, process started: {f.process is not None}",
                                  replay)
                if mode == "wait" and raised is None:
                    if j.timeout and j.kind != "echo" and not j.kind.startswith("out-") \
                            and not isinstance(exc, subprocess.TimeoutExpired):
                        ctx.violation("real:timeout-not-TimeoutExpired",
                                      f"{j.kind}: result() gave {exc!r} instead of raising TimeoutExpired", replay)
                    if j.kind == "echo" and (exc is not None or res[0] != "unsat\n"):
                        ctx.violation("real:stdout-lost", f"echo: result {res!r} / {exc!r}", replay)
                if j.kind == "missing-binary" and not isinstance(exc, FileNotFoundError):
                    ctx.violation("real:popen-error-lost", f"{j.kind}: result() gave {exc!r}", replay)
            # once delivered, the job's own cleanup has run: nothing of its tree is left
            late = _settled_survivors([j for j in jobs if j.f.done() and j not in alive], patience=30.0)
            for j, pids in late.items():
                ctx.violation("real:alive-after-result", f"{j.kind}: processes {pids} alive, not killed, after the result "
                                                         "was delivered", replay)
            if mode != "none" and not hung:
                # (an executor that no job used was never registered: shutdown_all() does not know it)
                for x in ([exs[e] for e in sorted(registered)] if via_registry else exs):
                    try:
                        x.submit(P.PopenFuture(["true"]))
                        ctx.violation("real:submit-after-shutdown-accepted" + (":registry" if via_registry else ""),
                                      "submit after shutdown returned was accepted", replay)
                    except P.ShutdownError:
                        pass
        finally:
            for j in jobs:
                j.cleanup()
            detach_stuck_workers(ctx, [j.worker for j in jobs], grace=5.0)


# --------------------------------------------------------------------------------------------------------------------
# the two-step pipeline: real solve_end_to_end / solve_low_level / PopenFuture / PopenExecutor over a scripted stub solver
# --------------------------------------------------------------------------------------------------------------------

REPLIES = ["satValid", "satInvalid", "unsat", "unknown", "hang", "crash", "garbage", "noStart"]
REPLY_TEXT = {
    "satValid": ("sat\n(\n  (define-fun halmos_x_uint256_00 () (_ BitVec 256) #x01)\n)\n", "", 0),
    "satInvalid": ("sat\n(\n  (define-fun f_evm_bvmul_256 ((x!0 (_ BitVec 256)) (x!1 (_ BitVec 256))) (_ BitVec 256) #x00)\n)\n", "", 0),
    "unsat": ("unsat\n(error \"model is not available\")\n(<7> <9>)\n", "", 0),
    "unknown": ("unknown\n(error \"model is not available\")\n", "", 0),
    "crash": ("", "Segmentation fault\n", 139),
    "garbage": ("(error \"line 3: unknown logic\")\nsat\n", "", 1),
}
QUERY_ABSTRACT = ("(declare-fun f_evm_bvmul_256 ((_ BitVec 256) (_ BitVec 256)) (_ BitVec 256))\n"
                  "(declare-const x (_ BitVec 256))\n(assert (= (f_evm_bvmul_256 x x) x))")
QUERY_PLAIN = "(declare-const x (_ BitVec 256))\n(assert (= x x))"
KEY_PIPE_UNSAT = "pipeline:unsat-without-solver-answer"
KEY_PIPE_TIMEOUT = "pipeline:refined-timeout-or-error-not-reported"


def pipeline_probe(ctx, drv, literals):
    """every (first reply x second reply) x {refinement changes the query?} x {context already refined?} x {unsat-core hit?}
    x {cache_solver?}: the real solve_end_to_end with real PopenFuture/PopenExecutor threads; only `Popen`/`psutil` are a
    scripted stub solver (answers at once, or never: then the job's time limit fires). Compared with `pipeline` of the
    Lean model, and judged directly: unsat only if a job that ran printed unsat (or a known core was hit); a job that
    timed out / crashed / printed garbage in the deciding step is unknown / err."""
    import itertools
    import shutil
    import tempfile
    import psutil as real_psutil
    P, S = mods()
    tmp = tempfile.mkdtemp(prefix="c17_pipe_")
    script = {}
    started = []

    class StubProc:
        def __init__(self, cmd, stdout=None, stderr=None, text=None, **kw):
            which = "first" if not started else "second"
            self.reply = script[which]
            started.append((which, self.reply, cmd[-1].endswith(".refined.smt2")))
            if self.reply == "noStart":
                raise FileNotFoundError(2, "No such file or directory", cmd[0])
            self.cmd, self.pid, self.alive = cmd, 4242 + len(started), True
            self.returncode = None
            self.stdout = self.stderr = self.stdin = None

        def communicate(self, input=None, timeout=None):
            if self.reply == "hang":
                if timeout is None:
                    raise HarnessError("stub solver would hang forever: no time limit was passed to communicate()")
                raise subprocess.TimeoutExpired(self.cmd, timeout)
            out, err, rc = REPLY_TEXT[self.reply]
            self.alive, self.returncode = False, rc
            return out, err

        def poll(self):
            return None if self.alive else self.returncode

    class StubPs:
        def __init__(self, pid):
            self.pid = pid
            self.proc = next((p for p in procs if p.pid == pid), None)
            if self.proc is None or not self.proc.alive:
                raise real_psutil.NoSuchProcess(pid)

        def children(self, recursive=False):
            return []

        def terminate(self):
            self.proc.alive, self.proc.returncode = False, -15

        def wait(self, timeout=None):
            return self.proc.returncode

        def is_running(self):
            return self.proc.alive

        def kill(self):
            self.proc.alive, self.proc.returncode = False, -9

    procs = []

    def stub_popen(cmd, **kw):
        p = StubProc(cmd, **kw)
        procs.append(p)
        return p

    fake_psutil = types.SimpleNamespace(Process=StubPs, NoSuchProcess=real_psutil.NoSuchProcess,
                                        TimeoutExpired=real_psutil.TimeoutExpired)
    old = (P.Popen, P.psutil)
    P.Popen, P.psutil = stub_popen, fake_psutil
    limits = sorted(set([7.5, 0.001] + [float(x) for x in literals]))
    cases, reqs = [], []
    try:
        n = 0
        for r1, r2 in itertools.product(REPLIES, REPLIES):
            for changes, refined, core, cache in itertools.product((True, False), (False, True), (False, True), (False, True)):
                # the full product for the refinement path; elsewhere the second reply cannot matter: two values of it
                if not (r1 == "satInvalid" and changes and not refined and not core) and r2 not in ("unsat", "hang"):
                    continue
                if cache and (n % 3):          # cache_solver only changes the dump and the unsat core: every third case
                    n += 1
                    continue
                n += 1
                script.update(first=r1, second=r2)
                del started[:]
                del procs[:]
                limit = limits[n % len(limits)]
                args = types.SimpleNamespace(resolved_solver_command=["stub-solver"], verbose=0,
                                             solver_timeout_assertion=limit, cache_solver=cache)
                sctx = types.SimpleNamespace(dump_dir=Path(tmp), executor=P.PopenExecutor(),
                                             unsat_cores=[["7", "9"]] if core else [])
                query = S.SMTQuery(QUERY_ABSTRACT if changes else QUERY_PLAIN, ["3", "7", "9"])
                pctx = S.PathContext(args=args, path_id=n, solving_ctx=sctx, query=query, is_refined=refined)
                box = {}

                def body(pctx=pctx, box=box):
                    try:
                        box["out"] = S.solve_end_to_end(pctx)
                    except BaseException as e:  # noqa: BLE001
                        box["exc"] = e

                th = threading.Thread(target=body, daemon=True)
                th.start()
                th.join(30)
                desc = {"kind": "pipeline", "first": r1, "second": r2, "changes": changes, "is_refined": refined,
                        "core_hit": core, "cache_solver": cache, "limit": limit}
                if th.is_alive():
                    ctx.violation("pipeline:solve_end_to_end-does-not-return", f"solve_end_to_end blocked for {desc}", desc)
                    continue
                if "exc" in box:
                    got, rc = ("raisedShutdown" if isinstance(box["exc"], P.ShutdownError) else "raisedOther"), None
                    if isinstance(box["exc"], HarnessError):
                        ctx.violation("pipeline:no-time-limit-passed", str(box["exc"]), desc)
                        continue
                else:
                    res = box["out"].result
                    got, rc = (res if isinstance(res, str) else str(res)), box["out"].returncode
                ran = list(started)
                ctx.case(("pipeline", r1, r2, changes, refined, core, cache))
                ctx.count(f"pipeline:first:{r1}")
                ctx.count(f"pipeline:jobs:{len(ran)}")
                ctx.count(f"pipeline:outcome:{got}")
                # --- judged directly -------------------------------------------------------------------------------
                answered_unsat = any(j[1] == "unsat" for j in ran)
                if got == "unsat" and not (core or answered_unsat):
                    ctx.violation(KEY_PIPE_UNSAT,
                                  f"solve_end_to_end reported unsat although no solver job answered unsat: jobs run {ran} "
                                  f"(first reply {r1}, refined reply {r2})", desc)
                if ran and got not in ("raisedOther", "raisedShutdown"):
                    last = ran[-1][1]
                    if len(ran) == 2 and not ran[1][2]:
                        ctx.violation("pipeline:second-job-not-on-refined-query", f"second job ran on {ran}", desc)
                    want_last = {"hang": "unknown", "crash": "err", "garbage": "err", "unknown": "unknown"}.get(last)
                    if want_last and got != want_last and not (got == "unsat" and not (core or answered_unsat)):
                        ctx.violation(KEY_PIPE_TIMEOUT, f"the deciding job {ran[-1]} ended as {last}; solve_end_to_end reported {got}", desc)
                    if last == "hang" and got == "unknown" and rc != S.EXIT_TIMEDOUT:
                        ctx.violation("pipeline:timeout-returncode", f"timeout reported with returncode {rc}", desc)
                if any(p.alive for p in procs):
                    ctx.violation("pipeline:stub-solver-left-running", f"a timed out stub solver was not killed: {desc}", desc)
                cases.append((desc, got, len(ran)))
                reqs.append(f"pipe {int(core)} {int(refined)} {int(changes)} {r1} {r2}")
    finally:
        P.Popen, P.psutil = old
        shutil.rmtree(tmp, ignore_errors=True)
    bad = []
    for (desc, got, njobs), rep in zip(cases, drv.ask(reqs)):
        if rep != f"ok {got} {njobs}":
            bad.append(f"pipeline {desc}: model `{rep}`, real code `{got}` with {njobs} job(s)")
    ctx.note(f"pipeline probe: {len(cases)} cases of solve_end_to_end over the stub solver, {len(bad)} differ from the model")
    return bad


STUB_SH = r"""
d="$1"; f="$2"
case "$f" in *.refined.smt2) r=$(cat "$d/second");; *) r=$(cat "$d/first");; esac
echo "start $r" >> "$d/log"
case "$r" in
  satValid) printf 'sat\n(\n  (define-fun halmos_x_uint256_00 () (_ BitVec 256) #x01)\n)\n';;
  satInvalid) printf 'sat\n(\n  (define-fun f_evm_bvmul_256 ((x!0 (_ BitVec 256)) (x!1 (_ BitVec 256))) (_ BitVec 256) #x00)\n)\n';;
  unsat) printf 'unsat\n';;
  unknown) printf 'unknown\n';;
  hang) exec sleep 1000;;
  crash) echo "done $r" >> "$d/log"; kill -SEGV $$;;
  garbage) printf '(error "unknown logic")\n'; echo "done $r" >> "$d/log"; exit 1;;
esac
echo "done $r" >> "$d/log"
"""


def pipeline_real_stub(ctx, P, S):
    """a few pairs of the pipeline again, with the stub solver as a real OS process (sh script told what to answer for the
    abstract and for the refined query) and a 3 s time limit. A non-hanging job that did not get to answer in time (load)
    makes the case `slow`, without verdict."""
    import os
    import shutil
    import tempfile
    expect = {"satValid": "sat", "unsat": "unsat", "unknown": "unknown", "hang": "unknown", "crash": "err", "garbage": "err"}
    for r1, r2 in [("satInvalid", "hang"), ("satInvalid", "crash"), ("satInvalid", "unsat"), ("satInvalid", "satValid"),
                   ("satInvalid", "garbage"), ("satInvalid", "unknown"), ("hang", "unsat"), ("unsat", "hang")]:
        d = tempfile.mkdtemp(prefix="c17_stub_")
        desc = {"kind": "pipeline-real", "first": r1, "second": r2}
        try:
            Path(d, "stub.sh").write_text(STUB_SH)
            Path(d, "first").write_text(r1)
            Path(d, "second").write_text(r2)
            Path(d, "log").write_text("")
            args = types.SimpleNamespace(resolved_solver_command=["sh", os.path.join(d, "stub.sh"), d], verbose=0,
                                         solver_timeout_assertion=3.0, cache_solver=False)
            sctx = types.SimpleNamespace(dump_dir=Path(d), executor=P.PopenExecutor(), unsat_cores=[])
            pctx = S.PathContext(args=args, path_id=1, solving_ctx=sctx, query=S.SMTQuery(QUERY_ABSTRACT, ["3"]))
            box = {}

            def body(pctx=pctx, box=box):
                try:
                    box["out"] = S.solve_end_to_end(pctx)
                except BaseException as e:  # noqa: BLE001
                    box["exc"] = e

            th = threading.Thread(target=body, daemon=True)
            th.start()
            th.join(120)
            ctx.case(("pipeline-real", r1, r2))
            ctx.count("pipeline-real:cases")
            log = Path(d, "log").read_text().split("\n")
            if th.is_alive() or "exc" in box:
                ctx.count("real:slow:pipeline-stub-did-not-finish(no verdict)")
                continue
            res = box["out"].result
            got = res if isinstance(res, str) else str(res)
            jobs = [l.split()[1] for l in log if l.startswith("start ")]
            answered = [l.split()[1] for l in log if l.startswith("done ")]
            # a job that was meant to answer but was overtaken by the time limit (load): no verdict
            if any(j != "hang" and j not in answered for j in jobs) or not jobs:
                ctx.count("real:slow:pipeline-stub-overtaken-by-time-limit(no verdict)")
                continue
            want = expect[jobs[-1]] if jobs[-1] != "satInvalid" else "sat"
            if got == "unsat" and "unsat" not in answered:
                ctx.violation(KEY_PIPE_UNSAT, f"real stub solver: solve_end_to_end reported unsat, jobs answered {jobs}", desc)
            elif got != want:
                ctx.violation(KEY_PIPE_TIMEOUT, f"real stub solver: jobs {jobs}, solve_end_to_end reported {got}, expected {want}", desc)
        finally:
            with __import__("contextlib").suppress(Exception):
                sctx.executor.shutdown(wait=False)
            shutil.rmtree(d, ignore_errors=True)


KEY_FCTX = "registry:function-context-executor-not-shut-down"


def function_context_probe(ctx, real: bool):
    """Executors created the way halmos creates them — by the real `FunctionContext.__post_init__` (solve.py), under every
    combination of the options that select a code path there (dump_smt_directory set / unset, dump_smt_queries, verbose,
    test function / constructor prefix) — each with a solver job that does not end by itself, started through the
    function's thread pool and the real solve_low_level. Then the global shutdown, as on exit / SIGINT:
    `ExecutorRegistry().shutdown_all()`. Afterwards, for EVERY function context: its executor is shut down, its solver
    process is gone, the blocked solve_low_level returns, a new submit raises ShutdownError.
    real=False: scripted Popen/psutil (a process that lives until it is terminated); real=True: `sleep` processes."""
    import contextlib
    import io
    import itertools
    import shutil
    import tempfile
    import psutil as real_psutil
    P, S = mods()
    combos = list(itertools.product((False, True), (False, True), (0, 1), ("check_x", None)))
    # groups of three contexts alive at the same time (like several test functions of a run)
    groups = [combos[i:i + 3] for i in range(0, len(combos), 3)]
    if real:
        groups = [[combos[0], combos[13], combos[6]], [combos[9], combos[2], combos[15]]]
    procs = []

    class LiveProc:
        def __init__(self, cmd, **kw):
            self.cmd, self.pid, self.gone = cmd, 7000 + len(procs), threading.Event()
            self.returncode = None
            self.stdout = self.stderr = self.stdin = None
            procs.append(self)

        def communicate(self, input=None, timeout=None):
            if not self.gone.wait(timeout):
                raise subprocess.TimeoutExpired(self.cmd, timeout)
            return "", ""

        def poll(self):
            return self.returncode if self.gone.is_set() else None

    class LivePs:
        def __init__(self, pid):
            self.pid = pid
            self.p = next((p for p in procs if p.pid == pid and not p.gone.is_set()), None)
            if self.p is None:
                raise real_psutil.NoSuchProcess(pid)

        def children(self, recursive=False):
            return []

        def terminate(self):
            self.p.returncode = -15
            self.p.gone.set()

        def wait(self, timeout=None):
            return self.p.returncode

        def is_running(self):
            return not self.p.gone.is_set()

        def kill(self):
            self.p.returncode = -9
            self.p.gone.set()

    old = (P.Popen, P.psutil, getattr(P.ExecutorRegistry, "_instance", None))
    if not real:
        P.Popen = LiveProc
        P.psutil = types.SimpleNamespace(Process=LivePs, NoSuchProcess=real_psutil.NoSuchProcess,
                                         TimeoutExpired=real_psutil.TimeoutExpired)
    serial = [0]
    try:
        for group in groups:
            P.ExecutorRegistry._instance = None
            del procs[:]
            root = tempfile.mkdtemp(prefix="c17_fctx_")
            made = []      # (desc, fctx, pool future, token)
            try:
                for custom, dump_queries, verbose, name in group:
                    serial[0] += 1
                    token = f"39.{__import__('os').getpid() % 100000:05d}{serial[0]:03d}"
                    cmd = ["sh", "-c", f"exec sleep {token}", "stub"] if real else ["stub-solver"]
                    args = types.SimpleNamespace(
                        dump_smt_directory=(str(Path(root, f"dump{serial[0]}")) if custom else None),
                        dump_smt_queries=dump_queries, verbose=verbose, solver_threads=2,
                        resolved_solver_command=cmd, solver_timeout_assertion=0, cache_solver=False)
                    desc = {"kind": "function-context", "real": real, "dump_smt_directory": custom,
                            "dump_smt_queries": dump_queries, "verbose": verbose, "function": name}
                    with contextlib.redirect_stdout(io.StringIO()):
                        fctx = S.FunctionContext(args=args, info=types.SimpleNamespace(name=name, sig="x()", selector="00"),
                                                 solver=None, contract_ctx=types.SimpleNamespace(name="C"))
                        quiet = types.SimpleNamespace(**{**vars(args), "verbose": 0})
                        pctx = S.PathContext(args=quiet, path_id=serial[0], solving_ctx=fctx.solving_ctx,
                                             query=S.SMTQuery(QUERY_PLAIN, ["1"]))
                        fut = fctx.thread_pool.submit(S.solve_low_level, pctx)
                    made.append((desc, fctx, fut, token))
                    ctx.case(("function-context", real, custom, dump_queries, verbose, name))
                    ctx.count(f"function-context:{'real' if real else 'scripted'}:dump_smt_directory={'set' if custom else 'unset'}")
                # every solver process is up (decided by state)
                t_end = time.time() + 60
                def up(token):
                    if real:
                        return any(i[0][:1] == ["sleep"] for i in token_procs(token).values())
                    return True
                while time.time() < t_end and not (all(up(t) for *_x, t in made) and (real or len(procs) == len(made))):
                    time.sleep(0.005)
                if not (all(up(t) for *_x, t in made) and (real or len(procs) == len(made))):
                    ctx.count("real:slow:function-context-solvers-not-up(no verdict)")
                    continue
                # the global shutdown, as halmos requests it on exit / on a signal
                how, _info = bounded_shutdown(None, False, [], patience=120.0, call=lambda: P.ExecutorRegistry().shutdown_all())
                if how != "ok":
                    ctx.count(f"real:slow:shutdown_all-{how}(no verdict)")
                    continue
                for n, (desc, fctx, fut, token) in enumerate(made):
                    ex = fctx.solving_ctx.executor
                    down = ex.is_shutdown()
                    if real:
                        left = _settled_survivors([_TokenOnly(token)], patience=30.0) if not down else \
                            _settled_survivors([_TokenOnly(token)], patience=60.0)
                        alive = bool(left)
                    else:
                        alive = not procs[n].gone.is_set()
                    accepted = False
                    try:
                        extra = P.PopenFuture(["true"] if real else ["stub-solver"])
                        ex.submit(extra)
                        accepted = True
                    except P.ShutdownError:
                        pass
                    if not down or alive or accepted:
                        ctx.violation(KEY_FCTX,
                                      f"after ExecutorRegistry().shutdown_all(): the executor of a FunctionContext built with "
                                      f"dump_smt_directory {'set' if desc['dump_smt_directory'] else 'unset'}, dump_smt_queries="
                                      f"{desc['dump_smt_queries']}, verbose={desc['verbose']}, function={desc['function']}: "
                                      f"is_shutdown()={down}, solver process still running={alive}, new submit accepted={accepted}, "
                                      f"solve_low_level returned={fut.done()}", desc)
                        continue
                    # blocked waiter returns (state: executor down and process gone; only scheduling is left)
                    t_w = time.time() + 90
                    while not fut.done() and time.time() < t_w:
                        time.sleep(0.005)
                    if not fut.done():
                        ctx.count("real:slow:function-context-waiter-pending-after-90s(no verdict)")
            finally:
                import os
                import signal
                for _d, fctx, _fut, token in made:
                    if real:
                        for pid in token_procs(token):
                            with contextlib.suppress(OSError):
                                os.kill(pid, signal.SIGKILL)
                    for p in procs:
                        p.gone.set()
                    with contextlib.suppress(Exception):
                        fctx.solving_ctx.executor.shutdown(wait=False)
                    with contextlib.suppress(Exception):
                        fctx.thread_pool.shutdown(wait=False)
                    dd = fctx.solving_ctx.dump_dir
                    if hasattr(dd, "cleanup"):
                        with contextlib.suppress(Exception):
                            dd.cleanup()
                        shutil.rmtree(getattr(dd, "name", "/nonexistent-c17"), ignore_errors=True)
                shutil.rmtree(root, ignore_errors=True)
    finally:
        P.Popen, P.psutil, P.ExecutorRegistry._instance = old


# --------------------------------------------------------------------------------------------------------------------
# entry points
# --------------------------------------------------------------------------------------------------------------------

def report(ctx, variant, r: Run, source):
    seen = set()
    for key, what in r.spec:
        if key in seen:
            continue
        seen.add(key)
        ctx.violation(key, what, {"kind": "schedule", "variant": variant, "cfg": r.cfg, "labels": r.labels,
                                  "timeouts": getattr(r, "timeouts", None), "source": source,
                                  "tree": source.startswith("tree-probe"),
                                  "n_exec": int(source.split(":")[1]) if source.startswith("registry-probe") else 1})


def follow(labels):
    return lambda n, en: labels[n] if n < len(labels) else None


class FollowThenFinish:
    """follow a schedule of the model; if the real code cannot take the next step, remember where, and run the
    threads to completion with a default scheduler so that the property is still checked on what the code does"""

    def __init__(self, labels):
        self.labels = labels
        self.diverged = None

    def __call__(self, n, en):
        if self.diverged is None:
            if n >= len(self.labels):
                return None
            if self.labels[n] in en:
                return self.labels[n]
            self.diverged = f"step {n}: {self.labels[n]} is not enabled on the real code; enabled: {en}"
        if not en:
            return None
        threads = [e for e in en if not e.startswith("e")]
        return threads[0] if threads else en[0]


def correspond(ctx):
    P, _S = mods()
    drv = ctx.lean("Popen")
    literals = harvest_literals()
    ctx.note(f"numeric literals of processes.py / solve_low_level (+-1): {literals}")
    TIMEOUT_POOL[:] = sorted(set([7.5, 60.0, 0.001] + [float(x) for x in literals]))

    # model / implementation disagreements are collected and raised only after every direct property check on the
    # real classes has been evaluated (a changed implementation must first get the chance to show a concrete violation)
    mismatches: list[str] = []
    try:
        variant = detect_variant()
    except Exception as e:  # noqa: BLE001
        mismatches.append(f"variant detection: {type(e).__name__}: {e}")
        variant = "111"
        ctx.note("variant detection failed; schedules are enumerated from the repaired model (111)")
    ctx.note(f"variant of the code under test (submitLocked cancelFlag joinFixed) = {variant}")
    ctx.count(f"variant:{variant}")
    ctx.extra["variant"] = variant

    # --- 0. the witnesses of the `_cex` theorems, replayed on the real code -------------------------------------------
    names = ["submit", "cancel", "join", "joinsnap"]
    expected_key = {"submit": KEY_SUBMIT, "cancel": KEY_CANCEL, "join": KEY_JOIN, "joinsnap": KEY_JOINSNAP}
    for name, rep in zip(names, drv.ask([f"witness {n} {variant}" for n in names])):
        if rep == "none":
            # the model says this variant of the code does not have the defect (proved for the repaired sites)
            ctx.count(f"witness:{name}:not-applicable-to-variant-{variant}")
            continue
        _ok, v, cfg, labels = rep.split(" ")
        labels = labels.split(",")
        ctx.count(f"witness:{name}:replayed")
        r = run_real(cfg, follow(labels))
        ctx.case(("witness", name))
        report(ctx, variant, r, f"witness:{name}")
        if r.error:
            mismatches.append(f"witness {name} does not replay on the real code: {r.error}")
            continue
        keys = [k for k, _ in r.spec]
        if expected_key[name] not in keys:
            mismatches.append(f"witness {name}: the model's counterexample did not show on the real code (saw {keys}); final {r.final}")
            continue
        rep = drv.ask([f"run {v} {cfg} {','.join(labels)}"])[0]
        bad = compare_with_model(r, rep)
        if bad:
            mismatches.append(f"witness {name}: {bad}")

    # --- 1. corpus ---------------------------------------------------------------------------------------------------
    runs: list[tuple[Run, str]] = []
    cdir = runner.VERIF / "corpus" / ID
    if cdir.is_dir():
        for p in sorted(cdir.glob("*.json")):
            d = json.loads(p.read_text())
            if d.get("kind", "schedule") != "schedule":
                continue
            r = run_real(d["cfg"], follow_loose(d["labels"]), timeouts=d.get("timeouts"))
            runs.append((r, f"corpus:{p.name}"))
            ctx.count("source:corpus")

    # --- 2. schedules enumerated from the model ------------------------------------------------------------------------
    rng = ctx.rng
    delays = ctx.scale(2, 3)
    cfgs = base_configs()
    n_random_cfg = ctx.scale(6, 60)
    cfgs += [random_config(rng) for _ in range(n_random_cfg)]
    cap = ctx.scale(27, 280)           # schedules kept per (cfg, rotation)
    reqs, meta = [], []
    for cfg in cfgs:
        njobs = cfg.split(":")[0].count(".") + 1
        d = delays if njobs <= 2 else max(1, delays - 1)
        for rot in ([0, rng.randint(1, 9)] if njobs <= 2 else [rng.randint(0, 9)]):
            reqs.append(f"enum {variant} {cfg} {rot} {d} 200000")
            meta.append((cfg, rot, d))
    t0 = time.time()
    reps = drv.ask(reqs)
    ctx.note(f"model enumeration: {len(reqs)} requests in {time.time() - t0:.1f}s")
    total_enumerated = 0
    exhaustive_cfgs = 0
    for (cfg, rot, d), rep in zip(meta, reps):
        if not rep.startswith("ok "):
            mismatches.append(f"enum {cfg}: {rep}")
            continue
        _ok, total, scheds = rep.split(" ", 2)
        scheds = [s.split(",") for s in scheds.split("|")]
        total_enumerated += len(scheds)
        if len(scheds) > cap:
            scheds = rng.sample(scheds, cap)
        else:
            exhaustive_cfgs += 1
        for labels in scheds:
            ch = FollowThenFinish(labels)
            r = run_real(cfg, ch)
            if ch.diverged:
                r.error = ch.diverged
            runs.append((r, f"enum:rot{rot}:d{d}"))
        ctx.count(f"enum-jobs:{cfg.split(':')[0].count('.') + 1}", len(scheds))
        ctx.count(f"enum-shutdown:{cfg.split(':')[1]}", len(scheds))
    ctx.extra["enumerated_schedules"] = total_enumerated
    ctx.extra["cfg_rot_pairs_run_exhaustively"] = exhaustive_cfgs
    ctx.note(f"enumerated {total_enumerated} schedules over {len(reqs)} (configuration, rotation) pairs, "
             f"{exhaustive_cfgs} pairs run in full (cap {cap})")

    ctx.note(f"t+{time.time() - ctx.t0:.0f}s: enumerated schedules done")
    # --- 2b. directed priority schedules, chosen on the real code (independent of the model's labels) -------------------
    # every order of the thread classes {submitters, workers, shutdown callers, cancel tasks}: e.g. "s,h,c,w" = all
    # submits (a later submit happens while the earlier jobs' workers are still before Popen), then the shutdowns and
    # their cancel tasks, the workers last; the environment (process exit) moves only when nothing else can
    import itertools
    dcfgs = ["tifu.tifu:0", "tifu.Tifs:1", "tifu.tifu.tifu:0", "tifu.Tifu.tIfk:01", "tifs.tiFu.tifu:1", "Tifu.tifu:00",
             "tifu.tifu.Tifu.tifu:0", "tifu.tifu:-"]
    dcfgs += [c for c in (random_config(rng) for _ in range(ctx.scale(3, 40))) if "." in c]
    for cfg in dcfgs:
        for order in itertools.permutations("shcw"):
            for reverse_ids in ((False, True) if order[0] == "s" or ctx.tier != "quick" else (False,)):
                def pchooser(n, en, order=order, reverse_ids=reverse_ids):
                    if not en:
                        return None
                    for cls in order + ("e",):
                        cand = [e for e in en if e[0] == cls]
                        if cand:
                            return cand[-1] if reverse_ids else cand[0]
                    return en[0]

                r = run_real(cfg, pchooser)
                runs.append((r, "directed:" + "".join(order)))
    ctx.count("directed-configs", len(dcfgs))

    ctx.note(f"t+{time.time() - ctx.t0:.0f}s: directed schedules done")
    # --- 2c. process-tree probes (outside the Lean model: it has one process per job) ---------------------------------
    # every solver process has a child that ignores SIGTERM; after cancel() — via shutdown(wait=False) or via the job's
    # time limit — no descendant may be left. Same priority schedules, property checked directly, no model comparison.
    for cfg in ["tifu:0", "Tifu:-", "tifu.Tifu:0", "TIfu.tifu:0", "Tifs.tifu:1"]:
        for order in itertools.permutations("shcw"):
            def tchooser(n, en, order=order, cfg=cfg):
                if not en:
                    return None
                # the time limit fires as soon as it can; a process only exits by itself when nothing else can move
                for cls in order:
                    cand = [e for e in en if e[0] == cls and e.endswith("t")] or [e for e in en if e[0] == cls]
                    if cand:
                        return cand[0]
                return en[0]

            r = run_real(cfg, tchooser, tree=True)
            ctx.case(("tree", cfg, order))
            ctx.count("source:tree-probe")
            report(ctx, variant, r, "tree-probe:" + "".join(order))
            if r.error:
                mismatches.append(f"[tree-probe] cfg {cfg}: {r.error}")

    # --- 2d. registry probes (outside the Lean model: it has one executor and no registry) ----------------------------
    # 2-3 executors, each registered by its first submitter through a fresh ExecutorRegistry() call (interleaved with the
    # submits), then ExecutorRegistry().shutdown_all(): every executor registered before that call must be shut down
    # (flag set, nothing running, nothing accepted). In all other simulated runs the executor is registered the same way and
    # every even-numbered wait=False caller goes through ExecutorRegistry().shutdown_all() as well.
    for cfg, n_exec in [("tifu.tifu:0", 2), ("tifu.Tifu.tifu:0", 3), ("tifu.tifu.tifu.tifu:0", 2), ("Tifu.tiFu:0", 2)]:
        for order in itertools.permutations("shcw"):
            def rchooser(n, en, order=order):
                if not en:
                    return None
                for cls in order:
                    cand = [e for e in en if e[0] == cls]
                    if cand:
                        return cand[0]
                return en[0]

            r = run_real(cfg, rchooser, n_exec=n_exec)
            ctx.case(("registry", cfg, n_exec, order))
            ctx.count("source:registry-probe")
            report(ctx, variant, r, f"registry-probe:{n_exec}:" + "".join(order))
            if r.error:
                mismatches.append(f"[registry-probe] cfg {cfg}: {r.error}")
    ctx.note(f"t+{time.time() - ctx.t0:.0f}s: tree probes done")
    # --- 3. random walks chosen on the real code ------------------------------------------------------------------------
    n_walks = ctx.scale(200, 4000)
    for _ in range(n_walks):
        cfg = random_config(rng) if rng.random() < 0.7 else rng.choice(base_configs())
        stick = rng.choice([0.0, 0.5, 0.8, 0.95])
        last = [None]

        def chooser(n, en, last=last, stick=stick):
            if not en:
                return None
            same = [e for e in en if last[0] is not None and thread_of(e) == last[0]]
            lab = same[0] if same and rng.random() < stick else rng.choice(en)
            last[0] = thread_of(lab)
            return lab

        r = run_real(cfg, chooser)
        runs.append((r, "random-walk"))
    ctx.count("source:random-walk", n_walks)

    ctx.note(f"t+{time.time() - ctx.t0:.0f}s: random walks done")
    # --- 4. compare everything with the model -----------------------------------------------------------------------
    reqs = [f"run {variant} {r.cfg} {','.join(r.labels) if r.labels else '-'}" for r, _ in runs]
    t0 = time.time()
    reps = drv.ask(reqs)
    ctx.note(f"model replay of {len(reqs)} schedules in {time.time() - t0:.1f}s")
    mismatch = None
    for (r, source), rep in zip(runs, reps):
        threads = {thread_of(l) for l in r.labels}
        ctx.case((variant, r.cfg, tuple(r.labels)), nontrivial=len(threads) >= 2)
        ctx.count("source:" + source.split(":")[0])
        for op in set(r.ops):
            ctx.count("op:" + op)
        ctx.count(f"steps:{min(len(r.labels) // 10 * 10, 60)}+")
        for o in (r.final or {}).get("out", []):
            ctx.count("outcome:" + o)
        for o in (r.final or {}).get("sh", []):
            ctx.count("shutdown:" + o)
        for e in (r.final or {}).get("exn", []):
            ctx.count("exception:" + e)
        for p in (r.final or {}).get("proc", []):
            ctx.count("proc:" + p)
        report(ctx, variant, r, source)
        if r.error and not source.startswith("corpus"):
            mismatch = mismatch or f"[{source}] cfg {r.cfg}: {r.error}"
            continue
        if r.error:
            continue
        try:
            bad = compare_with_model(r, rep)
        except Exception as e:  # noqa: BLE001
            bad = f"comparison failed: {type(e).__name__}: {e}"
        if bad and mismatch is None:
            mismatch = f"[{source}] cfg {r.cfg}: {bad}"
    ctx.sample({"cfg": runs[-1][0].cfg, "labels": runs[-1][0].labels, "final": runs[-1][0].final})

    mismatches += pipeline_probe(ctx, drv, literals)[:2]
    ctx.note(f"t+{time.time() - ctx.t0:.0f}s: model comparison done")
    # --- 5. real subprocesses ------------------------------------------------------------------------------------------
    real_process_runs(ctx, ctx.scale(17, 150), literals)
    pipeline_real_stub(ctx, *mods())
    function_context_probe(ctx, real=False)
    function_context_probe(ctx, real=True)

    if mismatch:
        mismatches.append(mismatch)
    if mismatches:
        raise RuntimeError("model and real code disagree (model stale, or the code under test changed): "
                           + " || ".join(mismatches[:4]))


def thread_of(label: str) -> str:
    return label[:-1] if label.endswith("t") else label


def follow_loose(labels):
    """corpus schedules recorded on another version of the code: follow while possible, then stop"""
    def ch(n, en):
        if n < len(labels) and labels[n] in en:
            return labels[n]
        return None
    return ch


def replay(ctx, data) -> bool:
    d = data.get("replay", data)
    if d.get("kind") == "function-context":
        function_context_probe(ctx, real=bool(d.get("real")))
        want = data.get("key")
        return any(v["key"] == want for v in ctx.violations) if want else bool(ctx.violations)
    if d.get("kind") == "pipeline-real":
        pipeline_real_stub(ctx, *mods())
        want = data.get("key")
        return any(v["key"] == want for v in ctx.violations) if want else bool(ctx.violations)
    if d.get("kind") == "pipeline":
        pipeline_probe(ctx, ctx.lean("Popen"), [])
        want = data.get("key")
        return any(v["key"] == want for v in ctx.violations) if want else bool(ctx.violations)
    if d.get("kind") == "late-fork":
        P, _S = mods()
        for _ in range(2):
            late_fork_probe(ctx, P, [], d["path"])
        want = data.get("key")
        return any(v["key"] == want for v in ctx.violations) if want else bool(ctx.violations)
    if d.get("kind") == "real":
        # the same job mix, three times (real processes: the overlap cases depend on timing)
        forced = [(d["mode"], list(d["jobs"]), bool(d.get("overlap")), int(d.get("n_exec") or 0))] * 3
        ctx.extra.setdefault("variant", detect_variant())
        real_process_runs(ctx, len(forced), [], forced=[(m, list(j), o, n) for m, j, o, n in forced])
        want = data.get("key")
        return any(v["key"] == want for v in ctx.violations) if want else bool(ctx.violations)
    r = run_real(d["cfg"], follow_loose(d["labels"]), timeouts=d.get("timeouts"), tree=bool(d.get("tree")),
                 n_exec=int(d.get("n_exec") or 1))
    keys = {k for k, _ in r.spec}
    want = data.get("key")
    return (want in keys) if want else bool(keys)
