"""C18 — Configuration resolves by precedence and round-trips.

Correspondence between the real halmos configuration code (imported from $HALMOS_REPO/src), the Lean Model
(`lean/HalmosVerif/Model/Config.lean`, asked through `Driver/Config.lean`) and the Lean Spec (`Spec/Precedence.lean`),
plus Python-side oracles for the option grammars written from the documented syntax (`--help` strings).
"""
from __future__ import annotations

import ast
import contextlib
import io
import json
import logging
import math
import os
import re
import shlex
import sys
import tempfile
from fractions import Fraction
from pathlib import Path

from vlib.runner import REPO, VERIF

ID = "C18"
EXTRACTORS = ["config_table"]
LEAN_MODULES = ["HalmosVerif.Props.C18"]
LEAN_EXTRA_TARGETS = ["HalmosVerif.Lemmas.ConfigBridge"]
RULE = (
    "stacks: exhaustive over <=3 layers x 6 sources x {set,None} for one option, then random stacks of 1..5 (thorough 1..7) "
    "layers over all 6 sources, random option subsets with None values, every Config field compared (value and source) "
    "between real Config, Model and Spec; a stack is distinct by its (source, keys, None-pattern) sequence. "
    "option strings: per grammar (timeout, csv-int, error codes, array lengths, trace events) valid strings from unparse of "
    "random values, hand-listed malformed strings and random character mutations; distinct by string. "
    "timeouts: every k ms for k in [0,10^5] through the real parse/unparse/parse plus decimal strings with units. "
    "TOML dicts, natspec texts, devdoc/natspec annotated artifacts through the real with_natspec/with_devdoc/run_tests/_main loops."
)
TRUSTED = [
    "Driver/Config.lean string/token (de)serialisation and tools/props/c18.py canonicalisers and grammar oracles",
    "argparse and shlex are modelled only for whitespace-separated `--long-name value|--long-name=value|--flag` tokens",
    "monkeypatches used to observe the real loops: halmos.config.get_solver_command/warn, halmos.__main__.run_test/run_contract/parse_build_out/subprocess",
]
ASSUMPTIONS = [
    "time values are exact decimal rationals in the model; binary rounding of float(s)/1000 and int(value*1000) is covered only by the exhaustive grid on the real code",
    "CPython's 4300-digit int<->str limit and float overflow/underflow are outside the model (generated literals stay below 60 digits, |exponent| <= 25)",
    "Unicode tables (str.isspace, decimal digits) are those of the running CPython; the model's tables are compared with them over all code points each run",
]

# ------------------------------------------------------------------------------------------------ real code


_H = {}


def H():
    """import the real halmos lazily (after sys.path is set)"""
    if _H:
        return _H
    from vlib.impl import use_repo

    use_repo()
    logging.disable(logging.CRITICAL)
    import halmos.config as hc
    import halmos.utils as hu
    import halmos.build as hb

    _H.update(hc=hc, hu=hu, hb=hb)
    return _H


def HM():
    if "hm" not in _H:
        H()
        import halmos.__main__ as hm

        _H["hm"] = hm
    return _H["hm"]


@contextlib.contextmanager
def quiet():
    o, e = io.StringIO(), io.StringIO()
    with contextlib.redirect_stdout(o), contextlib.redirect_stderr(e):
        yield


def classify_exc(e: BaseException) -> str:
    if isinstance(e, SystemExit):
        return "exit2" if e.code == 2 else f"exit{e.code}"
    if isinstance(e, ValueError):
        return "value"
    if isinstance(e, AttributeError):
        return "attr"
    if isinstance(e, TypeError):
        return "type"
    if isinstance(e, KeyError):
        return "key"
    return type(e).__name__


def real_call(f, *a, **kw):
    try:
        with quiet():
            return ("ok", f(*a, **kw))
    except (Exception, SystemExit) as e:  # noqa: BLE001
        return ("err", classify_exc(e))


# ------------------------------------------------------------------------------------------------ encoding


def enc_u(s: str) -> str:
    return "u:" + ".".join(format(ord(c), "x") for c in s)


def dec_u(t: str) -> str:
    assert t.startswith("u:"), t
    body = t[2:]
    return "" if not body else "".join(chr(int(p, 16)) for p in body.split("."))


def tok(v) -> str:
    """layer value token"""
    if v is None:
        return "N"
    if isinstance(v, bool):
        return "B:1" if v else "B:0"
    if isinstance(v, int):
        return f"I:{v}"
    if isinstance(v, str):
        return "S:" + enc_u(v)[2:]
    raise TypeError(v)


def show_ints(l) -> str:
    return "[" + ",".join(str(int(x)) for x in l) + "]"


def canon_val(v) -> str:
    """canonical string of a real option value, in the format of the driver's showVal (sets sorted, floats exact)"""
    hc = H()["hc"]
    if v is None:
        return "N"
    if isinstance(v, bool):
        return "B:1" if v else "B:0"
    if isinstance(v, int):
        return f"I:{v}"
    if isinstance(v, str):
        return "S:" + enc_u(v)[2:]
    if isinstance(v, float):
        if math.isnan(v):
            return "T:nan"
        if math.isinf(v):
            return "T:inf" if v > 0 else "T:-inf"
        return "T:float:" + v.hex()
    if isinstance(v, (set, frozenset)):
        return "C:" + show_ints(sorted(v))
    if isinstance(v, dict):
        return "D:{" + ";".join(enc_u(k) + "=" + show_ints(vs) for k, vs in v.items()) + "}"
    if isinstance(v, list):
        if v and all(isinstance(x, hc.TraceEvent) for x in v):
            return "E:[" + ",".join(x.value for x in v) + "]"
        if all(isinstance(x, int) for x in v):
            return "L:" + show_ints(v)
    return "O:" + repr(v)


def canon_kind(kind, v) -> str:
    if kind == "events":
        return "E:[" + ",".join(x.value for x in v) + "]"
    if kind == "csvint":
        return "L:" + show_ints(v)
    if kind == "codes":
        return "C:" + show_ints(sorted(v))
    return canon_val(v)


def canon_model_val(t: str) -> str:
    """bring a driver value string to the same canonical form (sort sets)"""
    if t.startswith("C:["):
        body = t[3:-1]
        return "C:" + show_ints(sorted(int(x) for x in body.split(",") if x))
    return t


def model_time(t: str):
    """'T:fin:m:s' -> Fraction | 'inf' | '-inf' | 'nan'"""
    assert t.startswith("T:"), t
    b = t[2:]
    if b.startswith("fin:"):
        _, m, s = b.split(":")
        return Fraction(int(m), 10 ** int(s))
    return b


def time_close(real: float, exact) -> bool:
    if isinstance(exact, str):
        if exact == "nan":
            return isinstance(real, float) and math.isnan(real)
        return isinstance(real, float) and math.isinf(real) and ((real > 0) == (exact == "inf"))
    if not isinstance(real, float) or math.isnan(real) or math.isinf(real):
        return False
    fr = Fraction(real)
    if exact == 0:
        return fr == 0
    return abs(fr - exact) <= abs(exact) * Fraction(1, 2 ** 50)


# ------------------------------------------------------------------------------------------------ literals


def harvest_literals():
    """integer literals in the functions/classes under test (config.py, utils.parse_time, build.parse_natspec, __main__ helpers)"""
    out = set()
    targets = {
        "config.py": None,  # whole file
        "utils.py": {"parse_time"},
        "build.py": {"parse_natspec", "parse_devdoc"},
        "__main__.py": {"with_devdoc", "with_natspec", "load_config"},
    }
    for fn, names in targets.items():
        tree = ast.parse((REPO / "src" / "halmos" / fn).read_text())
        nodes = [tree] if names is None else [n for n in ast.walk(tree) if isinstance(n, ast.FunctionDef) and n.name in names]
        for n in nodes:
            for c in ast.walk(n):
                if isinstance(c, ast.Constant) and isinstance(c.value, int) and not isinstance(c.value, bool):
                    out.add(c.value)
                if isinstance(c, ast.Constant) and isinstance(c.value, str):
                    for m in re.findall(r"\d+", c.value):
                        if len(m) < 12:
                            out.add(int(m))
                    if c.value.startswith("0x"):
                        with contextlib.suppress(ValueError):
                            out.add(int(c.value.split(",")[0], 16))
    res = set()
    for v in out:
        res.update({v - 1, v, v + 1})
    return sorted(x for x in res if abs(x) < 10 ** 12)


FIELDS = []


def field_names():
    if not FIELDS:
        from dataclasses import fields

        hc = H()["hc"]
        FIELDS.extend(f.name for f in fields(hc.Config) if not f.metadata.get(hc.internal))
    return FIELDS


SOURCES = ["void", "default", "config_file", "contract_annotation", "function_annotation", "command_line"]


def src_obj(name):
    return getattr(H()["hc"].ConfigSource, name)


# ------------------------------------------------------------------------------------------------ stacks


def build_real(layers):
    """layers: oldest first, [(source_name, {k: v})] -> ('ok', Config) | ('err', kind)"""
    hc = H()["hc"]

    def mk():
        cfg = None
        for i, (s, kw) in enumerate(layers):
            if i == 0:
                cfg = hc.Config(_parent=None, _source=src_obj(s), **kw)
            else:
                cfg = cfg.with_overrides(src_obj(s), **kw)
        return cfg

    return real_call(mk)


def stack_lines(layers):
    lines = ["reset"]
    for s, kw in layers:
        lines.append(" ".join(["layer", s] + [f"{k}={tok(v)}" for k, v in kw.items()]))
    return lines


def parse_all(reply):
    assert reply.startswith("ok "), reply
    out = {}
    for item in reply[3:].split(" "):
        k, rest = item.split("=", 1)
        v, s = rest.rsplit("@", 1)
        out[k] = (v, s)
    return out


class SolverProbe:
    """observe `resolved_solver_command` without looking for solver binaries"""

    def __enter__(self):
        hc = H()["hc"]
        self.hc = hc
        self.saved = (hc.get_solver_command, hc.warn)
        self.warned = []
        hc.get_solver_command = lambda name: ["<solver>", name]
        hc.warn = lambda *a, **k: self.warned.append(a)
        return self

    def __exit__(self, *a):
        self.hc.get_solver_command, self.hc.warn = self.saved

    def decide(self, cfg):
        self.warned.clear()
        try:
            r = cfg.resolved_solver_command
        except Exception as e:  # noqa: BLE001
            return f"err {classify_exc(e)}"
        if len(r) == 2 and r[0] == "<solver>":
            return f"solver {tok(r[1])}"
        return ("command", r, 1 if self.warned else 0)


def check_stacks(ctx, stacks, origin):
    """stacks: list of layer lists (oldest first). Compares every field's (value, source): real vs Model vs Spec, plus
    __getattribute__, unknown names, and the solver decision."""
    names = field_names()
    lines, idx = [], []
    for layers in stacks:
        ls = stack_lines(layers)
        start = len(lines)
        lines += ls + ["getall", "specall", "solver", "specsolver", "get no_such_option"]
        idx.append((start, len(ls)))
    replies = ctx.lean("Config").ask(lines)
    with SolverProbe() as probe:
        for layers, (start, nl) in zip(stacks, idx):
            lay_replies = replies[start + 1:start + nl]
            ga, sa, sv, ssv, unk = replies[start + nl:start + nl + 5]
            shape = tuple((s, tuple((k, v is None) for k, v in kw.items())) for s, kw in layers)
            real = build_real(layers)
            bad_key = any(k not in names for _, kw in layers for k in kw)
            ctx.count(f"stack.layers={len(layers)}")
            for s, kw in layers:
                ctx.count(f"stack.source.{s}")
            if real[0] == "err":
                ctx.count("stack.rejected." + real[1])
                m_err = [r for r in lay_replies if r != "ok"]
                if bad_key and real[1] == "exit2":
                    if "err exit2" not in m_err:
                        raise RuntimeError(f"model accepts a stack the real with_overrides rejects: {layers}")
                else:
                    ctx.violation("with_overrides:unexpected-error:" + real[1], f"with_overrides raised {real[1]} on {layers}",
                                  {"kind": "stack", "layers": layers, "origin": origin})
                ctx.case(("stack-rej", shape))
                continue
            if bad_key:
                ctx.violation("with_overrides:accepts-unknown-key", f"unknown key accepted: {layers}",
                              {"kind": "stack", "layers": layers, "origin": origin})
                continue
            if any(r != "ok" for r in lay_replies):
                raise RuntimeError(f"model rejects layers the real code accepts: {layers} -> {lay_replies}")
            cfg = real[1]
            model, spec = parse_all(ga), parse_all(sa)
            order = list(names)
            ctx.rng.shuffle(order)
            for n in order:
                rv, rs = cfg.value_with_source(n)
                got = (tok(rv), rs.name)
                got_attr = tok(getattr(cfg, n))
                sp = spec[n]
                sp_norm = (sp[0], "void" if sp[1] == "none" else sp[1])
                if got != sp_norm or got_attr != sp_norm[0]:
                    ctx.violation(
                        f"precedence:want={sp_norm[1]},got={got[1]}" + ("" if got_attr == got[0] else ":getattr-differs"),
                        f"option {n}: real value_with_source={got}, getattr={got_attr}, spec={sp_norm} for layers (oldest first) {layers}",
                        {"kind": "stack", "layers": layers, "name": n, "origin": origin})
                elif model[n] != got:
                    raise RuntimeError(f"stale model: option {n}: model={model[n]} real={got} spec={sp_norm} layers={layers}")
            # second pass through __getattribute__ (exercises its cache past 64 entries)
            for n in names:
                if tok(getattr(cfg, n)) != spec[n][0]:
                    ctx.violation("precedence:getattr-cache", f"second read of {n} differs from spec for {layers}",
                                  {"kind": "stack", "layers": layers, "name": n, "origin": origin})
            # unknown attribute
            r = real_call(getattr, cfg, "no_such_option")
            if r != ("err", "attr"):
                ctx.violation("getattr:unknown-name-not-rejected", f"getattr(cfg,'no_such_option') -> {r}", {"kind": "stack", "layers": layers})
            if unk != "err attr":
                raise RuntimeError(f"model getattr unknown: {unk}")
            # solver decision
            d = probe.decide(cfg)
            if isinstance(d, tuple):
                cmd_val = cfg.value_with_source("solver_command")[0]
                ok_split = isinstance(cmd_val, str) and d[1] == shlex.split(cmd_val)
                real_s = f"command {tok(cmd_val)}" if ok_split else f"command ?{d[1]}"
                real_m = f"{real_s} {d[2]}"
            else:
                real_s = real_m = d
            ctx.count("solver." + real_s.split(" ")[0])
            if real_s != ssv:
                ctx.violation("solver_command_rule:" + real_s.split(" ")[0] + "-vs-" + ssv.split(" ")[0],
                              f"resolved_solver_command -> {real_s}, spec -> {ssv}, layers {layers}",
                              {"kind": "stack", "layers": layers, "name": "<solver>", "origin": origin})
            elif real_m != sv:
                raise RuntimeError(f"stale model: solver decision model={sv} real={real_m} layers={layers}")
            ctx.case(("stack", shape))


def gen_value(rng, pool):
    r = rng.random()
    if r < 0.45:
        return rng.choice(pool)
    if r < 0.6:
        return rng.choice([True, False])
    if r < 0.95:
        return rng.choice(["", "z3", "yices", "cvc5 --flag", "a b", "x", "0", "é", "solver-cmd"])
    return 0


def gen_stack(rng, pool, max_layers):
    names = field_names()
    n = rng.randint(1, max_layers)
    k = rng.randint(1, 6)
    universe = rng.sample(names, k)
    if rng.random() < 0.6:
        universe += ["solver", "solver_command"]
    if rng.random() < 0.08:
        universe = list(names)  # every option set
    src_w = rng.choice([[1, 3, 3, 3, 3, 3], [0, 1, 1, 1, 1, 1], [1, 1, 0, 0, 0, 4], [2, 2, 2, 2, 2, 2]])
    layers = []
    for _ in range(n):
        s = rng.choices(SOURCES, weights=src_w)[0]
        kw = {}
        for name in universe:
            r = rng.random()
            if r < 0.5:
                kw[name] = gen_value(rng, pool)
                if name == "solver_command" or (name == "solver" and rng.random() < 0.8):
                    kw[name] = rng.choice(["", "z3", "yices", "my-solver --x", "s"])
            elif r < 0.7:
                kw[name] = None
        if layers and rng.random() < 0.02:
            kw[rng.choice(["unknown_key", "loop_", "Loop", "_parent", "_source", "values"])] = 1
        layers.append((s, kw))
    return layers


def exhaustive_small_stacks():
    out = []
    for n in (1, 2, 3):
        def rec(prefix):
            if len(prefix) == n:
                out.append(list(prefix))
                return
            for s in SOURCES:
                for setit in (True, False):
                    rec(prefix + [(s, {"loop": (100 + len(prefix)) if setit else None})])
        rec([])
    return out


def exhaustive_solver_stacks():
    """two layers, both options, all source pairs, command in {unset, '', 'c'}, solver in {unset, 'z3'}"""
    out = []
    vals_c = [("unset", None), ("empty", ""), ("cmd", "mysolver -x")]
    vals_s = [("unset", None), ("set", "z3")]
    for s1 in SOURCES:
        for s2 in SOURCES:
            for _, c1 in vals_c:
                for _, c2 in vals_c:
                    for _, v1 in vals_s:
                        for _, v2 in vals_s:
                            out.append([(s1, {"solver": v1, "solver_command": c1}), (s2, {"solver": v2, "solver_command": c2})])
    return out


# ------------------------------------------------------------------------------------------------ option grammars
# Oracles: the documented syntax of each option, written without looking at how config.py parses it.


def _csv_tokens(s):
    return [t.strip() for t in s.split(",") if t.strip()]


def oracle_csvint(s):
    toks = _csv_tokens(s)
    if not toks:
        return ("err", "value")
    try:
        return ("ok", [int(t) for t in toks])
    except ValueError:
        return ("err", "value")


def oracle_codes(s):
    s = s.strip()
    if s == "*":
        return ("ok", set())
    toks = _csv_tokens(s)
    if not toks:
        return ("err", "value")
    try:
        return ("ok", {int(t, 0) for t in toks})
    except ValueError:
        return ("err", "value")


def oracle_events(s):
    toks = _csv_tokens(s)
    if all(t in ("LOG", "SSTORE", "SLOAD") for t in toks):
        return ("ok", toks)
    return ("err", "value")


def oracle_lengths(s):
    """NAME1={L1,L2,...},NAME2=L3,...  (hand scanner, no regular expressions)"""
    if not s:
        return ("ok", {})
    s = "".join(c for c in s if not c.isspace())
    out, i, n = {}, 0, len(s)
    while i < n:
        j = i
        while j < n and s[j] not in "=,{}":
            j += 1
        if j == i or j >= n or s[j] != "=":
            return ("err", "value")
        name = s[i:j]
        j += 1
        if j < n and s[j] == "{":
            k = j + 1
            while k < n and (s[k].isdecimal() or s[k] == ","):
                k += 1
            if k >= n or s[k] != "}" or k == j + 1:
                return ("err", "value")
            body, j = s[j + 1:k], k + 1
        else:
            k = j
            while k < n and s[k].isdecimal():
                k += 1
            if k == j:
                return ("err", "value")
            body, j = s[j:k], k
        sizes = [int(t) for t in body.split(",") if t]
        if not sizes:
            return ("err", "value")
        out[name] = sizes
        if j == n:
            break
        if s[j] != ",":
            return ("err", "value")
        i = j + 1
    return ("ok", out)


def oracle_timeout(s):
    """number with an optional unit ms|s|m|h (ms when absent); exact value as a Fraction, or inf/nan markers"""
    unit = Fraction(1, 1000)
    body = s
    for suf, mult in (("ms", Fraction(1, 1000)), ("s", Fraction(1)), ("m", Fraction(60)), ("h", Fraction(3600))):
        if s.endswith(suf):
            body, unit = s[: -len(suf)], mult
            break
    try:
        f = float(body)
    except ValueError:
        return ("err", "value")
    if math.isnan(f):
        return ("ok", "nan")
    if math.isinf(f):
        return ("ok", "inf" if f > 0 else "-inf")
    # exact value of the literal: strip what float() strips/accepts
    t = body.strip().replace("_", "")
    t = "".join(str(int(c)) if c.isdecimal() else c for c in t)
    try:
        return ("ok", Fraction(t) * unit)
    except (ValueError, ZeroDivisionError):
        return ("ok", Fraction(f) * unit)


PARSERS = {
    # kind: (class name, oracle, model kind)
    "csvint": ("ParseCSVInt", oracle_csvint),
    "codes": ("ParseErrorCodes", oracle_codes),
    "events": ("ParseCSVTraceEvent", oracle_events),
    "lengths": ("ParseArrayLengths", oracle_lengths),
    "timeout": ("ParseTimeout", oracle_timeout),
}

UNI_DIGITS = "٣۴５७"  # decimal digits of other scripts (int()/\d accept them)
UNI_SPACES = "  　\x1c\x0b\x85"
MUT_ALPHABET = "0123456789,{}=*xXoObB_-+. eEsmh\t\n" + "afAF" + UNI_DIGITS + UNI_SPACES + "@:é"


def rand_int_literal(rng, pool, base0=False, neg_ok=True):
    v = rng.choice(pool) if rng.random() < 0.5 else rng.randrange(0, 10 ** rng.randint(1, 30))
    v = abs(v)
    r = rng.random()
    if base0 and r < 0.5:
        s = rng.choice([lambda x: f"0x{x:x}", lambda x: f"0X{x:X}", lambda x: f"0o{x:o}", lambda x: f"0b{x:b}", lambda x: f"0x{x:02x}",
                        lambda x: f"0x_{x:x}", lambda x: f"0O{x:o}", lambda x: f"0B{x:b}"])(v)
    else:
        s = str(v)
        if r > 0.9 and not base0:
            s = "0" * rng.randint(1, 3) + s
    if rng.random() < 0.1 and len(s) > 2:
        i = rng.randrange(1, len(s))
        s = s[:i] + "_" + s[i:]
    if rng.random() < 0.08:
        s = "".join(rng.choice("٠١٢٣٤٥٦٧٨٩")[0] if False else c for c in s)
    if rng.random() < 0.06:
        s = "".join(chr(0x660 + int(c)) if c.isdigit() and c.isascii() else c for c in s)
    if neg_ok and rng.random() < 0.12:
        s = rng.choice("-+") + s
    return s


def pad(rng, s):
    ws = " \t" + UNI_SPACES
    if rng.random() < 0.3:
        s = "".join(rng.choice(ws) for _ in range(rng.randint(1, 2))) + s
    if rng.random() < 0.3:
        s = s + "".join(rng.choice(ws) for _ in range(rng.randint(1, 2)))
    return s


def mutate(rng, s):
    s = list(s)
    for _ in range(rng.randint(1, 2)):
        op = rng.random()
        i = rng.randrange(0, len(s) + 1)
        if op < 0.4:
            s.insert(i, rng.choice(MUT_ALPHABET))
        elif op < 0.7 and s:
            del s[min(i, len(s) - 1)]
        elif s:
            s[min(i, len(s) - 1)] = rng.choice(MUT_ALPHABET)
    return "".join(s)


FIXED_STRINGS = {
    "csvint": ["", " ", ",", ",,", "0", "1,2,3", " 1 , 2 ", "1,,2", "-1", "+1", "1_0", "1__0", "_1", "1_", "0x10", "1.5", "abc", "1 2",
               "٣", "007", "--1", "1,", ",1", "1;2", "1\n,2", "\x1c5", "5\x1c", "1\x1c2", "0,65,1024", "0,1,2", "9" * 40, "1e3", "１２"],
    "codes": ["*", " * ", "**", "* ,", "", ",", "0x01", "0x01,0x02", "1,2", "0x", "0x_1", "0x__1", "0_x1", "01", "00", "0_0", "0", "-0x1", "+5",
              "0b102", "0o8", "0o17", "0B11", "0XfF", "0x1g", "٣", "٠١", "٠", "0x-1", "1,*", "*,1", "0x01,0x01", "1,0x1,0b1", " 0x11 ,\t0x12 ",
              "0x00", "0b", "0o_7", "0x1_f", "0x1__f", "0x1f_", "x1", "0٣", "0x٣"],
    "events": ["", ",", "LOG", "LOG,SSTORE,SLOAD", " LOG , SLOAD ", "log", "LOG,", "LOGS", "LOG SSTORE", "LOG,,SLOAD", "LOG,LOG", "SSTORE;SLOAD",
               "TraceEvent.LOG", "*", "LOG　,SLOAD"],
    "lengths": ["", " ", "x=1", "x={1,2}", "x={1,2},y=3", "x=1,", "x=1,,y=2", ",x=1", "x=", "x={}", "x={,}", "x={1,,2}", "x={1", "x=1}", "x={{1}}",
                "x=1,2", "=1", "x==1", "x=1y=2", "x y = { 1 , 2 } , z = 3", "x=1,x=2", "x={1},y={2},x={3}", "x=٣", "x={٣,4}", "x=-1", "x={-1}",
                "x=1_0", "x={1}{2}", "x={1},", "x={1},,", "a.b[0]=5", "x=1\n", "x=1,\ny=2", "{x}=1", "x=1=2", "x={1}=2", "x=0", "x={0,0}",
                "é=1", "x　= 1", "x=1 2", "x={1 2}", "x=1,y", "x=1,y=", "x" * 30 + "=7"],
    "timeout": ["0", "1", "1000", "1ms", "1s", "1m", "1h", "1.5", "1.5s", "0.5ms", "0.0005s", ".5s", "5.s", "1e3", "1e3ms", "1e-3s", "1E2m", "-5s", "+5s",
                "", "s", "ms", "m", "h", "1 s", " 1s", "1s ", "1　s", "　1s", "1_0s", "1__0s", "_1s", "1_s", "1._5s", "1_.5s", "1e1_0ms",
                "nan", "inf", "infs", "-infinityms", "nans", "NaNh", "Infm", "infinit", "1ss", "1mss", "1sm", "1hs", "0x10", "٣s", "٣.٥ms", "1,5s",
                "00", "0.0", "0s", "00s", "60s", "1m", "0.001s", "999ms", "1000ms", "1001ms", "1.0005s", "3600s", "1h", "1d", "1us", "1e", "e5s",
                "1e+s", ".s", ".", "..5s", "1.2.3s", "\x1c1s", "1\x1cs", "12345678901234567890s", "0.1234567890123456789s", "1e25ms", "1e-25h", "١٢s"],
}


def gen_valid(rng, kind, pool):
    if kind == "csvint":
        return ",".join(pad(rng, rand_int_literal(rng, pool)) for _ in range(rng.randint(1, 5)))
    if kind == "codes":
        if rng.random() < 0.05:
            return pad(rng, "*")
        return ",".join(pad(rng, rand_int_literal(rng, pool, base0=True)) for _ in range(rng.randint(1, 5)))
    if kind == "events":
        return ",".join(pad(rng, rng.choice(["LOG", "SSTORE", "SLOAD"])) for _ in range(rng.randint(0, 4)))
    if kind == "lengths":
        items = []
        for _ in range(rng.randint(1, 4)):
            name = "".join(rng.choice("abxyz_.[]09é") for _ in range(rng.randint(1, 4)))
            nums = [str(abs(rng.choice(pool))) if rng.random() < 0.5 else str(rng.randrange(0, 2000)) for _ in range(rng.randint(1, 3))]
            if rng.random() < 0.1:
                nums[0] = "".join(chr(0x660 + int(c)) for c in nums[0])
            if len(nums) == 1 and rng.random() < 0.5:
                items.append(f"{name}={nums[0]}")
            else:
                items.append(name + "={" + ",".join(nums) + "}")
        s = ",".join(items) + ("," if rng.random() < 0.1 else "")
        if rng.random() < 0.3:
            s = "".join((c + rng.choice(" \t　")) if rng.random() < 0.15 else c for c in s)
        return s
    if kind == "timeout":
        ip = str(rng.choice(pool + [0, 1, 59, 60, 61, 999, 1000, 1001, 3599, 3600])) if rng.random() < 0.5 else str(rng.randrange(0, 10 ** rng.randint(1, 8)))
        ip = ip.lstrip("-") or "0"
        s = ip
        r = rng.random()
        if r < 0.5:
            s += "." + "".join(rng.choice("0123456789") for _ in range(rng.randint(0, 6)))
        elif r < 0.55:
            s = "." + "".join(rng.choice("0123456789") for _ in range(rng.randint(1, 4)))
        if rng.random() < 0.15:
            s += rng.choice("eE") + rng.choice(["", "-", "+"]) + str(rng.randint(0, 12))
        if rng.random() < 0.08:
            s = rng.choice("-+") + s
        return s + rng.choice(["", "ms", "s", "m", "h", "ms", "s"])
    raise KeyError(kind)


def real_unparse(kind, v):
    hc = H()["hc"]
    return getattr(hc, PARSERS[kind][0]).unparse(v)


def model_unparse_req(kind, v):
    if kind == "csvint":
        return f"unparse csvint {show_ints(v)}"
    if kind == "codes":
        return f"unparse codes {show_ints(list(v))}"   # the real iteration order of the set
    if kind == "events":
        return "unparse events [" + ",".join(x.value for x in v) + "]"
    if kind == "lengths":
        return "unparse lengths {" + ";".join(enc_u(k) + "=" + show_ints(vs) for k, vs in v.items()) + "}"
    raise KeyError(kind)


def values_equal(kind, a, b):
    if kind == "timeout":
        return a == b or (isinstance(a, float) and isinstance(b, float) and math.isnan(a) and math.isnan(b))
    if kind == "lengths":
        return a == b and list(a.items()) == list(b.items())
    return a == b


def check_parser_strings(ctx, kind, strings, origin="gen"):
    """real parse vs oracle (violation) vs model (stale model); then unparse/parse round trip on the real code"""
    hc = H()["hc"]
    cls = getattr(hc, PARSERS[kind][0])
    oracle = PARSERS[kind][1]
    strings = [s for s in dict.fromkeys(strings) if not any(0xD800 <= ord(c) <= 0xDFFF for c in s)]
    replies = ctx.lean("Config").ask([f"parse {kind} {enc_u(s)}" for s in strings])
    unparse_reqs = []
    for s, mrep in zip(strings, replies):
        real = real_call(cls.parse, s)
        orc = oracle(s)
        ctx.count(f"parse.{kind}.{real[0]}" + ("" if real[0] == "ok" else "." + real[1]))
        replay = {"kind": "parse", "parser": kind, "string": s, "origin": origin}
        # ---- real vs oracle
        if real[0] != orc[0]:
            cls_key = "accepts-malformed" if real[0] == "ok" else "rejects-valid"
            if real[0] == "err" and real[1] != "value":
                cls_key = "raises-" + real[1]
            ctx.violation(f"{PARSERS[kind][0]}.parse:{cls_key}", f"{PARSERS[kind][0]}.parse({s!r}) -> {real}, documented grammar says {orc}", replay)
            continue
        if real[0] == "err":
            if real[1] != "value":
                ctx.violation(f"{PARSERS[kind][0]}.parse:raises-{real[1]}", f"parse({s!r}) raised {real[1]} instead of ValueError", replay)
                continue
            if not mrep.startswith("err"):
                raise RuntimeError(f"stale model: {kind} parse({s!r}) rejected by the real code and the oracle, model says {mrep}")
            ctx.case((kind, s))
            continue
        v = real[1]
        if kind == "timeout":
            same = time_close(v, orc[1])
        else:
            same = values_equal(kind, v, orc[1]) and type(v) is type(orc[1])
        if not same:
            ctx.violation(f"{PARSERS[kind][0]}.parse:wrong-value", f"parse({s!r}) = {v!r}, documented grammar says {orc[1]!r}", replay)
            continue
        # ---- real vs model
        if not mrep.startswith("ok "):
            raise RuntimeError(f"stale model: {kind} parse({s!r}) = {v!r} on the real code, model says {mrep}")
        mval = mrep[3:]
        if kind == "timeout":
            if not time_close(v, model_time(mval)):
                raise RuntimeError(f"stale model: timeout parse({s!r}) = {v!r}, model {mval}")
        elif canon_model_val(mval) != canon_kind(kind, v):
            raise RuntimeError(f"stale model: {kind} parse({s!r}) = {canon_kind(kind, v)}, model {canon_model_val(mval)}")
        ctx.case((kind, s))
        # ---- round trip on the real code
        if kind == "timeout":
            continue  # handled by the grid (needs mode detection)
        u = real_call(cls.unparse, v)
        back = real_call(cls.parse, u[1]) if u[0] == "ok" else u
        if back[0] != "ok" or not values_equal(kind, back[1], v):
            sub = "negative" if (kind == "codes" and any(x < 0 for x in v)) else ("empty" if not v else "other")
            ctx.violation(f"{PARSERS[kind][0]}.unparse:{sub}" if sub != "other" else f"{PARSERS[kind][0]}.roundtrip",
                          f"parse(unparse({v!r})) = {back} (unparse gave {u[1]!r})",
                          {"kind": "roundtrip", "parser": kind, "string": s, "origin": origin})
            ctx.count(f"roundtrip.{kind}.fails")
        else:
            ctx.count(f"roundtrip.{kind}.ok")
        if u[0] == "ok":
            unparse_reqs.append((kind, v, u[1]))
    # model unparse = real unparse (same rendering)
    if unparse_reqs:
        reps = ctx.lean("Config").ask([model_unparse_req(k, v) for k, v, _ in unparse_reqs])
        for (k, v, ru), mr in zip(unparse_reqs, reps):
            if not mr.startswith("ok ") or dec_u(mr[3:]) != ru:
                raise RuntimeError(f"stale model: {k} unparse({v!r}) = {ru!r}, model {mr if not mr.startswith('ok ') else dec_u(mr[3:])!r}")


def check_parsers(ctx, pool):
    n = ctx.scale(700, 15000)
    for kind in PARSERS:
        strings = list(FIXED_STRINGS[kind])
        for _ in range(n):
            s = gen_valid(ctx.rng, kind, pool)
            strings.append(s)
            if ctx.rng.random() < 0.6:
                strings.append(mutate(ctx.rng, s))
        for s in list(FIXED_STRINGS[kind]):
            strings.append(mutate(ctx.rng, s))
        check_parser_strings(ctx, kind, strings)
