"""C18 — Configuration resolves by precedence and round-trips.

Correspondence between the real halmos configuration code (imported from $HALMOS_REPO/src), the Lean Model
(`lean/HalmosVerif/Model/Config.lean`, asked through `Driver/Config.lean`) and the Lean Spec (`Spec/Precedence.lean`),
plus Python-side oracles for the option grammars written from the documented syntax (`--help` strings).
"""
from __future__ import annotations

import ast
import contextlib
import io
import json
import logging
import math
import os
import re
import shlex
import sys
import tempfile
from fractions import Fraction
from pathlib import Path

from vlib.runner import REPO, VERIF

ID = "C18"
EXTRACTORS = ["config_table"]
LEAN_MODULES = ["HalmosVerif.Props.C18"]
LEAN_EXTRA_TARGETS = ["HalmosVerif.Lemmas.ConfigBridge"]
RULE = (
    "stacks: exhaustive over <=3 layers x 6 sources x {set,None} for one option, then random stacks of 1..5 (thorough 1..7) "
    "layers over all 6 sources, random option subsets with None values, every Config field compared (value and source) "
    "between real Config, Model and Spec; a stack is distinct by its (source, keys, None-pattern) sequence. "
    "option strings: per grammar (timeout, csv-int, error codes, array lengths, trace events) valid strings from unparse of "
    "random values, hand-listed malformed strings and random character mutations; distinct by string. "
    "timeouts: every k ms for k in [0,10^5] through the real parse/unparse/parse plus decimal strings with units. "
    "solver sequences: all ordered pairs of solver-registry entries, triples over the entries that share a binary, and random sequences of 3-6, each element a config stack whose effective --solver is that entry, resolved one after another in one process through the real get_solver_command (fake executables on PATH in a scratch dir) and compared with the rule applied to the stack alone. TOML: every Config option x every native toml value form (bare ints/floats/bools/arrays/tables/dates and quoted strings) through the real parse_str, then random TOML dicts (documented exclusion: generated documents never give array-lengths a falsy native value 0/0.0/false/[]/{} - that known finding is exercised by its directed corpus case only); natspec texts, devdoc/natspec annotated artifacts through the real with_natspec/with_devdoc/run_tests/_main loops."
)
TRUSTED = [
    "Driver/Config.lean string/token (de)serialisation and tools/props/c18.py canonicalisers and grammar oracles",
    "argparse and shlex are modelled only for whitespace-separated `--long-name value|--long-name=value|--flag` tokens",
    "monkeypatches used to observe the real loops: halmos.config.get_solver_command/warn, halmos.__main__.run_test/run_contract/parse_build_out/subprocess",
]
ASSUMPTIONS = [
    "time values are exact decimal rationals in the model; binary rounding of float(s)/1000 and int(value*1000) is covered only by the exhaustive grid on the real code",
    "CPython's 4300-digit int<->str limit and float overflow/underflow are outside the model (generated literals stay below 60 digits, |exponent| <= 25)",
    "Unicode tables (str.isspace, decimal digits) are those of the running CPython; the model's tables are compared with them over all code points each run",
]

# ------------------------------------------------------------------------------------------------ real code


_H = {}


def H():
    """import the real halmos lazily (after sys.path is set)"""
    if _H:
        return _H
    from vlib.impl import use_repo

    use_repo()
    logging.disable(logging.CRITICAL)
    import halmos.config as hc
    import halmos.utils as hu
    import halmos.build as hb

    _H.update(hc=hc, hu=hu, hb=hb)
    return _H


def HM():
    if "hm" not in _H:
        H()
        import halmos.__main__ as hm

        _H["hm"] = hm
    return _H["hm"]


@contextlib.contextmanager
def quiet():
    o, e = io.StringIO(), io.StringIO()
    with contextlib.redirect_stdout(o), contextlib.redirect_stderr(e):
        yield


def classify_exc(e: BaseException) -> str:
    if isinstance(e, SystemExit):
        return "exit2" if e.code == 2 else f"exit{e.code}"
    if isinstance(e, ValueError):
        return "value"
    if isinstance(e, AttributeError):
        return "attr"
    if isinstance(e, TypeError):
        return "type"
    if isinstance(e, KeyError):
        return "key"
    return type(e).__name__


def real_call(f, *a, **kw):
    try:
        with quiet():
            return ("ok", f(*a, **kw))
    except (Exception, SystemExit) as e:  # noqa: BLE001
        return ("err", classify_exc(e))


# ------------------------------------------------------------------------------------------------ encoding


def enc_u(s: str) -> str:
    return "u:" + ".".join(format(ord(c), "x") for c in s)


def dec_u(t: str) -> str:
    assert t.startswith("u:"), t
    body = t[2:]
    return "" if not body else "".join(chr(int(p, 16)) for p in body.split("."))


def tok(v) -> str:
    """layer value token"""
    if v is None:
        return "N"
    if isinstance(v, bool):
        return "B:1" if v else "B:0"
    if isinstance(v, int):
        return f"I:{v}"
    if isinstance(v, str):
        return "S:" + enc_u(v)[2:]
    raise TypeError(v)


def show_ints(l) -> str:
    return "[" + ",".join(str(int(x)) for x in l) + "]"


def canon_val(v) -> str:
    """canonical string of a real option value, in the format of the driver's showVal (sets sorted, floats exact)"""
    hc = H()["hc"]
    if v is None:
        return "N"
    if isinstance(v, bool):
        return "B:1" if v else "B:0"
    if isinstance(v, int):
        return f"I:{v}"
    if isinstance(v, str):
        return "S:" + enc_u(v)[2:]
    if isinstance(v, float):
        if math.isnan(v):
            return "T:nan"
        if math.isinf(v):
            return "T:inf" if v > 0 else "T:-inf"
        return "T:float:" + v.hex()
    if isinstance(v, (set, frozenset)):
        return "C:" + show_ints(sorted(v))
    if isinstance(v, dict):
        return "D:{" + ";".join(enc_u(k) + "=" + show_ints(vs) for k, vs in v.items()) + "}"
    if isinstance(v, list):
        if v and all(isinstance(x, hc.TraceEvent) for x in v):
            return "E:[" + ",".join(x.value for x in v) + "]"
        if all(isinstance(x, int) for x in v):
            return "L:" + show_ints(v)
    return "O:" + repr(v)


def canon_kind(kind, v) -> str:
    if kind == "events":
        return "E:[" + ",".join(x.value for x in v) + "]"
    if kind == "csvint":
        return "L:" + show_ints(v)
    if kind == "codes":
        return "C:" + show_ints(sorted(v))
    return canon_val(v)


def canon_model_val(t: str) -> str:
    """bring a driver value string to the same canonical form (sort sets)"""
    if t.startswith("C:["):
        body = t[3:-1]
        return "C:" + show_ints(sorted(int(x) for x in body.split(",") if x))
    return t


def model_time(t: str):
    """'T:fin:m:s' -> Fraction | 'inf' | '-inf' | 'nan'"""
    assert t.startswith("T:"), t
    b = t[2:]
    if b.startswith("fin:"):
        _, m, s = b.split(":")
        return Fraction(int(m), 10 ** int(s))
    return b


def time_close(real: float, exact) -> bool:
    if isinstance(exact, str):
        if exact == "nan":
            return isinstance(real, float) and math.isnan(real)
        return isinstance(real, float) and math.isinf(real) and ((real > 0) == (exact == "inf"))
    if not isinstance(real, float) or math.isnan(real) or math.isinf(real):
        return False
    fr = Fraction(real)
    if exact == 0:
        return fr == 0
    return abs(fr - exact) <= abs(exact) * Fraction(1, 2 ** 50)


# ------------------------------------------------------------------------------------------------ literals


def harvest_literals():
    """integer literals in the functions/classes under test (config.py, utils.parse_time, build.parse_natspec, __main__ helpers)"""
    out = set()
    targets = {
        "config.py": None,  # whole file
        "utils.py": {"parse_time"},
        "build.py": {"parse_natspec", "parse_devdoc"},
        "__main__.py": {"with_devdoc", "with_natspec", "load_config"},
    }
    for fn, names in targets.items():
        tree = ast.parse((REPO / "src" / "halmos" / fn).read_text())
        nodes = [tree] if names is None else [n for n in ast.walk(tree) if isinstance(n, ast.FunctionDef) and n.name in names]
        for n in nodes:
            for c in ast.walk(n):
                if isinstance(c, ast.Constant) and isinstance(c.value, int) and not isinstance(c.value, bool):
                    out.add(c.value)
                if isinstance(c, ast.Constant) and isinstance(c.value, str):
                    for m in re.findall(r"\d+", c.value):
                        if len(m) < 12:
                            out.add(int(m))
                    if c.value.startswith("0x"):
                        with contextlib.suppress(ValueError):
                            out.add(int(c.value.split(",")[0], 16))
    res = set()
    for v in out:
        res.update({v - 1, v, v + 1})
    return sorted(x for x in res if abs(x) < 10 ** 12)


FIELDS = []


def field_names():
    if not FIELDS:
        from dataclasses import fields

        hc = H()["hc"]
        FIELDS.extend(f.name for f in fields(hc.Config) if not f.metadata.get(hc.internal))
    return FIELDS


SOURCES = ["void", "default", "config_file", "contract_annotation", "function_annotation", "command_line"]


def src_obj(name):
    return getattr(H()["hc"].ConfigSource, name)


# ------------------------------------------------------------------------------------------------ stacks


def build_real(layers):
    """layers: oldest first, [(source_name, {k: v})] -> ('ok', Config) | ('err', kind)"""
    hc = H()["hc"]

    def mk():
        cfg = None
        for i, (s, kw) in enumerate(layers):
            if i == 0:
                cfg = hc.Config(_parent=None, _source=src_obj(s), **kw)
            else:
                cfg = cfg.with_overrides(src_obj(s), **kw)
        return cfg

    return real_call(mk)


def stack_lines(layers):
    lines = ["reset"]
    for s, kw in layers:
        lines.append(" ".join(["layer", s] + [f"{k}={tok(v)}" for k, v in kw.items()]))
    return lines


def parse_all(reply):
    assert reply.startswith("ok "), reply
    out = {}
    for item in reply[3:].split(" "):
        k, rest = item.split("=", 1)
        v, s = rest.rsplit("@", 1)
        out[k] = (v, s)
    return out


class SolverProbe:
    """observe `resolved_solver_command` without looking for solver binaries"""

    def __enter__(self):
        hc = H()["hc"]
        self.hc = hc
        self.saved = (hc.get_solver_command, hc.warn)
        self.warned = []
        hc.get_solver_command = lambda name: ["<solver>", name]
        hc.warn = lambda *a, **k: self.warned.append(a)
        return self

    def __exit__(self, *a):
        self.hc.get_solver_command, self.hc.warn = self.saved

    def decide(self, cfg):
        self.warned.clear()
        try:
            r = cfg.resolved_solver_command
        except Exception as e:  # noqa: BLE001
            return f"err {classify_exc(e)}"
        if len(r) == 2 and r[0] == "<solver>":
            return f"solver {tok(r[1])}"
        return ("command", r, 1 if self.warned else 0)


def check_stacks(ctx, stacks, origin):
    """stacks: list of layer lists (oldest first). Compares every field's (value, source): real vs Model vs Spec, plus
    __getattribute__, unknown names, and the solver decision."""
    names = field_names()
    lines, idx = [], []
    for layers in stacks:
        ls = stack_lines(layers)
        start = len(lines)
        lines += ls + ["getall", "specall", "solver", "specsolver", "get no_such_option"]
        idx.append((start, len(ls)))
    replies = ctx.lean("Config").ask(lines)
    with SolverProbe() as probe:
        for layers, (start, nl) in zip(stacks, idx):
            lay_replies = replies[start + 1:start + nl]
            ga, sa, sv, ssv, unk = replies[start + nl:start + nl + 5]
            shape = tuple((s, tuple((k, v is None) for k, v in kw.items())) for s, kw in layers)
            real = build_real(layers)
            bad_key = any(k not in names for _, kw in layers for k in kw)
            ctx.count(f"stack.layers={len(layers)}")
            for s, kw in layers:
                ctx.count(f"stack.source.{s}")
            if real[0] == "err":
                ctx.count("stack.rejected." + real[1])
                m_err = [r for r in lay_replies if r != "ok"]
                if bad_key and real[1] == "exit2":
                    if "err exit2" not in m_err:
                        raise RuntimeError(f"model accepts a stack the real with_overrides rejects: {layers}")
                else:
                    ctx.violation("with_overrides:unexpected-error:" + real[1], f"with_overrides raised {real[1]} on {layers}",
                                  {"kind": "stack", "layers": layers, "origin": origin})
                ctx.case(("stack-rej", shape))
                continue
            if bad_key:
                ctx.violation("with_overrides:accepts-unknown-key", f"unknown key accepted: {layers}",
                              {"kind": "stack", "layers": layers, "origin": origin})
                continue
            if any(r != "ok" for r in lay_replies):
                raise RuntimeError(f"model rejects layers the real code accepts: {layers} -> {lay_replies}")
            cfg = real[1]
            model, spec = parse_all(ga), parse_all(sa)
            order = list(names)
            ctx.rng.shuffle(order)
            for n in order:
                rv, rs = cfg.value_with_source(n)
                got = (tok(rv), rs.name)
                got_attr = tok(getattr(cfg, n))
                sp = spec[n]
                sp_norm = (sp[0], "void" if sp[1] == "none" else sp[1])
                if got != sp_norm or got_attr != sp_norm[0]:
                    ctx.violation(
                        f"precedence:want={sp_norm[1]},got={got[1]}" + ("" if got_attr == got[0] else ":getattr-differs"),
                        f"option {n}: real value_with_source={got}, getattr={got_attr}, spec={sp_norm} for layers (oldest first) {layers}",
                        {"kind": "stack", "layers": layers, "name": n, "origin": origin})
                elif model[n] != got:
                    raise RuntimeError(f"stale model: option {n}: model={model[n]} real={got} spec={sp_norm} layers={layers}")
            # second pass through __getattribute__ (exercises its cache past 64 entries)
            for n in names:
                if tok(getattr(cfg, n)) != spec[n][0]:
                    ctx.violation("precedence:getattr-cache", f"second read of {n} differs from spec for {layers}",
                                  {"kind": "stack", "layers": layers, "name": n, "origin": origin})
            # unknown attribute
            r = real_call(getattr, cfg, "no_such_option")
            if r != ("err", "attr"):
                ctx.violation("getattr:unknown-name-not-rejected", f"getattr(cfg,'no_such_option') -> {r}", {"kind": "stack", "layers": layers})
            if unk != "err attr":
                raise RuntimeError(f"model getattr unknown: {unk}")
            # solver decision
            d = probe.decide(cfg)
            if isinstance(d, tuple):
                cmd_val = cfg.value_with_source("solver_command")[0]
                ok_split = isinstance(cmd_val, str) and d[1] == shlex.split(cmd_val)
                real_s = f"command {tok(cmd_val)}" if ok_split else f"command ?{d[1]}"
                real_m = f"{real_s} {d[2]}"
            else:
                real_s = real_m = d
            ctx.count("solver." + real_s.split(" ")[0])
            if real_s != ssv:
                ctx.violation("solver_command_rule:" + real_s.split(" ")[0] + "-vs-" + ssv.split(" ")[0],
                              f"resolved_solver_command -> {real_s}, spec -> {ssv}, layers {layers}",
                              {"kind": "stack", "layers": layers, "name": "<solver>", "origin": origin})
            elif real_m != sv:
                want_warn = 1 if spec["solver"][1] == spec["solver_command"][1] else 0
                if isinstance(d, tuple) and d[2] != want_warn:
                    ctx.violation("solver_command_rule:same-precedence-warning",
                                  f"warning {'raised' if d[2] else 'not raised'} although --solver comes from {spec['solver'][1]} and "
                                  f"--solver-command from {spec['solver_command'][1]}; layers {layers}",
                                  {"kind": "stack", "layers": layers, "name": "<solver>", "origin": origin})
                else:
                    raise RuntimeError(f"stale model: solver decision model={sv} real={real_m} layers={layers}")
            ctx.case(("stack", shape))


def gen_value(rng, pool):
    r = rng.random()
    if r < 0.45:
        return rng.choice(pool)
    if r < 0.6:
        return rng.choice([True, False])
    if r < 0.95:
        return rng.choice(["", "z3", "yices", "cvc5 --flag", "a b", "x", "0", "é", "solver-cmd"])
    return 0


def gen_stack(rng, pool, max_layers):
    names = field_names()
    n = rng.randint(1, max_layers)
    k = rng.randint(1, 6)
    universe = rng.sample(names, k)
    if rng.random() < 0.6:
        universe += ["solver", "solver_command"]
    if rng.random() < 0.08:
        universe = list(names)  # every option set
    src_w = rng.choice([[1, 3, 3, 3, 3, 3], [0, 1, 1, 1, 1, 1], [1, 1, 0, 0, 0, 4], [2, 2, 2, 2, 2, 2]])
    layers = []
    for _ in range(n):
        s = rng.choices(SOURCES, weights=src_w)[0]
        kw = {}
        for name in universe:
            r = rng.random()
            if r < 0.5:
                kw[name] = gen_value(rng, pool)
                if name == "solver_command" or (name == "solver" and rng.random() < 0.8):
                    kw[name] = rng.choice(["", "z3", "yices", "my-solver --x", "s"])
            elif r < 0.7:
                kw[name] = None
        if layers and rng.random() < 0.02:
            kw[rng.choice(["unknown_key", "loop_", "Loop", "_parent", "_source", "values"])] = 1
        layers.append((s, kw))
    return layers


def exhaustive_small_stacks():
    out = []
    for n in (1, 2, 3):
        def rec(prefix):
            if len(prefix) == n:
                out.append(list(prefix))
                return
            for s in SOURCES:
                for setit in (True, False):
                    rec(prefix + [(s, {"loop": (100 + len(prefix)) if setit else None})])
        rec([])
    return out


def exhaustive_solver_stacks():
    """two layers, both options, all source pairs, command in {unset, '', 'c'}, solver in {unset, 'z3'}"""
    out = []
    vals_c = [("unset", None), ("empty", ""), ("cmd", "mysolver -x")]
    vals_s = [("unset", None), ("set", "z3")]
    for s1 in SOURCES:
        for s2 in SOURCES:
            for _, c1 in vals_c:
                for _, c2 in vals_c:
                    for _, v1 in vals_s:
                        for _, v2 in vals_s:
                            out.append([(s1, {"solver": v1, "solver_command": c1}), (s2, {"solver": v2, "solver_command": c2})])
    return out


# ------------------------------------------------------------------------------------------------ option grammars
# Oracles: the documented syntax of each option, written without looking at how config.py parses it.


def _csv_tokens(s):
    return [t.strip() for t in s.split(",") if t.strip()]


def oracle_csvint(s):
    toks = _csv_tokens(s)
    if not toks:
        return ("err", "value")
    try:
        return ("ok", [int(t) for t in toks])
    except ValueError:
        return ("err", "value")


def oracle_codes(s):
    s = s.strip()
    if s == "*":
        return ("ok", set())
    toks = _csv_tokens(s)
    if not toks:
        return ("err", "value")
    try:
        return ("ok", {int(t, 0) for t in toks})
    except ValueError:
        return ("err", "value")


def oracle_events(s):
    toks = _csv_tokens(s)
    if all(t in ("LOG", "SSTORE", "SLOAD") for t in toks):
        return ("ok", toks)
    return ("err", "value")


def oracle_lengths(s):
    """NAME1={L1,L2,...},NAME2=L3,...  (hand scanner, no regular expressions)"""
    if not s:
        return ("ok", {})
    s = "".join(c for c in s if not c.isspace())
    out, i, n = {}, 0, len(s)
    while i < n:
        j = i
        while j < n and s[j] not in "=,{}":
            j += 1
        if j == i or j >= n or s[j] != "=":
            return ("err", "value")
        name = s[i:j]
        j += 1
        if j < n and s[j] == "{":
            k = j + 1
            while k < n and (s[k].isdecimal() or s[k] == ","):
                k += 1
            if k >= n or s[k] != "}" or k == j + 1:
                return ("err", "value")
            body, j = s[j + 1:k], k + 1
        else:
            k = j
            while k < n and s[k].isdecimal():
                k += 1
            if k == j:
                return ("err", "value")
            body, j = s[j:k], k
        sizes = [int(t) for t in body.split(",") if t]
        if not sizes:
            return ("err", "value")
        out[name] = sizes
        if j == n:
            break
        if s[j] != ",":
            return ("err", "value")
        i = j + 1
    return ("ok", out)


def oracle_timeout(s):
    """number with an optional unit ms|s|m|h (ms when absent); exact value as a Fraction, or inf/nan markers"""
    unit = Fraction(1, 1000)
    body = s
    for suf, mult in (("ms", Fraction(1, 1000)), ("s", Fraction(1)), ("m", Fraction(60)), ("h", Fraction(3600))):
        if s.endswith(suf):
            body, unit = s[: -len(suf)], mult
            break
    try:
        f = float(body)
    except ValueError:
        return ("err", "value")
    if math.isnan(f):
        return ("ok", "nan")
    if math.isinf(f):
        return ("ok", "inf" if f > 0 else "-inf")
    # exact value of the literal: strip what float() strips/accepts
    t = body.strip().replace("_", "")
    t = "".join(str(int(c)) if c.isdecimal() else c for c in t)
    try:
        return ("ok", Fraction(t) * unit)
    except (ValueError, ZeroDivisionError):
        return ("ok", Fraction(f) * unit)


PARSERS = {
    # kind: (class name, oracle, model kind)
    "csvint": ("ParseCSVInt", oracle_csvint),
    "codes": ("ParseErrorCodes", oracle_codes),
    "events": ("ParseCSVTraceEvent", oracle_events),
    "lengths": ("ParseArrayLengths", oracle_lengths),
    "timeout": ("ParseTimeout", oracle_timeout),
}

UNI_DIGITS = "٣۴５७"  # decimal digits of other scripts (int()/\d accept them)
UNI_SPACES = "  　\x1c\x0b\x85"
MUT_ALPHABET = "0123456789,{}=*xXoObB_-+. eEsmh\t\n" + "afAF" + UNI_DIGITS + UNI_SPACES + "@:é"


def rand_int_literal(rng, pool, base0=False, neg_ok=True):
    v = rng.choice(pool) if rng.random() < 0.5 else rng.randrange(0, 10 ** rng.randint(1, 30))
    v = abs(v)
    r = rng.random()
    if base0 and r < 0.5:
        s = rng.choice([lambda x: f"0x{x:x}", lambda x: f"0X{x:X}", lambda x: f"0o{x:o}", lambda x: f"0b{x:b}", lambda x: f"0x{x:02x}",
                        lambda x: f"0x_{x:x}", lambda x: f"0O{x:o}", lambda x: f"0B{x:b}"])(v)
    else:
        s = str(v)
        if r > 0.9 and not base0:
            s = "0" * rng.randint(1, 3) + s
    if rng.random() < 0.1 and len(s) > 2:
        i = rng.randrange(1, len(s))
        s = s[:i] + "_" + s[i:]
    if rng.random() < 0.08:
        s = "".join(rng.choice("٠١٢٣٤٥٦٧٨٩")[0] if False else c for c in s)
    if rng.random() < 0.06:
        s = "".join(chr(0x660 + int(c)) if c.isdigit() and c.isascii() else c for c in s)
    if neg_ok and rng.random() < 0.12:
        s = rng.choice("-+") + s
    return s


def pad(rng, s):
    ws = " \t" + UNI_SPACES
    if rng.random() < 0.3:
        s = "".join(rng.choice(ws) for _ in range(rng.randint(1, 2))) + s
    if rng.random() < 0.3:
        s = s + "".join(rng.choice(ws) for _ in range(rng.randint(1, 2)))
    return s


def mutate(rng, s):
    s = list(s)
    for _ in range(rng.randint(1, 2)):
        op = rng.random()
        i = rng.randrange(0, len(s) + 1)
        if op < 0.4:
            s.insert(i, rng.choice(MUT_ALPHABET))
        elif op < 0.7 and s:
            del s[min(i, len(s) - 1)]
        elif s:
            s[min(i, len(s) - 1)] = rng.choice(MUT_ALPHABET)
    return "".join(s)


FIXED_STRINGS = {
    "csvint": ["", " ", ",", ",,", "0", "1,2,3", " 1 , 2 ", "1,,2", "-1", "+1", "1_0", "1__0", "_1", "1_", "0x10", "1.5", "abc", "1 2",
               "٣", "007", "--1", "1,", ",1", "1;2", "1\n,2", "\x1c5", "5\x1c", "1\x1c2", "0,65,1024", "0,1,2", "9" * 40, "1e3", "１２"],
    "codes": ["*", " * ", "**", "* ,", "", ",", "0x01", "0x01,0x02", "1,2", "0x", "0x_1", "0x__1", "0_x1", "01", "00", "0_0", "0", "-0x1", "+5",
              "0b102", "0o8", "0o17", "0B11", "0XfF", "0x1g", "٣", "٠١", "٠", "0x-1", "1,*", "*,1", "0x01,0x01", "1,0x1,0b1", " 0x11 ,\t0x12 ",
              "0x00", "0b", "0o_7", "0x1_f", "0x1__f", "0x1f_", "x1", "0٣", "0x٣"],
    "events": ["", ",", "LOG", "LOG,SSTORE,SLOAD", " LOG , SLOAD ", "log", "LOG,", "LOGS", "LOG SSTORE", "LOG,,SLOAD", "LOG,LOG", "SSTORE;SLOAD",
               "TraceEvent.LOG", "*", "LOG　,SLOAD"],
    "lengths": ["", " ", "x=1", "x={1,2}", "x={1,2},y=3", "x=1,", "x=1,,y=2", ",x=1", "x=", "x={}", "x={,}", "x={1,,2}", "x={1", "x=1}", "x={{1}}",
                "x=1,2", "=1", "x==1", "x=1y=2", "x y = { 1 , 2 } , z = 3", "x=1,x=2", "x={1},y={2},x={3}", "x=٣", "x={٣,4}", "x=-1", "x={-1}",
                "x=1_0", "x={1}{2}", "x={1},", "x={1},,", "a.b[0]=5", "x=1\n", "x=1,\ny=2", "{x}=1", "x=1=2", "x={1}=2", "x=0", "x={0,0}",
                "é=1", "x　= 1", "x=1 2", "x={1 2}", "x=1,y", "x=1,y=", "x" * 30 + "=7"],
    "timeout": ["0", "1", "1000", "1ms", "1s", "1m", "1h", "1.5", "1.5s", "0.5ms", "0.0005s", ".5s", "5.s", "1e3", "1e3ms", "1e-3s", "1E2m", "-5s", "+5s",
                "", "s", "ms", "m", "h", "1 s", " 1s", "1s ", "1　s", "　1s", "1_0s", "1__0s", "_1s", "1_s", "1._5s", "1_.5s", "1e1_0ms",
                "nan", "inf", "infs", "-infinityms", "nans", "NaNh", "Infm", "infinit", "1ss", "1mss", "1sm", "1hs", "0x10", "٣s", "٣.٥ms", "1,5s",
                "00", "0.0", "0s", "00s", "60s", "1m", "0.001s", "999ms", "1000ms", "1001ms", "1.0005s", "3600s", "1h", "1d", "1us", "1e", "e5s",
                "1e+s", ".s", ".", "..5s", "1.2.3s", "\x1c1s", "1\x1cs", "12345678901234567890s", "0.1234567890123456789s", "1e25ms", "1e-25h", "١٢s"],
}


def gen_valid(rng, kind, pool):
    if kind == "csvint":
        return ",".join(pad(rng, rand_int_literal(rng, pool)) for _ in range(rng.choice([1, 2, 3, 4, 5, 7, 9, 12])))
    if kind == "codes":
        if rng.random() < 0.05:
            return pad(rng, "*")
        return ",".join(pad(rng, rand_int_literal(rng, pool, base0=True)) for _ in range(rng.choice([1, 2, 3, 4, 5, 7, 9, 12])))
    if kind == "events":
        return ",".join(pad(rng, rng.choice(["LOG", "SSTORE", "SLOAD"])) for _ in range(rng.choice([0, 1, 2, 3, 4, 6, 9])))
    if kind == "lengths":
        items = []
        for _ in range(rng.choice([1, 1, 2, 3, 4, 6, 8])):
            name = "".join(rng.choice("abxyz_.[]09é") for _ in range(rng.randint(1, 4)))
            nums = [str(abs(rng.choice(pool))) if rng.random() < 0.5 else str(rng.randrange(0, 2000)) for _ in range(rng.choice([1, 1, 2, 3, 4, 5, 8]))]
            if rng.random() < 0.1:
                nums[0] = "".join(chr(0x660 + int(c)) for c in nums[0])
            if len(nums) == 1 and rng.random() < 0.5:
                items.append(f"{name}={nums[0]}")
            else:
                items.append(name + "={" + ",".join(nums) + "}")
        s = ",".join(items) + ("," if rng.random() < 0.1 else "")
        if rng.random() < 0.3:
            s = "".join((c + rng.choice(" \t　")) if rng.random() < 0.15 else c for c in s)
        return s
    if kind == "timeout":
        ip = str(rng.choice(pool + [0, 1, 59, 60, 61, 999, 1000, 1001, 3599, 3600])) if rng.random() < 0.5 else str(rng.randrange(0, 10 ** rng.randint(1, 8)))
        ip = ip.lstrip("-") or "0"
        s = ip
        r = rng.random()
        if r < 0.5:
            s += "." + "".join(rng.choice("0123456789") for _ in range(rng.randint(0, 6)))
        elif r < 0.55:
            s = "." + "".join(rng.choice("0123456789") for _ in range(rng.randint(1, 4)))
        if rng.random() < 0.15:
            s += rng.choice("eE") + rng.choice(["", "-", "+"]) + str(rng.randint(0, 12))
        if rng.random() < 0.08:
            s = rng.choice("-+") + s
        return s + rng.choice(["", "ms", "s", "m", "h", "ms", "s"])
    raise KeyError(kind)


def real_unparse(kind, v):
    hc = H()["hc"]
    return getattr(hc, PARSERS[kind][0]).unparse(v)


def model_unparse_req(kind, v):
    if kind == "csvint":
        return f"unparse csvint {show_ints(v)}"
    if kind == "codes":
        return f"unparse codes {show_ints(list(v))}"   # the real iteration order of the set
    if kind == "events":
        return "unparse events [" + ",".join(x.value for x in v) + "]"
    if kind == "lengths":
        return "unparse lengths {" + ";".join(enc_u(k) + "=" + show_ints(vs) for k, vs in v.items()) + "}"
    raise KeyError(kind)


def values_equal(kind, a, b):
    if kind == "timeout":
        return a == b or (isinstance(a, float) and isinstance(b, float) and math.isnan(a) and math.isnan(b))
    if kind == "lengths":
        return a == b and list(a.items()) == list(b.items())
    return a == b


def check_parser_strings(ctx, kind, strings, origin="gen"):
    """real parse vs oracle (violation) vs model (stale model); then unparse/parse round trip on the real code"""
    hc = H()["hc"]
    cls = getattr(hc, PARSERS[kind][0])
    oracle = PARSERS[kind][1]
    strings = [s for s in dict.fromkeys(strings) if not any(0xD800 <= ord(c) <= 0xDFFF for c in s)]
    if kind == "timeout":
        # float overflow/underflow is outside the model: keep exponents small
        strings = [s for s in strings if not re.search(r"[eE][-+_]*[\d_]{3,}", s)]
    replies = ctx.lean("Config").ask([f"parse {kind} {enc_u(s)}" for s in strings])
    unparse_reqs = []
    for s, mrep in zip(strings, replies):
        real = real_call(cls.parse, s)
        orc = oracle(s)
        ctx.count(f"parse.{kind}.{real[0]}" + ("" if real[0] == "ok" else "." + real[1]))
        replay = {"kind": "parse", "parser": kind, "string": s, "origin": origin}
        # ---- real vs oracle
        if real[0] != orc[0]:
            cls_key = "accepts-malformed" if real[0] == "ok" else "rejects-valid"
            if real[0] == "err" and real[1] != "value":
                cls_key = "raises-" + real[1]
            ctx.violation(f"{PARSERS[kind][0]}.parse:{cls_key}", f"{PARSERS[kind][0]}.parse({s!r}) -> {real}, documented grammar says {orc}", replay)
            continue
        if real[0] == "err":
            if real[1] != "value":
                ctx.violation(f"{PARSERS[kind][0]}.parse:raises-{real[1]}", f"parse({s!r}) raised {real[1]} instead of ValueError", replay)
                continue
            if not mrep.startswith("err"):
                raise RuntimeError(f"stale model: {kind} parse({s!r}) rejected by the real code and the oracle, model says {mrep}")
            ctx.case((kind, s))
            continue
        v = real[1]
        if kind == "timeout":
            same = time_close(v, orc[1])
        elif kind == "events":
            same = isinstance(v, list) and [getattr(x, "value", None) for x in v] == orc[1] and all(isinstance(x, hc.TraceEvent) for x in v)
        else:
            same = values_equal(kind, v, orc[1]) and type(v) is type(orc[1])
        if not same:
            ctx.violation(f"{PARSERS[kind][0]}.parse:wrong-value", f"parse({s!r}) = {v!r}, documented grammar says {orc[1]!r}", replay)
            continue
        # ---- real vs model
        if not mrep.startswith("ok "):
            raise RuntimeError(f"stale model: {kind} parse({s!r}) = {v!r} on the real code, model says {mrep}")
        mval = mrep[3:]
        if kind == "timeout":
            if not time_close(v, model_time(mval)):
                raise RuntimeError(f"stale model: timeout parse({s!r}) = {v!r}, model {mval}")
        elif canon_model_val(mval) != canon_kind(kind, v):
            raise RuntimeError(f"stale model: {kind} parse({s!r}) = {canon_kind(kind, v)}, model {canon_model_val(mval)}")
        ctx.case((kind, s))
        # ---- round trip on the real code
        if kind == "timeout":
            continue  # handled by the grid (needs mode detection)
        u = real_call(cls.unparse, v)
        back = real_call(cls.parse, u[1]) if u[0] == "ok" else u
        if back[0] != "ok" or not values_equal(kind, back[1], v):
            sub = "negative" if (kind == "codes" and any(x < 0 for x in v)) else ("empty" if not v else "other")
            ctx.violation(f"{PARSERS[kind][0]}.unparse:{sub}" if sub != "other" else f"{PARSERS[kind][0]}.roundtrip",
                          f"parse(unparse({v!r})) = {back} (unparse gave {u[1]!r})",
                          {"kind": "roundtrip", "parser": kind, "string": s, "origin": origin})
            ctx.count(f"roundtrip.{kind}.fails")
        else:
            ctx.count(f"roundtrip.{kind}.ok")
            if u[0] == "ok":
                unparse_reqs.append((kind, v, u[1]))
    # model unparse = real unparse (same rendering)
    if unparse_reqs:
        reps = ctx.lean("Config").ask([model_unparse_req(k, v) for k, v, _ in unparse_reqs])
        for (k, v, ru), mr in zip(unparse_reqs, reps):
            if not mr.startswith("ok ") or dec_u(mr[3:]) != ru:
                raise RuntimeError(f"stale model: {k} unparse({v!r}) = {ru!r}, model {mr if not mr.startswith('ok ') else dec_u(mr[3:])!r}")


def check_parsers(ctx, pool, only=None):
    n = ctx.scale(700, 6000)
    for kind in PARSERS:
        if only is not None and kind != only:
            continue
        strings = list(FIXED_STRINGS[kind])
        for _ in range(n):
            s = gen_valid(ctx.rng, kind, pool)
            strings.append(s)
            if ctx.rng.random() < 0.6:
                strings.append(mutate(ctx.rng, s))
        for s in list(FIXED_STRINGS[kind]):
            strings.append(mutate(ctx.rng, s))
        check_parser_strings(ctx, kind, strings)


# ------------------------------------------------------------------------------------------------ timeouts: grid


def timeout_mode():
    """which ParseTimeout.unparse is live: 'truncating' (pinned source), 'roundtrips' (repaired) or 'other'"""
    PT = H()["hc"].ParseTimeout
    res = []
    for v in (1.5, 0.0005):
        r = real_call(lambda v=v: PT.parse(PT.unparse(v)))
        res.append(r == ("ok", v))
    trunc = real_call(PT.unparse, 1.5) == ("ok", "1s") and real_call(PT.unparse, 0.0005) == ("ok", "0ms")
    if all(res):
        return "roundtrips"
    if trunc:
        return "truncating"
    return "other"


def dec_of_fraction(fr: Fraction):
    """(mant, scale) normal form of a decimal rational, None if not decimal"""
    num, den = fr.numerator, fr.denominator
    scale = 0
    d = den
    while d % 10 == 0:
        d //= 10
        scale += 1
    twos = fives = 0
    while d % 2 == 0:
        d //= 2
        twos += 1
    while d % 5 == 0:
        d //= 5
        fives += 1
    if d != 1:
        return None
    k = max(twos, fives)
    mant = num * (5 ** (k - fives)) * (2 ** (k - twos))
    scale += k
    while scale > 0 and mant % 10 == 0:
        mant //= 10
        scale -= 1
    return mant, scale


def truncating_expected(exact: Fraction) -> str:
    """the pinned unparse on an exact value (Python mirror of Model.unparseTimeoutCurrent, cross-checked against it)"""
    def trunc(fr):
        return int(fr)  # Fraction -> int truncates toward zero
    if exact < 1:
        return f"{trunc(exact * 1000)}ms"
    return f"{trunc(exact)}s"


def check_timeout_grid(ctx, pool):
    PT = H()["hc"].ParseTimeout
    mode = timeout_mode()
    ctx.note(f"ParseTimeout.unparse behaviour detected at run time: {mode}")
    ctx.count(f"timeout.mode.{mode}")
    ctx.extra["timeout_unparse_mode"] = mode
    # replay of the proved counterexamples (Props.C18.timeout_roundtrip_current_cex): 1.5 s and 0.5 ms
    for lit, v in (("1.5s", 1.5), ("0.5ms", 0.0005)):
        pv = PT.parse(lit)
        assert pv == v, (lit, pv)
        u = PT.unparse(pv)
        if PT.parse(u) != pv:
            ctx.violation("ParseTimeout.unparse:truncates",
                          f"ParseTimeout.parse(ParseTimeout.unparse({pv!r})) = {PT.parse(u)!r} (unparse gave {u!r}); "
                          "0.5 ms even becomes '0ms' = no timeout",
                          {"kind": "timeout-roundtrip", "string": lit})
    # ---- the grid: every k ms, and decimal strings with units
    step = 1
    grid = [(f"{k}ms", Fraction(k, 1000)) for k in range(0, 100001, step)]
    extra = []
    for unit, mult in (("s", Fraction(1)), ("ms", Fraction(1, 1000)), ("m", Fraction(60)), ("h", Fraction(3600)), ("", Fraction(1, 1000))):
        for ip in sorted({0, 1, 2, 5, 9, 10, 59, 60, 61, 99, 100, 999, 1000, 1001, 3599, 3600, 3601, 86400} | {abs(p) for p in pool}):
            for fp in ("", ".0", ".5", ".25", ".001", ".0005", ".999", ".1", ".3", ".7", ".05", ".125", ".0001", ".123456"):
                extra.append((f"{ip}{fp}{unit}", Fraction(f"{ip}{fp}") * mult))
    n_rand = ctx.scale(3000, 60000)
    for _ in range(n_rand):
        ip = ctx.rng.randrange(0, 10 ** ctx.rng.randint(1, 6))
        fp = "".join(ctx.rng.choice("0123456789") for _ in range(ctx.rng.randint(0, 7)))
        unit, mult = ctx.rng.choice([("s", Fraction(1)), ("ms", Fraction(1, 1000)), ("m", Fraction(60)), ("h", Fraction(3600)), ("", Fraction(1, 1000))])
        lit = f"{ip}.{fp}" if fp or ctx.rng.random() < 0.3 else f"{ip}"
        extra.append((lit + unit, Fraction(lit if not lit.endswith(".") else lit[:-1]) * mult))
    cases = grid + extra
    fails = {"lt1s": 0, "ge1s": 0}
    model_sample = []
    for idx, (lit, exact) in enumerate(cases):
        r = real_call(PT.parse, lit)
        if r[0] != "ok" or not time_close(r[1], exact):
            ctx.violation("ParseTimeout.parse:wrong-value", f"ParseTimeout.parse({lit!r}) -> {r}, expected {float(exact)!r}",
                          {"kind": "parse", "parser": "timeout", "string": lit})
            continue
        v = r[1]
        u = real_call(PT.unparse, v)
        back = real_call(PT.parse, u[1]) if u[0] == "ok" else u
        ok = back == ("ok", v)
        branch = "lt1s" if exact < 1 else "ge1s"
        ctx.count(f"timeout.grid.{branch}.{'ok' if ok else 'fails'}")
        ctx.case(("tgrid", lit), nontrivial=idx < len(grid) or idx % 7 == 0)
        if not ok:
            fails[branch] += 1
            want = truncating_expected(exact)
            explained = False
            if mode == "truncating" and u[0] == "ok":
                m1 = re.fullmatch(r"(-?\d+)(ms|s)", u[1])
                m2 = re.fullmatch(r"(-?\d+)(ms|s)", want)
                # binary rounding of value*1000 may move the truncated integer by one
                explained = bool(m1 and m2 and m1.group(2) == m2.group(2) and abs(int(m1.group(1)) - int(m2.group(1))) <= 1)
                if explained and m1.group(1) != m2.group(1):
                    ctx.count("timeout.grid.float-off-by-one")
            if explained:
                ctx.violation("ParseTimeout.unparse:truncates",
                              f"parse(unparse(parse({lit!r}))) = {back}, unparse gave {u[1]!r}", {"kind": "timeout-roundtrip", "string": lit})
            else:
                ctx.violation(f"ParseTimeout.roundtrip:{branch}:{'raises' if u[0] != 'ok' or back[0] != 'ok' else 'wrong-value'}",
                              f"parse(unparse(parse({lit!r}) = {v!r})) = {back}, unparse gave {u[1]!r}" +
                              (f" (the truncating definition would give {want!r})" if mode == "truncating" else ""),
                              {"kind": "timeout-roundtrip", "string": lit})
        elif mode == "truncating" and u[1] != truncating_expected(exact):
            # round trip holds but the rendering is not the pinned one: also compare (off-by-one from rounding cannot round-trip)
            ctx.count("timeout.grid.rendering-differs")
        if idx % 37 == 0 or idx < 1200 or 990 <= idx % 1000 or idx >= len(grid):
            model_sample.append((lit, exact, v, u[1] if u[0] == "ok" else None))
    ctx.extra["timeout_grid_points"] = len(grid)
    ctx.extra["timeout_grid_exhaustive_k_ms"] = [0, 100000, step]
    # ---- model on a sample: parse value, both unparse definitions, model round trip of the repaired one
    if len(model_sample) > ctx.scale(9000, 80000):
        keep = model_sample[:1200] + ctx.rng.sample(model_sample[1200:], ctx.scale(9000, 80000) - 1200)
        model_sample = keep
    reqs = []
    for lit, exact, v, u in model_sample:
        m, s = dec_of_fraction(exact)
        reqs += [f"parse timeout {enc_u(lit)}", f"unparse timeout-current {m} {s}", f"unparse timeout-fixed {m} {s}"]
    reps = ctx.lean("Config").ask(reqs)
    back_reqs = []
    for i, (lit, exact, v, u) in enumerate(model_sample):
        p, uc, uf = reps[3 * i:3 * i + 3]
        if not p.startswith("ok T:") or model_time(p[3:]) != exact:
            raise RuntimeError(f"stale model: timeout parse({lit!r}) model {p}, exact {exact}")
        if dec_u(uc[3:]) != truncating_expected(exact):
            raise RuntimeError(f"harness mirror of the truncating unparse disagrees with the model on {lit}: {dec_u(uc[3:])} vs {truncating_expected(exact)}")
        back_reqs.append(f"parse timeout {uf[3:]}")
        if u is not None and mode != "truncating":
            back_reqs.append(f"parse timeout {enc_u(u)}")
            ctx.count("timeout.rendering." + ("same-as-model" if dec_u(uf[3:]) == u else "differs-from-model"))
    breps = ctx.lean("Config").ask(back_reqs)
    j = 0
    for lit, exact, v, u in model_sample:
        r = breps[j]
        j += 1
        if not r.startswith("ok T:") or model_time(r[3:]) != exact:
            raise RuntimeError(f"model: repaired unparse does not round-trip on {lit}: {r}")
        if u is not None and mode != "truncating":
            r2 = breps[j]
            j += 1
            # the string the real (repaired) unparse produced denotes the same time in the model
            if not r2.startswith("ok T:") or not time_close(v, model_time(r2[3:])):
                ctx.violation("ParseTimeout.unparse:denotes-other-value", f"unparse({v!r}) = {u!r} which denotes {r2}",
                              {"kind": "timeout-roundtrip", "string": lit})
    ctx.count("timeout.model-sample", len(model_sample))


# ------------------------------------------------------------------------------------------------ TOML dicts


def vtok(v) -> str:
    if isinstance(v, bool):
        return "B:1" if v else "B:0"
    if isinstance(v, int):
        return f"I:{v}"
    if isinstance(v, str):
        return "S:" + enc_u(v)[2:]
    if isinstance(v, float):
        return "F:" + enc_u(str(v))[2:]
    if isinstance(v, list) and all(isinstance(x, int) and not isinstance(x, bool) for x in v):
        return "L:" + show_ints(v)
    if isinstance(v, dict) and not v:
        return "D:{}"
    return "O"


def val_matches(real, token) -> bool:
    if token.startswith("T:"):
        return isinstance(real, float) and time_close(real, model_time(token))
    if token.startswith("F:"):
        return isinstance(real, float) and token == "F:" + enc_u(str(real))[2:]
    if token == "O":
        return not isinstance(real, (str, int, float, bool))
    if token.startswith("D:") and isinstance(real, dict):
        return canon_val(real) == token
    if token.startswith("E:") and isinstance(real, list):
        return "E:[" + ",".join(getattr(x, "value", "?") for x in real) + "]" == token
    if token.startswith("L:") and isinstance(real, list):
        return "L:" + show_ints(real) == token
    return canon_val(real) == canon_model_val(token)


TOML_ACTIONS = {"panic_error_codes": "codes", "array_lengths": "lengths", "default_array_lengths": "csvint", "default_bytes_lengths": "csvint",
                "trace_events": "events", "solver_timeout_branching": "timeout", "solver_timeout_assertion": "timeout"}


def excluded_falsy_lengths(doc) -> bool:
    """Documented exclusion (known finding TomlParser.parse_dict:falsy-native:lengths:accepts-malformed, seen through its directed
    corpus case only): generated documents never give array-lengths (either spelling) a falsy native value (0, 0.0, false, [], {})."""
    g = doc.get("global") if isinstance(doc, dict) else None
    if not isinstance(g, dict):
        return False
    return any(k.replace("-", "_") == "array_lengths" and not isinstance(v, str) and not v for k, v in g.items())


def toml_req(doc: dict) -> str:
    parts = ["toml"]
    for sec, data in doc.items():
        parts += ["sec", enc_u(sec)]
        if isinstance(data, dict):
            parts.append("table")
            parts += [f"{enc_u(k)}={vtok(v)}" for k, v in data.items()]
        else:
            parts.append("value")
    return " ".join(parts)


def gen_toml(rng, pool):
    names = field_names()
    action_fields = {"panic_error_codes": "codes", "array_lengths": "lengths", "default_array_lengths": "csvint",
                     "default_bytes_lengths": "csvint", "trace_events": "events", "solver_timeout_branching": "timeout",
                     "solver_timeout_assertion": "timeout"}
    def table():
        d = {}
        for _ in range(rng.randint(0, 6)):
            r = rng.random()
            if r < 0.45:
                k = rng.choice(list(action_fields))
                kind = action_fields[k]
                rr = rng.random()
                if rr < 0.6:
                    v = gen_valid(rng, kind, pool)
                elif rr < 0.75:
                    v = rng.choice(FIXED_STRINGS[kind])
                elif rr < 0.93:
                    v = rng.choice([0, 1, 5, True, False, 1.5, 0.25, [1, 2], 100, 1000, 250, -3, [], {}, ["LOG"], rng.choice(pool)])
                else:
                    v = mutate(rng, gen_valid(rng, kind, pool))
                if kind == "timeout" and isinstance(v, str) and re.search(r"[eE][-+_]*[\d_]{3,}", v):
                    v = "1s"
            elif r < 0.85:
                k = rng.choice(names)
                v = rng.choice([rng.choice(pool), "x", True, 1.5, "", [1], False])
            else:
                k = rng.choice(["unknown", "loops", "solver-timeout", "global", "x-y-z"])
                v = rng.choice([1, "a"])
            if rng.random() < 0.6:
                k = k.replace("_", "-") if rng.random() < 0.8 else k.replace("_", "-", 1)
            d[k] = v
        return d
    r = rng.random()
    if r < 0.72:
        return {"global": table()}
    if r < 0.78:
        return {}
    if r < 0.86:
        return {rng.choice(["Global", "globals", "profile", "global ", ""]): table()}
    if r < 0.93:
        return {"global": table(), rng.choice(["extra", "profile"]): table()}
    if r < 0.97:
        return {"global": rng.choice([5, "x", True, [1]])}
    return {"a": 1, "b": 2}


def toml_form(v) -> str:
    for t, n in ((bool, "bool"), (int, "int"), (float, "float"), (str, "str"), (list, "array"), (dict, "table")):
        if isinstance(v, t):
            return n
    return "other"


def oracle_toml_value(kind, v):
    """What a config-file value of a structured option means (documented syntax; a bare number for a timeout is a number of
    milliseconds exactly as on the command line; every other structured option is a string in its grammar)."""
    if isinstance(v, str):
        return PARSERS[kind][1](v)
    if kind == "timeout":
        if isinstance(v, bool) or not isinstance(v, (int, float)):
            return ("err", "value")
        return oracle_timeout(str(v))
    # every other native value is malformed — including the falsy ones (0, false, [], {}) for array-lengths, which the code reads
    # as "no lengths" (`if not values: return {}`): known finding TomlParser.parse_dict:falsy-native:lengths:accepts-malformed
    return ("err", "reject")


def value_same(kind, real, want) -> bool:
    if kind == "timeout":
        return isinstance(real, float) and time_close(real, want)
    if kind == "events":
        return isinstance(real, list) and [getattr(x, "value", None) for x in real] == want and all(not isinstance(x, str) for x in real)
    if kind == "plain":
        if isinstance(want, float) and math.isnan(want):
            return isinstance(real, float) and math.isnan(real)
        return toml_form(real) == toml_form(want) and (type(real) is type(want) or isinstance(want, (list, dict))) and real == want
    return type(real) is type(want) and values_equal(kind, real, want)


def toml_expected(doc):
    """('exit2',) | ('reject', key, form, kind) | ('ok', {key: (kind, value)})"""
    if list(doc.keys()) != ["global"]:
        return ("exit2",)
    data = doc["global"]
    if not isinstance(data, dict):
        return ("reject", "global", toml_form(data), "section")
    out = {}
    for k, v in data.items():
        key = k.replace("-", "_")
        kind = TOML_ACTIONS.get(key)
        if kind is None:
            out[key] = ("plain", v)
            continue
        o = oracle_toml_value(kind, v)
        if o[0] == "err":
            return ("reject", k, toml_form(v), kind)
        out[key] = (kind, o[1]) if len(o) == 2 else (kind, o[1], o[2])
    return ("ok", out)


def check_toml_docs(ctx, docs, origin="gen", texts=None):
    """real TomlParser (parse_dict, or parse_str when the toml text is given) vs the documented meaning (violation) vs the Model
    (stale model, raised only after every document has been compared with the oracle); then the file layer is applied on top of
    the defaults and the option is resolved."""
    hc = H()["hc"]
    names = set(field_names())
    reps = ctx.lean("Config").ask([toml_req(d) for d in docs])
    stale = []
    for i, (doc, mrep) in enumerate(zip(docs, reps)):
        text = texts[i] if texts else None
        if text is not None:
            real = real_call(hc.toml_parser().parse_str, text)
        else:
            real = real_call(hc.toml_parser().parse_dict, dict(doc))
        ctx.count("toml." + (real[0] if real[0] == "ok" else real[1]))
        replay = {"kind": "toml", "doc": doc, "origin": origin} if text is None else {"kind": "toml-text", "text": text, "origin": origin}
        exp = toml_expected(doc)
        desc = text if text is not None else doc
        if exp[0] == "exit2":
            if real != ("err", "exit2"):
                ctx.violation("TomlParser.parse_dict:accepts-non-global", f"parse({desc!r}) -> {real}", replay)
                continue
        elif exp[0] == "reject":
            _, k, form, kind = exp
            ctx.count(f"toml.form.{kind}.{form}.rejected")
            if real[0] == "ok":
                raw = doc["global"][k]
                if origin == "replay" and kind == "lengths" and not isinstance(raw, str) and not raw \
                        and real[1].get(k.replace("-", "_")) == {} and isinstance(real[1].get(k.replace("-", "_")), dict):
                    # silently defaulted to "no lengths" (ParseArrayLengths.parse: `if not values: return {}`)
                    ctx.count(f"toml.falsy-native-lengths.{form}")
                    ctx.violation("TomlParser.parse_dict:falsy-native:lengths:accepts-malformed",
                                  f"config file entry `{k} = {raw!r}` (falsy toml {form}) is not an array-lengths value but is accepted and read as {{}} "
                                  "(ParseArrayLengths.parse: `if not values: return {}`)",
                                  {"kind": "toml", "doc": {"global": {"array-lengths": 0}}, "forms": ["0", "false", "[]", "{}", "0.0"], "origin": origin})
                    continue
                ctx.violation(f"TomlParser.parse_dict:{form}:{kind}:accepts-malformed",
                              f"config file entry `{k} = {doc['global'][k]!r}` ({form}) is not a value of this option but was accepted: {real[1]}", replay)
                continue
            if real[1] == "exit2":
                ctx.violation(f"TomlParser.parse_dict:{form}:{kind}:exit-instead-of-error", f"parse({desc!r}) -> {real}", replay)
                continue
        else:
            want = exp[1]
            if real[0] != "ok":
                ctx.violation("TomlParser.parse_dict:rejects-valid:" + real[1], f"parse({desc!r}) -> {real}, expected {want}", replay)
                continue
            got = real[1]
            bad = None
            if list(got.keys()) != list(want.keys()):
                bad = ("keys", list(got.keys()), list(want.keys()))
            else:
                for key, w in want.items():
                    kind, wv = w[0], w[1]
                    srcs = [k for k in doc["global"] if k.replace("-", "_") == key]
                    form = toml_form(doc["global"][srcs[-1]])
                    ctx.count(f"toml.form.{kind}.{form}.accepted")
                    if len(w) == 3:
                        ctx.count("toml.tolerated." + w[2])
                    if not value_same(kind, got[key], wv):
                        bad = (key, form, kind, got[key], wv)
                        break
            if bad:
                if bad[0] == "keys":
                    ctx.violation("TomlParser.parse_dict:wrong-keys", f"parse({desc!r}) -> keys {bad[1]}, expected {bad[2]}", replay)
                else:
                    key, form, kind, gv, wv = bad
                    ctx.violation(f"TomlParser.parse_dict:{form}:{kind}:wrong-value",
                                  f"config file entry `{key}` given as a toml {form} resolved to {gv!r} ({type(gv).__name__}), "
                                  f"documented meaning {wv!r}; document {desc!r}", replay)
                continue
            # the file layer on top of the defaults: unknown keys are rejected, known ones become effective with source config_file
            r = real_call(hc.default_config().with_overrides, hc.ConfigSource.config_file, **got)
            unknown = [k for k in got if k not in names]
            ctx.count("toml.follow." + ("unknown-key" if unknown else "applied"))
            if unknown:
                if r != ("err", "exit2"):
                    ctx.violation("load_config:unknown-key-accepted", f"config file keys {unknown} accepted", replay)
                    continue
            elif r[0] != "ok":
                ctx.violation("load_config:known-key-rejected", f"config file {desc!r} rejected: {r}", replay)
                continue
            else:
                for key, w in want.items():
                    gv, gs = r[1].value_with_source(key)
                    if w[1] is None:
                        continue
                    if gs.name != "config_file" or not value_same(w[0], gv, w[1]):
                        ctx.violation(f"load_config:file-value-not-effective:{w[0]}",
                                      f"{key}: resolved to {gv!r} from {gs.name}, the config file says {w[1]!r}; document {desc!r}", replay)
        # ---- Model
        if real[0] == "err":
            if mrep != "err " + real[1]:
                stale.append(f"toml {desc!r}: real {real}, model {mrep}")
        else:
            ok = mrep.startswith("ok")
            if ok:
                mk = [it.split("=", 1) for it in mrep[3:].split(" ") if it]
                rk = list(real[1].items())
                ok = [k for k, _ in mk] == [k for k, _ in rk] and all(val_matches(rv, mt) for (_, rv), (_, mt) in zip(rk, mk))
            if not ok:
                stale.append(f"toml {desc!r}: real {real}, model {mrep}")
        ctx.case(("toml", text if text is not None else json.dumps(doc, default=str)))
    if stale:
        raise RuntimeError(f"stale model ({len(stale)} documents), first: {stale[0]}")


NATIVE_FORMS = ["1000", "0", "1", "3", "-5", "250", "0.5", "1.5", "1e3", "inf", "nan", "true", "false", "[]", "[1, 2]", '["LOG"]', "{}", "{x = 1}",
                "1979-05-27", '"1000"', '"3"', '"0.5"', '""', "'x={1,2}'", '"*"', '"LOG"', '"0x01"', '"1,2"', '"1s"', '"x"']


def check_toml_native(ctx, pool):
    """every Config option x every native toml value form (bare and quoted), through the real toml reader (`parse_str`)"""
    import toml

    texts, docs = [], []
    forms = list(NATIVE_FORMS) + [str(p) for p in pool if abs(p) < 10 ** 9][: ctx.scale(12, 61)]
    for i, name in enumerate(field_names()):
        for j, form in enumerate(forms):
            key = name.replace("_", "-") if (i + j) % 3 else name
            text = f"[global]\n{key} = {form}\n"
            d = toml.loads(text)
            if excluded_falsy_lengths(d):
                ctx.count("toml.excluded.falsy-native-lengths")
                continue
            texts.append(text)
            docs.append(d)
    # a structured option next to others, and the same option under both spellings
    for form in ("1000", "2.5", '"7s"'):
        text = f"[global]\nloop = 3\nsolver-timeout-assertion = {form}\nsolver_timeout_branching = {form}\nsolver-timeout_assertion = 9\n"
        texts.append(text)
        docs.append(toml.loads(text))
    check_toml_docs(ctx, docs, "native-forms", texts)
    ctx.extra["toml_native_forms"] = {"options": len(field_names()), "forms_per_option": len(forms)}


def check_toml(ctx, pool):
    docs = [
        {"global": {}}, {}, {"global": {"loop": 3}}, {"weird": {"a": 1}}, {"global": {"a": 1}, "extra": {"b": 2}}, {"a": 1, "b": 2},
        {"global": {"solver-timeout-assertion": "1.5s", "panic-error-codes": "*", "array-lengths": "x={1,2}"}},
        {"global": {"solver-timeout-assertion": 1500}}, {"global": {"solver-timeout-assertion": 1.5}}, {"global": {"solver-timeout-assertion": True}},
        {"global": {"panic-error-codes": 1}}, {"global": {"array-lengths": 5}}, {"global": {"array-lengths": ""}},
        {"global": {"default-array-lengths": ""}}, {"global": {"trace-events": "log"}}, {"global": {"unknown-key": 1}},
        {"global": {"solver-threads": 1, "solver_threads": 2}}, {"global": 5}, {"global": {"loop": "abc"}},
    ]
    for _ in range(ctx.scale(600, 12000)):
        d = gen_toml(ctx.rng, pool)
        while excluded_falsy_lengths(d):
            ctx.count("toml.excluded.falsy-native-lengths")
            d = gen_toml(ctx.rng, pool)
        docs.append(d)
    check_toml_docs(ctx, docs)


# ------------------------------------------------------------------------------------------------ natspec / devdoc annotations


def oracle_natspec(text: str) -> str:
    """the options that follow `@custom:halmos` tags, up to the next tag (documented in build.py's comment); index scanning"""
    out, i, n, on = [], 0, len(text), False
    while i < n:
        if text[i] == "@" and i + 1 < n and not text[i + 1].isspace():
            j = i + 1
            while j < n and not text[j].isspace():
                j += 1
            on = text[i:j] == "@custom:halmos"
            i = j
            continue
        if on:
            out.append(text[i])
        i += 1
    return "".join(out).strip()


NAT_PIECES = ["@custom:halmos", "@custom:halmos", "@custom:halmos,", "@custom:halmosX", "@notice", "@dev", "@", "@@custom:halmos", "x@custom:halmos",
              "--loop 3", "--width 5", "--ffi", "blah", " ", " ", "\n", "\t", "　", "///", "a@b", "@ x", "--depth", "7", "@param x", "@custom:halmos\n",
              "\x1c", "@\n", "@custom:halmos@dev"]


def check_natspec(ctx):
    hb = H()["hb"]
    texts = ["", "@custom:halmos --x", "@custom:halmos --x\n   --y", "@custom:halmos --x\n@custom:halmos --y", "blah blah @custom:halmos --x\n --y",
             "@custom:halmos --x @dev no --y", "@dev a @custom:halmos --x", "@custom:halmos", "@custom:halmos ", " @custom:halmos --x @", "@ custom:halmos --x",
             "@custom:halmos --a @ --b", "@custom:halmos --a @@ --b", "@custom:halmos\t--loop\t3"]
    for _ in range(ctx.scale(800, 15000)):
        k = ctx.rng.randint(0, 8)
        sep = ctx.rng.choice(["", " ", " ", "\n"])
        texts.append(sep.join(ctx.rng.choice(NAT_PIECES) for _ in range(k)))
    texts = list(dict.fromkeys(texts))
    reps = ctx.lean("Config").ask([f"parse natspec {enc_u(t)}" for t in texts])
    for t, mr in zip(texts, reps):
        real = real_call(hb.parse_natspec, {"text": t})
        want = oracle_natspec(t)
        ctx.count("natspec." + ("empty" if not want else "options"))
        if real != ("ok", want):
            ctx.violation("parse_natspec:" + ("drops-options" if real[0] == "ok" and len(real[1]) < len(want) else "wrong-text"),
                          f"parse_natspec({t!r}) -> {real}, documented: {want!r}", {"kind": "natspec", "text": t})
        elif dec_u(mr[3:]) != want:
            raise RuntimeError(f"stale model: parse_natspec({t!r}) = {want!r}, model {dec_u(mr[3:])!r}")
        ctx.case(("natspec", t))
    r = real_call(hb.parse_natspec, {})
    if r != ("ok", ""):
        ctx.violation("parse_natspec:no-text", f"parse_natspec({{}}) -> {r}", {"kind": "natspec", "text": None})


ANN_OK = ["--loop 3", "--loop=4", "--width 5", "--depth 6", "--solver z3", "--solver-command mysolver", "--ffi", "--early-exit", "--verbose", "--verbose --verbose",
          "--solver-timeout-assertion 10s", "--solver-timeout-assertion=1500", "--solver-timeout-branching 0", "--array-lengths x={1,2}", "--array-lengths=x=3,y={4}",
          "--default-array-lengths 1,2", "--panic-error-codes 0x11,0x12", "--panic-error-codes *", "--trace-events LOG,SLOAD", "--storage-layout generic",
          "--invariant-depth 3", "--loop 1 --loop 9", "--smt-exp-by-const 7", "--solver-max-memory 64", "--cache-solver", "--loop -1", "--function test_",
          "--match-contract Foo", "--dump-smt-directory /tmp/x", "--loop 0x1"[:-4] + " 12"]
ANN_BAD = ["--loop x", "--no-such 1", "--loop", "--storage-layout foo", "--panic-error-codes zz", "extra", "--loop 3 extra", "--ffi=1", "--default-array-lengths ,",
           "--array-lengths x=", "--trace-events NOPE", "--solver-timeout-assertion abc", "--loop 1.5", "--loop --width 3", "--verbose=2"]


def layer_chain(cfg, stop=None):
    """[(source name, {field: value} non-None)] newest first, down to (excluding) `stop`"""
    out = []
    names = field_names()
    cur = cfg
    while cur is not None and cur is not stop:
        vals = {}
        for n in names:
            v = object.__getattribute__(cur, n)
            if v is not None:
                vals[n] = v
        out.append((object.__getattribute__(cur, "_source").name, vals))
        cur = object.__getattribute__(cur, "_parent")
    return out


def root_of(cfg):
    while object.__getattribute__(cfg, "_parent") is not None:
        cfg = object.__getattribute__(cfg, "_parent")
    return cfg


def parse_model_config(s):
    """'src[label]{k=v&k=v}|…' -> [(src, label, [(k, tok)])]"""
    out = []
    for part in s.split("|"):
        m = re.fullmatch(r"([a-z_]+)\[(.*?)\]\{(.*)\}", part)
        assert m, part
        kvs = [tuple(kv.split("=", 1)) for kv in m.group(3).split("&") if kv]
        out.append((m.group(1), m.group(2), kvs))
    return out


def chain_matches(real_chain, model_layers):
    if len(real_chain) != len(model_layers):
        return False
    for (rs, rv), (ms, _, mkv) in zip(real_chain, model_layers):
        if rs != ms or sorted(rv.keys()) != sorted(k for k, _ in mkv):
            return False
        if not all(val_matches(rv[k], t) for k, t in mkv):
            return False
    return True


def gen_annotation(rng, allow_bad=True):
    r = rng.random()
    if r < 0.25:
        return None
    if r < 0.32:
        return ""
    k = rng.randint(1, 3)
    parts = [rng.choice(ANN_OK) for _ in range(k)]
    if allow_bad and rng.random() < 0.15:
        parts.insert(rng.randrange(0, len(parts) + 1), rng.choice(ANN_BAD))
    return rng.choice([" ", "  ", "\n", "\t"]).join(parts)


def mk_contract_json(name, funs):
    methods = {}
    for sig, dd in funs:
        if dd is not None:
            methods[sig] = {"custom:halmos": dd}
        elif hash(sig) % 3 == 0:
            methods[sig] = {"details": "no halmos tag"}
    return {
        "abi": [], "methodIdentifiers": {sig: format(i + 1, "08x") for i, (sig, _) in enumerate(funs)},
        "bytecode": {"object": "0x00", "linkReferences": {}}, "deployedBytecode": {"object": "0x00"},
        "ast": {"absolutePath": f"test/{name}.sol", "nodes": []},
        "metadata": {"output": {"devdoc": {"methods": methods}}} if (methods or hash(name) % 2) else {"output": {}},
    }


def check_annotations(ctx, pool):
    n_art = ctx.scale(150, 2500)
    arts = []
    for art_i in range(n_art):
        rng = ctx.rng
        allow_bad = art_i % 3 == 0
        # base config: default root + maybe file + command line
        base_layers = [("default", {"loop": 2, "width": 0, "depth": 0, "solver": "yices", "solver_command": "", "ffi": False})]
        if rng.random() < 0.6:
            base_layers.append(("config_file", {"loop": rng.choice(pool), "depth": 11}))
        base_layers.append(("command_line", {k: v for k, v in (("loop", rng.choice([None, 77])), ("width", rng.choice([None, 5])), ("verbose", None))}))
        contracts = []
        for ki in range(rng.randint(1, 3)):
            name = f"K{ki}"
            ann = gen_annotation(rng, allow_bad)
            natspec_text = None
            natspec = None
            r = rng.random()
            if ann is not None:
                natspec_text = rng.choice(["", "some contract\n", "@notice x\n"]) + "@custom:halmos " + ann + rng.choice(["", "\n@dev trailing", " "])
                if r < 0.1:
                    natspec_text = "@dev only " + ann       # no halmos tag: must not apply
                natspec = {"text": natspec_text}
            elif r < 0.3:
                natspec = {}
            elif r < 0.5:
                natspec, natspec_text = {"text": "@notice nothing here"}, "@notice nothing here"
            funs = [(f"check_f{fi}(uint256)", gen_annotation(rng, allow_bad)) for fi in range(rng.randint(1, 4))]
            contracts.append((name, natspec, natspec_text, funs))
        arts.append((base_layers, contracts))
    check_artifacts(ctx, arts)


def check_artifacts(ctx, arts):
    hc, hm = H()["hc"], HM()
    from halmos.solve import ContractContext

    lines, where = [], []
    for base_layers, contracts in arts:
        req = ["derive"]
        for name, natspec, text, funs in contracts:
            req += ["K", enc_u(name), "N" if not natspec else enc_u(natspec.get("text", ""))]
            for sig, dd in funs:
                req += ["F", enc_u(sig), "N" if dd is None else enc_u(dd)]
        lines += stack_lines(base_layers) + [" ".join(req)]
        where.append(len(lines) - 1)
    all_reps = ctx.lean("Config").ask(lines)
    for (base_layers, contracts), at in zip(arts, where):
        # the real root is default_config() itself (FunctionContext needs real defaults); the root layer is not compared
        base = hc.default_config()
        for s_, kw_ in base_layers[1:]:
            base = base.with_overrides(src_obj(s_), **kw_)
        model = {}
        for item in all_reps[at][3:].split(" "):
            key, cfgs = item.split("=", 1)
            k, f = key.split("/")
            model[(dec_u(k), dec_u(f))] = cfgs
        base_chain = layer_chain(base)
        # ---- real: direct calls (path A), then the real run_tests loop (path B) when nothing can exit
        observed = {}
        all_clean = True
        for name, natspec, text, funs in contracts:
            cj = mk_contract_json(name, funs)
            ca = real_call(hm.with_natspec, base, name, natspec)
            for sig, dd in funs:
                if ca[0] == "err":
                    observed[(name, sig)] = ca
                    all_clean = False
                    continue
                fa = real_call(hm.with_devdoc, ca[1], sig, cj)
                observed[(name, sig)] = fa if fa[0] == "err" else ("ok", fa[1], ca[1])
                all_clean &= fa[0] == "ok"
            if ca[0] == "ok" and all(observed[(name, s)][0] == "ok" for s, _ in funs):
                # path B: the loop of run_tests with run_test replaced by a recorder
                seen = []
                saved = hm.run_test
                hm.run_test = lambda fctx: (seen.append((fctx.info.sig, fctx.args)), hm.TestResult(fctx.info.sig, 0))[1]
                try:
                    cctx = ContractContext(args=ca[1], name=name, funsigs=[s for s, _ in funs], creation_hexcode="", deployed_hexcode="", abi={},
                                           method_identifiers=cj["methodIdentifiers"], contract_json=cj, libs={}, build_out_map={})
                    with quiet():
                        hm.run_tests(cctx, None, [s for s, _ in funs])
                finally:
                    hm.run_test = saved
                ctx.count("annotations.run_tests-loop")
                if [s for s, _ in seen] != [s for s, _ in funs]:
                    ctx.violation("annotation_scope:run_tests-skips-function", f"run_tests ran {[s for s, _ in seen]} of {[s for s, _ in funs]}", {"kind": "annot", "contracts": contracts, "base": base_layers})
                for sig, cfg in seen:
                    observed[(name, sig)] = ("ok", cfg, ca[1])
        # ---- compare
        for name, natspec, text, funs in contracts:
            for sig, dd in funs:
                obs = observed[(name, sig)]
                m = model[(name, sig)]
                replay = {"kind": "annot", "contracts": contracts, "base": base_layers, "at": [name, sig]}
                nat_opts = oracle_natspec(text) if text else ""
                exp_sources = (["function_annotation"] if dd else []) + (["contract_annotation"] if nat_opts else []) + [s for s, _ in reversed(base_layers)]
                if obs[0] == "err":
                    ctx.count("annotations.rejected." + obs[1])
                    if m != "err:" + obs[1]:
                        clean = not any(b in (dd or "") or b in (text or "") for b in ANN_BAD)
                        if clean:
                            ctx.violation("annotation:valid-options-rejected", f"{name}.{sig}: {obs} for natspec {text!r} devdoc {dd!r}", replay)
                        else:
                            raise RuntimeError(f"stale model: annotations {name}.{sig}: real {obs}, model {m}; natspec {text!r} devdoc {dd!r}")
                    ctx.case(("annot-err", text, dd))
                    continue
                chain = layer_chain(obs[1])
                got_sources = [s for s, _ in chain]
                # spec: own function annotation, own contract annotation, base — nothing else, in this order
                if got_sources != exp_sources or chain[len(chain) - len(base_chain):] != base_chain or root_of(obs[1]) is not hc.default_config():
                    ctx.violation("annotation_scope:wrong-layers", f"{name}.{sig}: layers {got_sources}, expected {exp_sources}; natspec {text!r} devdoc {dd!r}", replay)
                    continue
                if m.startswith("err:"):
                    bad = any(b in (dd or "") or b in (text or "") for b in ANN_BAD)
                    if bad:
                        ctx.violation("annotation:malformed-options-accepted", f"{name}.{sig}: accepted natspec {text!r} devdoc {dd!r}", replay)
                        continue
                    raise RuntimeError(f"stale model: annotations {name}.{sig}: real ok {chain[:2]}, model {m}")
                ml = parse_model_config(m)
                labels = [lab for _, lab, _ in ml if lab]
                exp_labels = ([f"function:{name}.{sig}"] if dd else []) + ([f"contract:{name}"] if nat_opts else [])
                if labels != exp_labels:
                    raise RuntimeError(f"model scoping labels {labels} != {exp_labels}")
                if not chain_matches(chain[:-1], ml[:-1]):
                    # is the real one wrong w.r.t. the documented meaning? values of own annotations must be effective
                    raise RuntimeError(f"stale model: annotations {name}.{sig}: real {chain[:2]}, model {ml[:2]}")
                # effective value check against other functions' annotations: `--loop` of g must not leak into f
                ctx.count("annotations.ok." + "+".join(s[:3] for s in got_sources[:len(got_sources) - len(base_layers)]) or "annotations.ok.none")
                ctx.case(("annot", text, dd, tuple(s for s, _ in base_layers)))


# ------------------------------------------------------------------------------------------------ load_config and the loop of _main


def toml_text(d: dict) -> str:
    def tv(v):
        if isinstance(v, bool):
            return "true" if v else "false"
        if isinstance(v, (int, float)):
            return str(v)
        return json.dumps(v)
    return "[global]\n" + "".join(f"{k} = {tv(v)}\n" for k, v in d.items())


CLI_OK = ["--loop 3", "--width 4", "--solver z3", "--solver-command cmdline-solver", "--solver-timeout-assertion 2s", "--ffi", "--depth=8", "--panic-error-codes 0x21",
          "--default-bytes-lengths 1,2", "--no-status", "--verbose"]
FILE_OK = [("loop", 5), ("depth", 6), ("solver", "cvc5"), ("solver-command", "file-solver"), ("solver-timeout-assertion", "3m"), ("array-lengths", "x={1,2}"),
           ("trace-events", "LOG"), ("early-exit", True), ("solver_timeout_branching", 7), ("panic-error-codes", "*")]


def check_load_config(ctx):
    hc, hm = H()["hc"], HM()
    cases = []
    for _ in range(ctx.scale(40, 600)):
        rng = ctx.rng
        file = dict(rng.sample(FILE_OK, rng.randint(0, 4))) if rng.random() < 0.75 else None
        cli = rng.sample(CLI_OK, rng.randint(0, 4))
        cases.append((file, cli))
    with tempfile.TemporaryDirectory(prefix="c18cfg") as tmp:
        reqs = []
        for file, cli in cases:
            reqs.append(toml_req({"global": file}) if file is not None else "reset")
            reqs.append("parse args " + enc_u(" ".join(["--root", tmp] + cli)))
        reps = ctx.lean("Config").ask(reqs)
        for i, (file, cli) in enumerate(cases):
            tp = Path(tmp) / "halmos.toml"
            if file is not None:
                tp.write_text(toml_text(file))
            elif tp.exists():
                tp.unlink()
            r = real_call(hm.load_config, ["--root", tmp] + shlex.split(" ".join(cli)))
            replay = {"kind": "load_config", "file": file, "cli": cli}
            if r[0] != "ok":
                ctx.violation("load_config:rejects-valid", f"load_config(file={file}, cli={cli}) -> {r}", replay)
                continue
            chain = layer_chain(r[1])
            exp = ["command_line"] + (["config_file"] if file is not None else []) + ["default"]
            if [s for s, _ in chain] != exp or root_of(r[1]) is not hc.default_config():
                ctx.violation("load_config:wrong-layers", f"layers {[s for s, _ in chain]} expected {exp} (file={file}, cli={cli})", replay)
                continue
            mfile, mcli = reps[2 * i], reps[2 * i + 1]
            mcli_kv = [tuple(kv.split("=", 1)) for kv in mcli[3:].split("&") if kv]
            if not chain_matches([chain[0]], [("command_line", "", mcli_kv)]):
                raise RuntimeError(f"stale model: CLI layer {chain[0]} vs {mcli_kv}")
            if file is not None:
                mf_kv = [tuple(it.split("=", 1)) for it in mfile[3:].split(" ") if it]
                if not chain_matches([chain[1]], [("config_file", "", mf_kv)]):
                    raise RuntimeError(f"stale model: file layer {chain[1]} vs {mf_kv}")
            ctx.count("load_config." + "+".join(exp))
            ctx.case(("load_config", json.dumps(file), tuple(cli)))


def check_main_loop(ctx):
    """the real `_main` loop (with_natspec per contract from the global args) and the real `run_tests` loop (with_devdoc per function
    from the contract args), observed by replacing forge/build parsing/run_test"""
    hc, hm = H()["hc"], HM()
    n = ctx.scale(12, 150)
    for it in range(n):
        rng = ctx.rng
        contracts = []
        for ki in range(rng.randint(1, 4)):
            name = f"C{ki}"
            ann = gen_annotation(rng, allow_bad=False)
            natspec = {"text": "@custom:halmos " + ann} if ann is not None else rng.choice([None, {}])
            funs = [(f"check_g{fi}()", gen_annotation(rng, allow_bad=False)) for fi in range(rng.randint(1, 3))]
            contracts.append((name, natspec, funs))
        build_out = {"0.8.0": {f"{name}.sol": {name: (mk_contract_json(name, funs), "contract", natspec)} for name, natspec, funs in contracts}}
        seen = []
        saved = (hm.subprocess, hm.parse_build_out, hm.run_contract, hm.run_test)

        class _SP:
            @staticmethod
            def run(cmd, *a, **k):
                return type("R", (), {"returncode": 0})()

        def fake_run_contract(cctx):
            return hm.run_tests(cctx, None, cctx.funsigs)

        hm.subprocess = _SP
        hm.parse_build_out = lambda args: build_out
        hm.run_contract = fake_run_contract
        hm.run_test = lambda fctx: (seen.append((fctx.contract_ctx.name, fctx.info.sig, fctx.args, fctx.contract_ctx.args)), hm.TestResult(fctx.info.sig, 0))[1]
        cli = rng.sample(["--loop 3", "--width 4", "--depth 8"], rng.randint(0, 2))
        try:
            with tempfile.TemporaryDirectory(prefix="c18main") as tmp:
                r = real_call(hm._main, ["--root", tmp, "--no-status"] + shlex.split(" ".join(cli)))
        finally:
            hm.subprocess, hm.parse_build_out, hm.run_contract, hm.run_test = saved
        replay = {"kind": "main", "contracts": contracts, "cli": cli}
        if r[0] != "ok":
            raise RuntimeError(f"could not drive _main offline: {r}")
        want = [(name, sig) for name, _, funs in sorted(contracts) for sig, _ in funs]
        if [(k, f) for k, f, _, _ in seen] != want:
            ctx.violation("annotation_scope:functions-run", f"_main ran {[(k, f) for k, f, _, _ in seen]}, expected {want}", replay)
            continue
        by = {name: (natspec, dict(funs)) for name, natspec, funs in contracts}
        for k, f, cfg, ccfg in seen:
            natspec, dd = by[k][0], by[k][1][f]
            nat_opts = oracle_natspec(natspec.get("text", "")) if natspec else ""
            chain = layer_chain(cfg)
            exp = (["function_annotation"] if dd else []) + (["contract_annotation"] if nat_opts else []) + ["command_line", "default"]
            ok = [s for s, _ in chain] == exp
            if ok and dd:
                want_ov = real_call(lambda: vars(hc.arg_parser().parse_args(shlex.split(dd))))
                ok = want_ov[0] == "ok" and chain[0][1] == {k_: v_ for k_, v_ in want_ov[1].items() if v_ is not None}
            if ok and nat_opts:
                want_ov = real_call(lambda: vars(hc.arg_parser().parse_args(shlex.split(nat_opts))))
                ok = want_ov[0] == "ok" and chain[1 if dd else 0][1] == {k_: v_ for k_, v_ in want_ov[1].items() if v_ is not None}
            if not ok:
                ctx.violation("annotation_scope:main-loop-wrong-layers", f"{k}.{f}: layers {chain[:3]}, expected sources {exp}; natspec {natspec} devdoc {dd!r}", replay)
            ctx.count("main-loop." + "+".join(s[:3] for s in exp[:-2]) if exp[:-2] else "main-loop.none")
            ctx.case(("main", k, f, json.dumps(natspec), dd))


def check_char_classes(ctx):
    rep = ctx.lean("Config").ask(["classes"])[0]
    m = re.fullmatch(r"ok spaces=([\d,]*) digits=([\d,:]*)", rep)
    assert m, rep[:200]
    spaces = {int(x) for x in m.group(1).split(",") if x}
    digits = {int(a): int(b) for a, b in (x.split(":") for x in m.group(2).split(",") if x)}
    for cp in range(sys.maxunicode + 1):
        if 0xD800 <= cp <= 0xDFFF:
            continue
        ch = chr(cp)
        if ch.isspace() != (cp in spaces):
            raise RuntimeError(f"model isSpace differs from str.isspace at U+{cp:04X}")
        dv = int(ch) if ch.isdecimal() else None
        if dv != digits.get(cp):
            raise RuntimeError(f"model digitVal differs from CPython at U+{cp:04X}: {dv} vs {digits.get(cp)}")
    ctx.case("char-classes", nontrivial=True)
    ctx.count("charclasses.codepoints", sys.maxunicode + 1 - 2048)


def check_solver_sequences(ctx):
    """`resolved_solver_command` is a function of the stack, not of history: sequences of config stacks are resolved in ONE process
    through the real `halmos.solvers.get_solver_command` (fake executables for every registry binary on PATH, in a scratch
    directory created and removed here); each resolved command must be what the rule gives for that stack alone: the effective
    `--solver` (Spec.effective) -> that registry entry's binary + arguments, unless a non-empty `--solver-command` wins."""
    import itertools
    import shutil
    import stat

    hc = H()["hc"]
    import halmos.solvers as hsol

    registry = {name: (info.binary_name, list(info.arguments)) for name, info in hsol.SOLVERS.items()}
    names = list(registry)
    by_bin = {}
    for n, (b, _) in registry.items():
        by_bin.setdefault(b, []).append(n)
    sharing = [n for n in names if len({tuple(registry[m][1]) for m in by_bin[registry[n][0]]}) > 1]
    ctx.note(f"solver registry: {len(names)} entries, {len(by_bin)} binaries; entries sharing a binary with different arguments: {sharing}")
    # sequences: all ordered pairs, then triples over the entries that share a binary (+ one other), then random longer ones
    seqs = [list(p) for p in itertools.product(names, repeat=2)]
    core = sharing + [n for n in names if n not in sharing][:1]
    seqs += [list(t) for t in itertools.permutations(core, 3)][: ctx.scale(60, 400)]
    for _ in range(ctx.scale(20, 200)):
        seqs.append([ctx.rng.choice(names) for _ in range(ctx.rng.randint(3, 6))])
    ctx.rng.shuffle(seqs)
    # one stack per sequence element
    items = []
    for si, seq in enumerate(seqs):
        for name in seq:
            other = ctx.rng.choice(names)
            r = ctx.rng.random()
            layers = [("default", {"solver": "yices", "solver_command": ""})]
            if r < 0.3:
                layers += [("function_annotation", {"solver": name})]
            elif r < 0.55:
                layers += [("config_file", {"solver": other}), ("function_annotation", {"solver": name}), ("config_file", {"solver": other})]
            elif r < 0.75:
                layers += [("config_file", {"solver": name}), ("contract_annotation", {"solver": None, "loop": 3})]
            elif r < 0.88:
                # a weaker --solver-command does not win; a stronger empty one neither
                layers += [("config_file", {"solver_command": "file-solver --x"}), ("command_line", {"solver": name, "solver_command": None})]
            else:
                # --solver-command at the same or a higher source wins
                layers += [("contract_annotation", {"solver": name}), ("function_annotation", {"solver_command": f"custom-{name} --flag"})]
            items.append((si, name, layers))
    lines, at = [], []
    for _, _, layers in items:
        lines += stack_lines(layers) + ["specsolver", "solver"]
        at.append(len(lines) - 2)
    reps = ctx.lean("Config").ask(lines)
    scratch = tempfile.mkdtemp(prefix="c18_solver_bins_")
    old_path = os.environ.get("PATH", "")
    history = []
    try:
        for b in by_bin:
            fp = os.path.join(scratch, b)
            with open(fp, "w") as fh:
                fh.write("#!/bin/sh\nexit 0\n")
            os.chmod(fp, os.stat(fp).st_mode | stat.S_IXUSR | stat.S_IXGRP | stat.S_IXOTH)
        os.environ["PATH"] = scratch + os.pathsep + old_path
        saved_warn = hc.warn
        hc.warn = lambda *a, **k: None
        try:
            for (si, name, layers), k in zip(items, at):
                spec, model = reps[k], reps[k + 1]
                if spec.split(" ")[0] != model.split(" ")[0] or spec.split(" ")[1] != model.split(" ")[1]:
                    raise RuntimeError(f"model and spec disagree on {layers}: {model} vs {spec}")
                cfg = build_real(layers)[1]
                got = real_call(lambda cfg=cfg: list(cfg.resolved_solver_command))
                kind, tokv = spec.split(" ")[0], spec.split(" ")[1]
                val = dec_u("u:" + tokv[2:]) if tokv.startswith("S:") else None
                if kind == "command":
                    want_desc, ok = shlex.split(val), got == ("ok", shlex.split(val))
                else:
                    b, args = registry[val]
                    want_desc = [f"<path>/{b}"] + args
                    ok = got[0] == "ok" and len(got[1]) >= 1 and os.path.basename(got[1][0]) == b and got[1][1:] == args
                ctx.count(f"solver-seq.{kind}")
                ctx.case(("solver-seq", tuple(seqs[si]), name, kind), nontrivial=True)
                if not ok:
                    blame = [h for h in history if h[1] == got[1]] if got[0] == "ok" else []
                    key = "solver_command_rule:resolution-depends-on-history" if blame and kind == "solver" else "solver_command_rule:wrong-resolved-command"
                    ctx.violation(key,
                                  f"effective --solver {val!r}: resolved_solver_command = {got[1]!r}, the rule gives {want_desc} "
                                  f"for layers (oldest first) {layers}" + (f"; this is the command resolved earlier in the process for --solver {blame[0][0]!r}" if blame else ""),
                                  {"kind": "solver-seq", "sequence": seqs[si], "before": [h[0] for h in history[-6:]]})
                if got[0] == "ok" and kind == "solver":
                    history.append((val, got[1]))
        finally:
            hc.warn = saved_warn
    finally:
        os.environ["PATH"] = old_path
        shutil.rmtree(scratch, ignore_errors=True)
    ctx.count("solver-seq.sequences", len(seqs))


# ------------------------------------------------------------------------------------------------ entry points


def run_corpus(ctx, pool):
    d = VERIF / "corpus" / ID
    if not d.exists():
        return
    for p in sorted(d.glob("*.json")):
        data = json.loads(p.read_text())
        ctx.count("corpus")
        run_one(ctx, data.get("replay", data), pool)


def run_one(ctx, data, pool=None):
    """run one stored case through the same checks (violations are recorded in ctx)"""
    kind = data.get("kind")
    if kind == "stack":
        check_stacks(ctx, [[(s, dict(kw)) for s, kw in data["layers"]]], "replay")
    elif kind in ("parse", "roundtrip"):
        if data["parser"] == "timeout" and kind == "parse":
            check_parser_strings(ctx, "timeout", [data["string"]], "replay")
        else:
            check_parser_strings(ctx, data["parser"], [data["string"]], "replay")
    elif kind == "timeout-roundtrip":
        PT = H()["hc"].ParseTimeout
        v = PT.parse(data["string"])
        u = real_call(PT.unparse, v)
        back = real_call(PT.parse, u[1]) if u[0] == "ok" else u
        if back != ("ok", v):
            ctx.violation("ParseTimeout.unparse:truncates" if timeout_mode() == "truncating" else "ParseTimeout.roundtrip",
                          f"parse(unparse({v!r})) = {back}", data)
    elif kind == "toml":
        check_toml_docs(ctx, [data["doc"]], "replay")
    elif kind == "toml-text":
        import toml

        check_toml_docs(ctx, [toml.loads(data["text"])], "replay", [data["text"]])
    elif kind == "natspec":
        hb = H()["hb"]
        t = data["text"] or ""
        if real_call(hb.parse_natspec, {"text": t}) != ("ok", oracle_natspec(t)):
            ctx.violation("parse_natspec:replay", f"parse_natspec({t!r})", data)
    elif kind == "annot":
        contracts = [(n, ns, t, [tuple(f) for f in funs]) for n, ns, t, funs in data["contracts"]]
        check_artifacts(ctx, [([(s, dict(kw)) for s, kw in data["base"]], contracts)])
    elif kind == "solver-seq":
        check_solver_sequences(ctx)
    elif kind in ("load_config", "main"):
        # these are regenerated from the seed; run the whole sub-check
        (check_load_config if kind == "load_config" else check_main_loop)(ctx)
    else:
        raise ValueError(f"unknown replay kind {kind}")


def correspond(ctx):
    H()
    pool = harvest_literals()
    ctx.note(f"harvested {len(pool)} integer literals (with +-1) from the functions under test")
    deferred = []

    def section(f, *a):
        # a stale-model error in one section must not hide violations another section would find
        try:
            f(*a)
        except RuntimeError as e:
            deferred.append(f"{f.__name__}: {e}")

    section(run_corpus, ctx, pool)
    section(check_char_classes, ctx)
    # exhaustive small scopes
    small = exhaustive_small_stacks()
    section(check_stacks, ctx, small, "exhaustive<=3")
    section(check_stacks, ctx, exhaustive_solver_stacks(), "exhaustive-solver")
    ctx.extra["exhaustive_small_stacks"] = len(small)
    section(check_solver_sequences, ctx)
    section(check_toml_native, ctx, pool)
    # random stacks
    n = ctx.scale(2000, 20000)
    max_layers = 5 if ctx.tier == "quick" else 7
    batch = 500
    for i in range(0, n, batch):
        section(check_stacks, ctx, [gen_stack(ctx.rng, pool, max_layers) for _ in range(min(batch, n - i))], "random")
    for kind in PARSERS:
        section(check_parsers, ctx, pool, kind)
    section(check_timeout_grid, ctx, pool)
    section(check_toml, ctx, pool)
    section(check_natspec, ctx)
    section(check_annotations, ctx, pool)
    section(check_load_config, ctx)
    section(check_main_loop, ctx)
    ctx.sample({"stack (oldest first)": gen_stack(ctx.rng, pool, 5)})
    ctx.sample({"array-lengths string": gen_valid(ctx.rng, "lengths", pool), "error-codes string": gen_valid(ctx.rng, "codes", pool),
                "timeout string": gen_valid(ctx.rng, "timeout", pool)})
    ctx.sample({"toml native forms per option": NATIVE_FORMS})
    ctx.extra["exhaustive"] = False
    if deferred:
        raise RuntimeError(f"{len(deferred)} section(s) failed: " + " || ".join(d[:1500] for d in deferred))


def replay(ctx, data) -> bool:
    H()
    before = len(ctx.violations)
    run_one(ctx, data.get("replay", data), harvest_literals())
    return len(ctx.violations) > before
