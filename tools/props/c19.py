"""C19 — bytecode decoding and jump-destination validity follow the EVM.

Implementation route: real `halmos.contract.Contract` objects built the way halmos builds them (`Contract(bytes)`,
`Contract.from_hexcode`, `Contract(ByteVec([...chunks...]))`, `Contract(<z3 Concat term>)`), observed through
`valid_jumpdests()`, `decode_instruction(pc)` for every pc (also past the end, in shuffled order, twice — the `_insn` cache),
`slice`, `unwrapped_slice`, `__getitem__`, `len`; and real `SEVM.run` on generated jump programs.
Compared against (a) the Lean Model (`Model.Contract`, through Driver/Code.lean `code`/`all`/…) and (b) the Lean Spec
(`Spec.Code`, `spec-*` requests) on the code concretised under a valuation of the unknown bytes.

Unknown bytes are z3 constants; everything the implementation returns is evaluated under two valuations with the
independent interpreter `vlib.zeval` and compared value-wise (never by printing).
"""
from __future__ import annotations

import ast
import itertools
import json
import sys
import time

from vlib.impl import use_repo
from vlib.runner import REPO, VERIF

ID = "C19"
EXTRACTORS = ["opcodes"]
LEAN_MODULES = ["HalmosVerif.Props.C19"]
LEAN_EXTRA_TARGETS = []
RULE = ("symbolic-destination JUMP programs (symbolic_jump=True; target = calldata word, optionally masked and offset so that 0, 1, 2, "
        "3 or more valid JUMPDESTs are feasible, with and without feasible invalid values): the outcome multiset must be one path "
        "per feasible valid JUMPDEST plus one invalid-jump halt iff an invalid value is feasible, per Spec.Code.run on each "
        "concrete destination; every case also reads slices at far starts {2^20-33, 2^20-1, 2^20, 2^20+1, 2^32, 2^64, 2^255, 2^256-1}; CODECOPY/EXTCODECOPY "
        "programs on the real SEVM with offsets inside / at / past / far past the end, result (mem[0:32] after the copy) compared "
        "with Spec.Code.read; a case = (byte string, chunking, construction route; routes include *views*: a template ByteVec patched in place by "
        "set_byte/set_slice/__setitem__/set_word so that the first chunk is a truncated window, prefix and inner `slice` windows of "
        "larger buffers, slice-of-slice, and code assembled in memory by CODECOPY+MSTORE8/MSTORE+RETURN on the real SEVM): exhaustive strings over {STOP, 0x5b, PUSH1, PUSH2, PUSH32, JUMP, "
        "unknown byte} up to a length bound, with every split position (the `_fastcode` prefix ends at every offset), unknown "
        "bytes as separate symbolic chunks and as one mixed numeral/unknown symbolic chunk; random strings up to 4 KiB over "
        "a pool biased to PUSHn/JUMPDEST/harvested literals ±1 with random chunkings; per case every pc in 0..len+1 is decoded, "
        "every (start,size) slice of the small scope is read; SEVM jump programs = JUMP/JUMPI (constant true/false and "
        "symbolic condition) to every position 0..len+1 of generated bodies; trace programs = random block programs with forward "
        "and backward JUMP / JUMPI (literal true/false, symbolic CALLVALUE condition, MSIZE-guarded loops) whose destinations "
        "are drawn from all JUMPDESTs of the code incl. pc 0, the last byte and the byte after a PUSH32 operand, final "
        "(status, pc, stack of PC-trail values; programs also built as patched templates) compared with the Lean reference executor Spec.Code.run; distinct = distinct (string, chunking); non-trivial = "
        "every case (each one decodes real bytes)")
TRUSTED = [
    "ByteVec content semantics (get_byte / slice are zero beyond the end) is modelled by content only; its chunk bookkeeping is C07",
    "z3 `simplify` turns Extract over Concat of numerals into a numeral (decides which bytes of a symbolic chunk are `num`)",
    "Model.Contract is hand-written from contract.py (tie: this differential run; constants and insn_len regenerated from source)",
]
ASSUMPTIONS = [
    "program counters and code offsets are non-negative (the EVM never produces a negative one); `decode_instruction(-1)` on "
    "non-empty code returns the last byte's instruction and poisons the cache slot of pc = len-1 — outside the domain, noted only",
    "a truly unknown byte at an opcode position makes decode raise NotConcreteError and ends the jump-destination sweep: "
    "halmos does not execute symbolic opcodes (under-approximation stated in Props.C19.jumpdests_sweep)",
]

HALMOS_MAX_READ = 1 << 20   # reads up to this size must succeed (halmos refuses larger ones with OutOfGasError by design)
KEY_NUM = "jumpdests:numeral-opcode-byte-in-symbolic-chunk-ends-sweep"

# --------------------------------------------------------------------------------------------------------------------
# building real contracts

_H = {}


def H():
    if not _H:
        use_repo()
        import z3
        from halmos.bytevec import ByteVec, ConcreteChunk, SymbolicChunk
        from halmos.contract import Contract, Instruction
        from halmos.exceptions import InvalidJumpDestError, NotConcreteError, OutOfGasError
        from vlib import zeval
        _H.update(z3=z3, ByteVec=ByteVec, Contract=Contract, Instruction=Instruction, NotConcreteError=NotConcreteError,
                  OutOfGasError=OutOfGasError, InvalidJumpDestError=InvalidJumpDestError, zeval=zeval,
                  ConcreteChunk=ConcreteChunk, SymbolicChunk=SymbolicChunk)
    return _H


class Case:
    """pieces: list of ("c", bytes) | ("s", n) | ("m", [int|None, …]);  route: how the Contract is constructed"""

    def __init__(self, pieces, route="bytevec"):
        self.pieces = [p for p in pieces]
        self.route = route
        # normalise: a mixed chunk that z3/Chunk.wrap would see as a single numeral is a concrete chunk
        norm = []
        for k, v in self.pieces:
            if k == "m" and len(v) == 1 and v[0] is not None:
                norm.append(("c", bytes(v)))
            elif k == "m" and all(x is None for x in v):
                norm.append(("s", len(v)))
            else:
                norm.append((k, v))
        self.pieces = norm
        self.kinds = []  # per position: ("i", b) | ("n", b) | ("s", None)
        for k, v in self.pieces:
            if k == "c":
                self.kinds += [("i", b) for b in v]
            elif k == "s":
                self.kinds += [("s", None)] * v
            elif k == "v":
                self.kinds += [("s", None)] * v[3]
            else:
                self.kinds += [("s", None) if b is None else ("n", b) for b in v]
        self.n = len(self.kinds)
        self.unknown = [i for i, (k, _) in enumerate(self.kinds) if k == "s"]

    def lean_pieces(self):
        out = []
        for k, v in self.pieces:
            if k == "c":
                out.append("c:" + v.hex())
            elif k == "s":
                out.append(f"s:{v}")
            elif k == "v":
                out.append(f"s:{v[3]}")        # unknown bytes for the model; how they are backed is the route
            else:
                out.append("m:" + ",".join("?" if b is None else f"{b:02x}" for b in v))
        return "+".join(out) if out else "-"

    def key(self):
        views = ";".join(f"{v[1]}@{v[2]}+{v[3]}" for k, v in self.pieces if k == "v")
        return self.lean_pieces() + "|" + self.route + ("|views:" + views if views else "")

    def to_json(self):
        return {"pieces": [[k, (v.hex() if k == "c" else list(v) if k == "v" else v)] for k, v in self.pieces], "route": self.route}

    @staticmethod
    def from_json(d):
        if "view" in d:
            return ViewCase(d["view"])
        return Case([(k, bytes.fromhex(v) if k == "c" else tuple(v) if k == "v" else v) for k, v in d["pieces"]],
                    d.get("route", "bytevec"))

    def fast_len(self):
        """length of `_fastcode` (None when there is none): first non-empty chunk, if concrete"""
        for k, v in self.pieces:
            ln = v if k == "s" else v[3] if k == "v" else len(v)
            if ln == 0:
                continue
            return ln if k == "c" else None
        return None

    def build(self):
        """-> (Contract, envs) where envs = two valuations {z3 name: int}; self.sigma[j][pos] = byte value of unknown pos"""
        h = H()
        z3 = h["z3"]
        chunks = []
        names = []  # (name, nbytes, first_pos)
        pos = 0
        for k, v in self.pieces:
            if k == "c":
                chunks.append(v)
                pos += len(v)
            elif k == "s":
                if v > 0:
                    nm = f"c19_s{pos}_{v}"
                    chunks.append(z3.BitVec(nm, 8 * v))
                    names.append((nm, v, pos))
                else:
                    chunks.append(b"")
                pos += v
            elif k == "v":
                # a window [k0, k0+n) into a W-byte symbolic value: SymbolicChunk with start = k0 (as CALLDATACOPY from
                # calldata[4:] or a RETURN from the middle of a symbolic word produce)
                nm, W, k0, nn = v
                chunks.append(h["ByteVec"](z3.BitVec(nm, 8 * W)).slice(k0, k0 + nn))
                names.append((nm, W, pos, k0, nn))
                pos += nn
            else:
                parts = []
                for j, b in enumerate(v):
                    if b is None:
                        nm = f"c19_b{pos + j}"
                        parts.append(z3.BitVec(nm, 8))
                        names.append((nm, 1, pos + j))
                    else:
                        parts.append(z3.BitVecVal(b, 8))
                chunks.append(z3.Concat(*parts) if len(parts) > 1 else parts[0])
                pos += len(v)
        route = self.route
        Contract, ByteVec = h["Contract"], h["ByteVec"]
        concrete = all(k == "c" for k, _ in self.pieces)
        if route == "bytes" and concrete and len(self.pieces) <= 1:
            c = Contract(b"".join(v for _, v in self.pieces))
        elif route == "hex" and concrete and len(self.pieces) <= 1:
            c = Contract.from_hexcode(b"".join(v for _, v in self.pieces).hex())
        elif route == "hex0x" and concrete and len(self.pieces) <= 1:
            c = Contract.from_hexcode("0x" + b"".join(v for _, v in self.pieces).hex())
        elif route == "bvval" and concrete and len(self.pieces) == 1 and len(self.pieces[0][1]) > 0:
            b = self.pieces[0][1]
            c = Contract(z3.BitVecVal(int.from_bytes(b, "big"), 8 * len(b)))
        elif route == "single" and len(chunks) == 1:
            c = Contract(chunks[0])
        else:
            c = Contract(ByteVec(list(chunks)))
        return c, names


def valuations(rng, names, n):
    """two valuations; returns (envs, sigmas) with sigma[pos] = value of the unknown byte at pos"""
    envs, sigmas = [], []
    for j in range(2):
        env, sigma = {}, {}
        for entry in names:
            nm, nb, pos = entry[:3]
            k0, nn = (entry[3], entry[4]) if len(entry) == 5 else (0, nb)
            if nm in env:
                val = env[nm]
                bs = val.to_bytes(nb, "big")
                for i in range(nn):
                    sigma[pos + i] = bs[k0 + i]
                continue
            if j == 0:
                val = rng.getrandbits(8 * nb)
            else:
                # second valuation: bytes that look like opcodes of interest, so that a wrongly concretised byte shows
                val = int.from_bytes(bytes(rng.choice((0x5B, 0x60, 0x7F, 0x00, 0xFF, 0x56)) for _ in range(nb)), "big")
            env[nm] = val
            bs = val.to_bytes(nb, "big")
            for i in range(nn):
                sigma[pos + i] = bs[k0 + i]
        envs.append(env)
        sigmas.append(sigma)
    return envs, sigmas


def ev(term, env):
    h = H()
    if isinstance(term, int):
        return term
    return h["zeval"].evaluate(term, env)


# --------------------------------------------------------------------------------------------------------------------
# observing the implementation

def obs_decode(c, pc, envs):
    h = H()
    try:
        insn = c.decode_instruction(pc)
    except h["NotConcreteError"]:
        return ("err", "notconcrete")
    except Exception as e:  # noqa: BLE001
        return ("exc", type(e).__name__)
    op = insn.operand
    if op is None:
        opv = None
    else:
        if op.size != 256:
            return ("bad-operand-size", op.size)
        opv = tuple(op.value if op.is_concrete else ev(op.as_z3(), env) for env in envs)
    opc = insn.opcode
    if not isinstance(opc, int):
        return ("bad-opcode-type", type(opc).__name__)
    return ("ok", opc, insn.pc, insn.next_pc, opv, None if op is None else bool(op.is_concrete))


def obs_bytes(bv, envs):
    """content of a ByteVec under each valuation"""
    n = len(bv)
    if n == 0:
        return tuple(b"" for _ in envs), True
    u = bv.unwrap()
    if isinstance(u, bytes):
        return tuple(u for _ in envs), True
    return tuple(ev(u, env).to_bytes(n, "big") for env in envs), False


def obs_slice(c, start, size, envs):
    h = H()
    try:
        r = c.slice(start, size)
    except h["OutOfGasError"]:
        return ("err", "outofgas")
    except Exception as e:  # noqa: BLE001
        return ("exc", type(e).__name__)
    if len(r) != size:
        return ("bad-length", len(r))
    return ("ok", obs_bytes(r, envs)[0])


def obs_at(c, pc, envs):
    h = H()
    try:
        b = c[pc]
    except Exception as e:  # noqa: BLE001
        return ("exc", type(e).__name__)
    if type(b) is int:
        return ("i", (b, b))
    z3 = h["z3"]
    if hasattr(b, "unwrap"):
        b = b.unwrap()
        if isinstance(b, int):
            return ("i", (b, b))
    if z3.is_bv_value(b):
        return ("n", (b.as_long(), b.as_long()))
    return ("s", tuple(ev(b, env) for env in envs))


# --------------------------------------------------------------------------------------------------------------------
# parsing the Lean replies

def parse_toks(s, sigma):
    if s == "-":
        return b""
    out = []
    for t in s.split(","):
        if t.startswith("s"):
            out.append(sigma[int(t[1:])])
        else:
            out.append(int(t, 16))
    return bytes(out)


def toks_concrete(s):
    return s == "-" or not any(t.startswith("s") for t in s.split(","))


def parse_model_decode(s, sigmas):
    if s.startswith("err "):
        return ("err", s[4:])
    parts = s.split(" ")
    assert parts[0] == "ok", s
    opc = int(parts[1], 16)
    kv = dict(p.split("=", 1) for p in parts[2:])
    if kv["operand"] == "none":
        opv, conc = None, None
    else:
        opv = tuple(int.from_bytes(parse_toks(kv["operand"], sg), "big") for sg in sigmas)
        conc = toks_concrete(kv["operand"])
    return ("ok", opc, int(kv["pc"]), int(kv["next"]), opv, conc)


def parse_model_slice(s, sigmas):
    if s.startswith("err "):
        return ("err", s[4:])
    assert s.startswith("ok "), s
    return ("ok", tuple(parse_toks(s[3:], sg) for sg in sigmas))


def parse_model_at(s, sigmas):
    if s.startswith("i:"):
        v = int(s[2:], 16)
        return ("i", (v, v))
    if s.startswith("n:"):
        v = int(s[2:], 16)
        return ("n", (v, v))
    p = int(s[1:])
    return ("s", tuple(sg[p] for sg in sigmas))


def parse_natlist(s):
    return [] if s == "-" else [int(x) for x in s.split(",")]


def split_all(reply):
    """`J … D … A … S …` -> (J, [D], [A], [S])"""
    assert reply.startswith("J "), reply[:80]
    j, rest = reply[2:].split(" D ", 1)
    d, rest = rest.split(" A ", 1)
    a, s = rest.split(" S ", 1) if " S " in rest else (rest.removesuffix(" S"), "")
    return j, d.split(";"), a.split(";"), (s.split(";") if s else [])


# --------------------------------------------------------------------------------------------------------------------
# one structural case: implementation vs model vs spec

class Mismatch(Exception):
    pass


# code reads far beyond the end of the code: a large *start* is fine (zeros), only the *size* is limited
FAR_STARTS = [(1 << 20) - 33, (1 << 20) - 1, 1 << 20, (1 << 20) + 1, 1 << 32, 1 << 64, 1 << 255, (1 << 256) - 1]


def far_slices(rng, k=1):
    out = []
    for _ in range(k):
        out.append((rng.choice(FAR_STARTS), rng.choice((1, 1, 2, 32, 33, 0))))
    return tuple(out)


def slice_grid(n, k):
    return [(s, z) for s in range(n + 2) for z in range(k + 1)]


def check_case(ctx, case, rng, lean_pairs, small=True, extra_slices=()):
    """Queue the Lean requests for `case` and return a closure that compares once replies are in."""
    if not small or rng.random() < 0.35:      # every medium/large case, a third of the small-scope ones
        extra_slices = tuple(extra_slices) + far_slices(rng)
    c, names = case.build()
    envs, sigmas = valuations(rng, names, case.n)
    n = case.n
    k = n + 2 if small else 0
    # --- implementation -------------------------------------------------------------------------
    impl = {}
    impl["len"] = len(c)
    fc = c._fastcode
    impl["fast"] = None if fc is None else bytes(fc)
    impl["jd"] = sorted(c.valid_jumpdests())
    if not all(type(x) is int for x in impl["jd"]):
        impl["jd"] = ["non-int"]
    order = list(range(n + 2))
    rng.shuffle(order)
    dec = {}
    for pc in order:
        dec[pc] = obs_decode(c, pc, envs)
    # second pass through the cache, different order
    rng.shuffle(order)
    for pc in order:
        again = obs_decode(c, pc, envs)
        if again != dec[pc]:
            dec[pc] = ("cache-unstable", dec[pc], again)
    impl["dec"] = [dec[pc] for pc in range(n + 2)]
    impl["at"] = [obs_at(c, pc, envs) for pc in range(n + 2)]
    grid = slice_grid(n, k) if small else []
    impl["sl"] = [obs_slice(c, s, z, envs) for s, z in grid]
    impl["xsl"] = [obs_slice(c, s, z, envs) for s, z in extra_slices]
    if sorted(c.valid_jumpdests()) != impl["jd"] and impl["jd"] != ["non-int"]:
        impl["jd"] = ["unstable"]

    # --- requests -------------------------------------------------------------------------------
    reqs = [f"code {case.lean_pieces()}", f"all {k}"]
    reqs += [f"slice {s} {z}" for s, z in extra_slices]
    conc = []
    for sg in sigmas[: (2 if case.unknown else 1)]:
        code = bytes(sg[i] if kd == "s" else b for i, (kd, b) in enumerate(case.kinds))
        conc.append(code)
        reqs.append(f"spec-all {code.hex() or '-'} {k}")
        reqs += [(f"spec-read {code.hex() or '-'} {s} {z}" if z <= HALMOS_MAX_READ else "# no-spec") for s, z in extra_slices]
    partial_known = ",".join("?" if kd == "s" else f"{b:02x}" for kd, b in case.kinds) or "-"
    reqs.append(f"spec-sweep {partial_known}")
    base = len(lean_pairs)
    lean_pairs.extend(reqs)

    def finish(replies):
        r = replies[base: base + len(reqs)]
        it = iter(r)
        head = next(it)
        mj, md, ma, ms = split_all(next(it))
        mx = [next(it) for _ in extra_slices]
        specs = []
        for _ in conc:
            sj, sd, sa, ss = split_all(next(it))
            sx = [next(it) for _ in extra_slices]
            specs.append((sj, sd, sa, ss, sx))
        sweep = next(it)
        compare_case(ctx, case, impl, sigmas, head, (mj, md, ma, ms, mx), specs, sweep, grid, extra_slices, conc)

    return finish


_STALE = []


def model_stale(case, what, impl_v, model_v):
    # recorded, and raised at the end of correspond(): the remaining families still run, so that a change of the code that
    # also breaks the property is reported with its concrete failing input and not only as a broken correspondence
    _STALE.append(f"C19 model/implementation mismatch (spec agrees with implementation or has no say): {what} "
                  f"case={case.key()} impl={impl_v!r} model={model_v!r}")


def compare_case(ctx, case, impl, sigmas, head, model, specs, sweep, grid, extra_slices, conc):
    mj, md, ma, ms, mx = model
    n = case.n
    nsig = len(specs)
    replay = case.to_json()
    # ---- len / fastcode: implementation vs model
    hp = head.split(" ")
    assert hp[0] == "ok", head
    mlen = int(hp[1])
    mfast = hp[2].split("=", 1)[1]
    mfast = None if mfast == "none" else (b"" if mfast == "-" else bytes.fromhex(mfast))
    if impl["len"] != n:
        ctx.violation("len:wrong", f"len(Contract) = {impl['len']} for {n} code bytes ({case.key()})", replay)
    if mlen != impl["len"]:
        model_stale(case, "len", impl["len"], mlen)
    n_viol_before = sum(v["count"] for v in ctx.violations)

    # ---- jump destinations
    assert mj.startswith("ok "), mj
    mjd = parse_natlist(mj[3:])
    sw = sweep.split(" ")
    assert sw[0] == "ok", sweep
    spec_sweep = parse_natlist(sw[1])
    spec_blocked = sw[3] == "blocked=1"
    spec_full = [parse_natlist(s[0][3:]) for s in specs]
    ijd = impl["jd"]
    n_jd_before = sum(v["count"] for v in ctx.violations if v["key"].startswith("jumpdests:"))
    # soundness under every valuation: every accepted destination is a valid JUMPDEST of the concretised code
    for j, full in enumerate(spec_full):
        bad = [d for d in ijd if d not in full]
        if bad:
            ctx.violation("jumpdests:accepts-invalid-destination",
                          f"valid_jumpdests() contains {bad} which is not a JUMPDEST at an instruction boundary of "
                          f"{conc[j].hex()} ({case.key()})", replay)
            break
    else:
        if ijd != spec_sweep:
            # completeness: everything the linear sweep over the *known* bytes reaches must be accepted
            missing = [d for d in spec_sweep if d not in ijd]
            extra = [d for d in ijd if d not in spec_sweep]
            numeral_stop = _numeral_stop(case)
            if missing and not extra and numeral_stop is not None and ijd == [d for d in spec_sweep if d < numeral_stop] \
                    and mjd == ijd:
                ctx.count("finding:numeral-opcode-ends-sweep")
                ctx.violation(KEY_NUM,
                              "a byte of a symbolic chunk that simplifies to a numeral (decode_instruction accepts it) ends the "
                              f"jump-destination sweep: valid_jumpdests()={ijd}, EVM sweep over the known bytes={spec_sweep} "
                              f"({case.key()})", replay)
            elif missing:
                ctx.violation("jumpdests:rejects-genuine-jumpdest",
                              f"valid_jumpdests()={ijd} misses {missing}; the sweep over the known bytes gives {spec_sweep} "
                              f"({case.key()})", replay)
            else:
                # extra destinations beyond an unknown opcode but valid in both sampled valuations: cannot be justified
                ctx.violation("jumpdests:beyond-unknown-opcode",
                              f"valid_jumpdests()={ijd} contains {extra} beyond the first unknown opcode ({case.key()})", replay)
    jd_violation = sum(v["count"] for v in ctx.violations if v["key"].startswith("jumpdests:")) > n_jd_before
    if mjd != ijd and not jd_violation:
        model_stale(case, "valid_jumpdests", ijd, mjd)
    ctx.count("jumpdests:" + ("blocked" if spec_blocked else "complete") + (":nonempty" if ijd else ":empty"))

    # ---- decode at every pc
    for pc in range(n + 2):
        iv = impl["dec"][pc]
        mv = parse_model_decode(md[pc], sigmas)
        kind = case.kinds[pc][0] if pc < n else "end"
        spec_ok = True
        what = None
        if iv[0] == "ok":
            for j in range(nsig):
                sp = specs[j][1][pc].split(" ")
                s_op = int(sp[1], 16)
                s_next = int(sp[2].split("=")[1])
                s_operand = sp[3].split("=")[1]
                s_operand = None if s_operand == "none" else int(s_operand, 16)
                i_operand = None if iv[4] is None else iv[4][j]
                if iv[1] != s_op:
                    spec_ok, what = False, f"opcode {iv[1]:#x} != {s_op:#x}"
                elif pc < n and (iv[2] != pc or iv[3] != s_next):
                    spec_ok, what = False, f"pc/next_pc ({iv[2]},{iv[3]}) != ({pc},{s_next})"
                elif i_operand != s_operand:
                    spec_ok, what = False, f"operand {i_operand} != {s_operand}"
                if not spec_ok:
                    cls = "past-end" if pc >= n else ("push" if s_operand is not None else "plain")
                    where = _where(case, pc, s_next if pc < n else pc)
                    ctx.violation(f"decode:{cls}:{where}:{what.split(' ')[0]}",
                                  f"decode_instruction({pc}) of {conc[j].hex()} [{case.key()}]: {what}", dict(replay, pc=pc))
                    break
        elif iv == ("err", "notconcrete"):
            if kind != "s":
                spec_ok = False
                ctx.violation(f"decode:notconcrete-on-known-byte:{kind}",
                              f"decode_instruction({pc}) raised NotConcreteError on a known opcode byte [{case.key()}]",
                              dict(replay, pc=pc))
        else:
            spec_ok = False
            ctx.violation(f"decode:{iv[0]}:{kind}", f"decode_instruction({pc}) -> {iv!r} [{case.key()}]", dict(replay, pc=pc))
        if spec_ok and iv != mv:
            model_stale(case, f"decode_instruction({pc})", iv, mv)
        ctx.count(f"decode:{kind}:{iv[0]}" + (":push" if iv[0] == "ok" and iv[4] is not None else ""))

    # ---- __getitem__
    for pc in range(n + 2):
        iv = impl["at"][pc]
        mv = parse_model_at(ma[pc], sigmas)
        ok = True
        if iv[0] in ("i", "n", "s"):
            for j in range(nsig):
                sv = int(specs[j][2][pc], 16)
                if iv[1][j] != sv:
                    ok = False
                    ctx.violation(f"getitem:{_where(case, pc, pc)}", f"Contract[{pc}] = {iv[1][j]:#x}, code byte is {sv:#x} "
                                  f"[{case.key()}]", dict(replay, pc=pc))
                    break
        else:
            ok = False
            ctx.violation(f"getitem:{iv[0]}", f"Contract[{pc}] -> {iv!r} [{case.key()}]", dict(replay, pc=pc))
        if ok and iv != mv:
            model_stale(case, f"__getitem__({pc})", iv, mv)

    # ---- slices
    def cmp_slice(iv, mtxt, spec_txts, s, z):
        mv = parse_model_slice(mtxt, sigmas)
        ok = True
        if iv[0] == "ok" and z > HALMOS_MAX_READ:
            ctx.count("slice:ok-above-limit")
        elif iv[0] == "ok":
            for j in range(nsig):
                st = spec_txts[j]
                st = st[3:] if st.startswith("ok ") else st
                sv = b"" if st == "-" else bytes.fromhex(st)
                if iv[1][j] != sv:
                    ok = False
                    ctx.violation(f"slice:{_where(case, s, s + z)}",
                                  f"slice({s},{z}) = {iv[1][j].hex()}, EVM read = {sv.hex()} [{case.key()}]",
                                  dict(replay, start=s, size=z))
                    break
        elif iv == ("err", "outofgas") and z > HALMOS_MAX_READ:
            ctx.count("slice:outofgas-above-limit")      # the documented limit of halmos (constants.MAX_MEMORY_SIZE)
        else:
            ok = False
            ctx.violation(f"slice:{iv[0]}:{iv[1]}", f"slice({s},{z}) -> {iv!r} [{case.key()}]", dict(replay, start=s, size=z))
        if ok and iv != mv:
            model_stale(case, f"slice({s},{z})", iv, mv)

    for idx, (s, z) in enumerate(grid):
        cmp_slice(impl["sl"][idx], ms[idx], [specs[j][3][idx] for j in range(nsig)], s, z)
    for idx, (s, z) in enumerate(extra_slices):
        cmp_slice(impl["xsl"][idx], mx[idx], [specs[j][4][idx] for j in range(nsig)], s, z)
    ctx.count("slices", len(grid) + len(extra_slices))
    # `_fastcode` is internal state: a difference is a stale model only when nothing observable went wrong for this case
    if mfast != impl["fast"]:
        if sum(v["count"] for v in ctx.violations) == n_viol_before:
            model_stale(case, "_fastcode", impl["fast"], mfast)
        ctx.count("fastcode-differs-from-first-chunk")


def _numeral_stop(case):
    """position of the first `num` byte at an opcode position of the known-byte sweep (None if a `sym` comes first / none)"""
    pc = 0
    while pc < case.n:
        kd, b = case.kinds[pc]
        if kd == "s":
            return None
        if kd == "n":
            return pc
        pc += 1 + (b - 0x5F if 0x60 <= b <= 0x7F else 0)
    return None


def _where(case, lo, hi):
    """position class of the range [lo, hi) relative to the fast prefix and the end of the code (stable violation keys)"""
    f = case.fast_len()
    n = case.n

    def rel(x, m):
        return "lt" if x < m else ("eq" if x == m else "gt")
    a = "nofast" if f is None else f"fast-{rel(lo, f)}-{rel(hi, f)}"
    return f"{a}:end-{rel(lo, n)}-{rel(hi, n)}"


# --------------------------------------------------------------------------------------------------------------------
# generators

ALPHABET = [0x00, 0x5B, 0x60, 0x61, 0x7F, 0x56, None]  # None = unknown byte


def chunkings(sym_string, split):
    """pieces for a string over ALPHABET with a chunk boundary at `split`; two layouts:
       A: maximal concrete / unknown runs as `c` / `s` chunks (boundary at `split` in addition)
       B: everything from `split` on as one mixed symbolic chunk"""
    n = len(sym_string)

    def runs(lo, hi):
        out = []
        i = lo
        while i < hi:
            j = i
            isn = sym_string[i] is None
            while j < hi and (sym_string[j] is None) == isn:
                j += 1
            out.append(("s", j - i) if isn else ("c", bytes(sym_string[i:j])))
            i = j
        return out
    a = runs(0, split) + runs(split, n)
    yield ("plain", a)
    if any(k == "s" for k, _ in a):
        c, pos = [], 0
        for k, v in a:
            if k == "s":
                k0 = (1, 2, v, v + 1, 33)[(pos + v + split) % 5]
                c.append(("v", (f"c19_v{pos}_{k0}", k0 + v + (pos % 3), k0, v)))
                pos += v
            else:
                c.append((k, v))
                pos += len(v)
        yield ("view", c)
    if split < n:
        tail = list(sym_string[split:])
        b = runs(0, split) + [("m", tail)]
        if Case(b).lean_pieces() != Case(a).lean_pieces():
            yield ("mixed", b)


def harvest_literals():
    vals = set()
    try:
        tree = ast.parse((REPO / "src/halmos/contract.py").read_text())
    except SyntaxError:
        return [0x5B, 0x5F, 0x60, 0x7F]
    wanted = {"insn_len", "__get_jumpdests", "_decode_instruction", "decode_instruction", "slice", "unwrapped_slice",
              "__getitem__", "valid_jumpdests", "__init__", "__len__"}
    names_used = set()
    for node in ast.walk(tree):
        if isinstance(node, ast.FunctionDef) and node.name in wanted:
            for x in ast.walk(node):
                if isinstance(x, ast.Constant) and type(x.value) is int:
                    vals.add(x.value)
                if isinstance(x, ast.Name) and x.id.startswith("OP_"):
                    names_used.add(x.id)
    for node in tree.body:
        if isinstance(node, ast.Assign) and isinstance(node.targets[0], ast.Name) and node.targets[0].id in names_used \
                and isinstance(node.value, ast.Constant) and type(node.value.value) is int:
            vals.add(node.value.value)
    # the JUMP/JUMPI checks and advance in sevm.py
    try:
        stree = ast.parse((REPO / "src/halmos/sevm.py").read_text())
        for node in ast.walk(stree):
            if isinstance(node, ast.FunctionDef) and node.name in ("advance", "jumpi", "fetch_instruction"):
                for x in ast.walk(node):
                    if isinstance(x, ast.Constant) and type(x.value) is int:
                        vals.add(x.value)
    except SyntaxError:
        pass
    out = set()
    for v in vals:
        for d in (-1, 0, 1):
            out.add(v + d)
    return sorted(x for x in out if x >= 0)


def byte_pool(lits):
    pool = [0x00, 0x5B, 0x5B, 0x5B, 0x56, 0x57, 0x58, 0x5A, 0x5C, 0x5E, 0x5F, 0x60, 0x60, 0x61, 0x62, 0x6F, 0x70, 0x7E, 0x7F, 0x7F,
            0x80, 0xFE, 0xFF, 0xF3, 0xFD]
    pool += [v for v in lits if 0 <= v <= 0xFF]
    return pool


def random_code(rng, n, pool, p_unknown):
    out = []
    for _ in range(n):
        r = rng.random()
        if r < p_unknown:
            out.append(None)
        elif r < 0.55:
            out.append(rng.choice(pool))
        else:
            out.append(rng.randrange(256))
    return out


def random_chunking(rng, s, lens):
    """random cut points; concrete runs become `c`, runs containing unknowns become `s` (all unknown) or `m`"""
    n = len(s)
    cuts = {0, n}
    for _ in range(rng.choice((0, 1, 1, 2, 3, 6))):
        cuts.add(rng.choice(lens + [rng.randrange(n + 1)]) % (n + 1))
    # forced cuts where a concrete run meets an unknown byte unless merged into a mixed chunk
    mixed = rng.random() < 0.4 and n <= 600      # a 4 KiB Concat term makes every byte read a costly z3 simplify
    cs = sorted(cuts)
    pieces = []
    for lo, hi in zip(cs, cs[1:], strict=False):
        seg = s[lo:hi]
        if all(b is not None for b in seg):
            if mixed and len(seg) >= 2 and rng.random() < 0.3:
                pieces.append(("m", list(seg)))
            else:
                pieces.append(("c", bytes(seg)))
        elif mixed:
            pieces.append(("m", list(seg)))
        else:
            i = 0
            while i < len(seg):
                j = i
                isn = seg[i] is None
                while j < len(seg) and (seg[j] is None) == isn:
                    j += 1
                if isn and rng.random() < 0.5:
                    k0 = rng.choice((1, 2, 4, j - i, j - i + 1, 33))
                    pieces.append(("v", (f"c19_v{lo + i}_{k0}", k0 + (j - i) + rng.randrange(3), k0, j - i)))
                else:
                    pieces.append(("s", j - i) if isn else ("c", bytes(seg[i:j])))
                i = j
    if rng.random() < 0.15:
        pieces.insert(rng.randrange(len(pieces) + 1), ("c", b""))
    return pieces


# --------------------------------------------------------------------------------------------------------------------
# SEVM jump programs

def sevm_programs(ctx, rng, lits):
    """yield (code_pieces, description, kind, target, cond) ; code = prologue ++ body"""
    body_blocks = [
        bytes([0x5B, 0x58, 0x00]),            # JUMPDEST PC STOP
        bytes([0x5B, 0x5B, 0x58, 0x00]),      # JUMPDEST JUMPDEST PC STOP
        bytes([0x60, 0x5B]),                  # PUSH1 0x5b
        bytes([0x61, 0x5B, 0x5B]),            # PUSH2 0x5b5b
        bytes([0x61, 0x00, 0x5B]),
        bytes([0x7F]) + bytes([0x5B] * 32),   # PUSH32 5b…5b
        bytes([0x7F]) + bytes([0x5B, 0x58, 0x00] * 10) + bytes([0x5B, 0x58]),
        bytes([0x62, 0x5B, 0x58, 0x00]),      # PUSH3 5b 58 00
        bytes([0x58, 0x00]),                  # PC STOP
        bytes([0x00]),
        bytes([0x5F]),                        # PUSH0
        bytes([0x6F]) + bytes([0x5B] * 16),
        bytes([0x70]) + bytes([0x5B] * 17),
        bytes([0x7E]) + bytes([0x5B] * 31),
        bytes([0x80 - 0x21]),                 # 0x5f again (boundary below PUSH1)
        bytes([0x5A, 0x50]),                  # GAS POP  (0x5a: one below JUMPDEST)
        bytes([0x5C]),                        # TLOAD opcode byte (one above JUMPDEST) — underflows if executed
    ]
    tails = [b"", bytes([0x60]), bytes([0x61, 0x5B]), bytes([0x7F, 0x5B, 0x5B]), bytes([0x7F]), bytes([0x5B]), bytes([0x6F, 0x5B])]
    n_prog = ctx.scale(40, 400)
    for _ in range(n_prog):
        nb = rng.randrange(1, 7)
        body = b"".join(rng.choice(body_blocks) for _ in range(nb)) + rng.choice(tails)
        yield body


def run_sevm_jump(h, sevmdrv, sevm, args, code_contract, n_expected_paths=None):
    ex = sevmdrv.mk_ex(sevm, args, code_contract)
    return list(sevm.run(ex))


def sevm_section(ctx, rng, lits, lean):
    h = H()
    from vlib import sevmdrv
    sevm, args = sevmdrv.mk_sevm()
    z3 = h["z3"]
    Contract, ByteVec = h["Contract"], h["ByteVec"]
    IJD = h["InvalidJumpDestError"]
    jobs = []  # (code bytes, layout, kind, target)
    PRO = 7   # prologue length: PUSH1 cond(2) PUSH2 target(3) JUMPI(1) | pad ; then `PC STOP` fallthrough (2) => body at 9
    for body in sevm_programs(ctx, rng, lits):
        n_total = 9 + len(body)
        targets = list(range(0, n_total + 2))
        extra = [v for v in lits if v <= 0xFFFF] + [0xFFFF, 0x100 + 9, 1 << 16]
        rng.shuffle(targets)
        budget = ctx.scale(6, 30)
        fives = [9 + i for i, b in enumerate(body) if b == 0x5B]     # every 0x5b byte: genuine JUMPDESTs and PUSH data alike
        rng.shuffle(fives)
        landing = [9 + i for i, b in enumerate(body) if b == 0x5B and body[i + 1: i + 3] == bytes([0x58, 0x00])]
        rng.shuffle(landing)
        chosen = landing[: ctx.scale(8, 40)] + fives[: ctx.scale(6, 40)] + targets[:budget] + [rng.choice(extra)]
        for t in chosen:
            kind = rng.choice(("jump", "jumpi1", "jumpi0", "jumpisym", "jumpi1", "jump"))
            jobs.append((body, kind, t))
    lines = []
    built = []
    for body, kind, t in jobs:
        t16 = t & 0xFFFF if t < (1 << 16) else None
        if t16 is None:
            # PUSH3 target
            push_t = bytes([0x62]) + t.to_bytes(3, "big")
        else:
            push_t = bytes([0x61]) + t.to_bytes(2, "big")
        if kind == "jump":
            pro = push_t + bytes([0x56])
        elif kind == "jumpi1":
            pro = bytes([0x60, rng.choice((1, 2, 0xFF))]) + push_t + bytes([0x57])
        elif kind == "jumpi0":
            pro = bytes([0x60, 0x00]) + push_t + bytes([0x57])
        else:
            pro = bytes([0x34]) + push_t + bytes([0x57])  # CALLVALUE as symbolic condition
        pro = pro + bytes([0x58, 0x00])  # fallthrough: PC STOP
        pad = 9 - len(pro)
        # keep the body at a fixed offset (9) so that targets mean the same for every kind: pad with JUMPDESTs *before* the prologue?
        # simpler: pad after the fallthrough STOP with STOP bytes (never executed, still swept)
        code = pro + bytes([0x00] * max(pad, 0)) + body
        built.append((code, kind, t, len(pro) - 2))
        lines.append(f"spec-jumpdests {code.hex()}")
    replies = lean.ask(lines) if lines else []
    for (code, kind, t, ft_pc), rep in zip(built, replies, strict=True):
        assert rep.startswith("ok "), rep
        valid = set(parse_natlist(rep[3:]))
        accepted_spec = t in valid
        # vary the representation of the same code: bytes, chunked ByteVec (fast prefix ends inside the body), hex
        r = rng.randrange(4)
        if r == 0:
            pgm = Contract(code)
            lay = "bytes"
        elif r == 1:
            cut = rng.randrange(1, len(code))
            pgm = Contract(ByteVec([code[:cut], code[cut:]]))
            lay = "split"
        elif r == 2:
            cut = rng.randrange(1, len(code))
            pgm = Contract(ByteVec([code[:cut], code[cut:], z3.BitVec("c19_tail", 16)]))
            lay = "split+symtail"
        else:
            pgm = Contract.from_hexcode(code.hex())
            lay = "hex"
        try:
            exs = list(sevm.run(sevmdrv.mk_ex(sevm, args, pgm)))
        except Exception as e:  # noqa: BLE001
            ctx.violation(f"sevm:{kind}:exception:{type(e).__name__}", f"SEVM.run raised {type(e).__name__}: {e} on {code.hex()}",
                          {"sevm": code.hex(), "kind": kind, "target": t, "layout": lay})
            continue
        outcomes = []
        for ex in exs:
            err = ex.context.output.error
            if err is None:
                st = ex.st.stack
                top = st[-1] if len(st) else None
                topv = None
                if top is not None:
                    topv = top.value if hasattr(top, "value") and isinstance(top.value, int) else "sym"
                outcomes.append(("ok", ex.pc, topv))
            else:
                outcomes.append(("err", type(err).__name__))
        # expectation from the Spec
        landed = ("ok", t + 2, t + 1) if accepted_spec and _lands_on_pc_stop(code, t) else None
        fall = ("ok", ft_pc + 1, ft_pc)
        taken_expected = []
        if kind in ("jump", "jumpi1"):
            taken_expected = ["taken"]
        elif kind == "jumpi0":
            taken_expected = ["fall"]
        else:
            taken_expected = ["taken", "fall"]
        exp = []
        for br in taken_expected:
            if br == "fall":
                exp.append(fall)
            elif not accepted_spec:
                exp.append(("err", "InvalidJumpDestError"))
            elif landed is not None:
                exp.append(landed)
            else:
                exp.append(None)  # accepted, continues somewhere we do not predict: only require "no InvalidJumpDestError"
        got = sorted(outcomes, key=repr)
        cls = f"{kind}:{'valid' if accepted_spec else _invalid_class(code, t)}"
        ctx.count("sevm:" + cls)
        ctx.case(("sevm", code, kind, t, lay))
        ok = len(got) == len(exp)
        if kind == "jumpisym" and not accepted_spec and got == [("err", "InvalidJumpDestError")]:
            # SEVM.jumpi raises InvalidJumpDestError before the fall-through branch is pushed: the jump itself is judged
            # as the EVM does (rejected), the lost cond == 0 path is outside C19 (path coverage); recorded, not alarmed
            ctx.count("sevm:note:jumpi-symbolic-cond-invalid-target-drops-fallthrough-path")
            continue
        if ok:
            exp_known = sorted([e for e in exp if e is not None], key=repr)
            rest = list(got)
            for e in exp_known:
                if e in rest:
                    rest.remove(e)
                else:
                    ok = False
            n_unknown = sum(1 for e in exp if e is None)
            if ok and (len(rest) != n_unknown or any(o == ("err", "InvalidJumpDestError") for o in rest)):
                ok = False
        if not ok:
            ctx.violation(f"sevm:{cls}",
                          f"{kind} to {t} in {code.hex()} [{lay}]: spec says {'accepted' if accepted_spec else 'rejected'}, "
                          f"expected outcomes {exp}, SEVM.run gave {got}",
                          {"sevm": code.hex(), "kind": kind, "target": t, "layout": lay})
    _ = IJD


def _lands_on_pc_stop(code, t):
    return t + 2 < len(code) + 1 and code[t + 1: t + 3] == bytes([0x58, 0x00])


def _invalid_class(code, t):
    if t >= len(code):
        return "past-end"
    if code[t] == 0x5B:
        return "push-data-5b"
    return "not-jumpdest"


# --------------------------------------------------------------------------------------------------------------------
# SEVM trace programs: where does execution continue after a taken jump?

TRACE_FUEL = 200
TRACE_DEPTH = 2000

def _asm(*items):
    """tiny assembler: int = byte, bytes = raw, "name:" = label definition, "@name" = 2-byte big-endian label reference"""
    labels, pos = {}, 0
    for it in items:
        if isinstance(it, str) and it.endswith(":"):
            labels[it[:-1]] = pos
        elif isinstance(it, str):
            pos += 2
        elif isinstance(it, bytes):
            pos += len(it)
        else:
            pos += 1
    out = bytearray()
    for it in items:
        if isinstance(it, str) and it.endswith(":"):
            continue
        if isinstance(it, str):
            out += labels[it[1:]].to_bytes(2, "big")
        elif isinstance(it, bytes):
            out += it
        else:
            out.append(it)
    return bytes(out).hex()


_GUARD = (0x59, 0x61, "@exit", 0x57, 0x60, 0x01, 0x5F, 0x52)     # MSIZE PUSH2 exit JUMPI ; PUSH1 1 PUSH0 MSTORE
_EXIT = ("exit:", 0x5B, 0x58, 0x00)                                # JUMPDEST PC STOP

# directed programs (three of them are also kept as corpus files corpus/C19/trace-*.json)
TRACE_DIRECTED = {
    # JUMPDEST at pc 0; backward JUMP to 0 guarded by MSIZE so that it terminates
    "jump-back-to-pc0": _asm("top:", 0x5B, 0x58, *_GUARD, 0x61, "@top", 0x56, 0xFE, *_EXIT),
    # same with JUMPI on a literal true condition
    "jumpi-true-back-to-pc0": _asm("top:", 0x5B, 0x58, *_GUARD, 0x60, 0x01, 0x61, "@top", 0x57, 0xFE, *_EXIT),
    # symbolic condition: both branches; the taken one goes back to pc 0
    "jumpi-sym-back-to-pc0": _asm("top:", 0x5B, 0x58, *_GUARD, 0x34, 0x61, "@top", 0x57, 0x58, 0x00, *_EXIT),
    # SEVM.jumpi with only the true branch feasible (second JUMPI on the same symbolic condition) back to pc 0
    "jumpi-sym-only-true-back-to-pc0": _asm("top:", 0x5B, 0x58, *_GUARD, 0x34, 0x61, "@a", 0x57, 0x58, 0x00,
                                            "a:", 0x5B, 0x34, 0x61, "@top", 0x57, 0xFE, *_EXIT),
    # control: the same loop with the JUMPDEST at pc 1
    "jump-back-to-pc1": _asm(0x58, "top:", 0x5B, 0x58, *_GUARD, 0x61, "@top", 0x56, 0xFE, *_EXIT),
    # destination = last byte of the code, one right after a PUSH32 operand, one inside the operand
    "jump-to-last-byte": _asm(0x61, "@last", 0x56, 0xFE, 0x00, "last:", 0x5B),
    "jump-after-push32": _asm(0x61, "@a", 0x56, 0xFE, 0x7F, bytes([0x5B] * 32), "a:", 0x5B, 0x58, 0x00),
    "jump-into-push32-data": _asm(0x61, "@a", 0x56, 0xFE, 0x7F, bytes([0x5B] * 5), "a:", bytes([0x5B] * 27), 0x5B, 0x58, 0x00),
    "jumpi-true-to-last-byte-after-push32": _asm(0x60, 0xFF, 0x61, "@last", 0x57, 0xFE, 0x7F, bytes([0x5B] * 32), "last:", 0x5B),
}


def gen_trace_program(rng):
    """random jump program; returns code bytes.  Labels are known by construction (no oracle involved)."""
    blocks = []   # list of lists of items: int byte | ("T",) placeholder for a 2-byte target
    genuine = []  # (block index, offset inside block) of JUMPDEST opcodes placed at instruction boundaries
    bad = []      # 0x5b bytes placed inside PUSH data

    def add(items, g=(), b=()):
        i = len(blocks)
        blocks.append(items)
        genuine.extend((i, o) for o in g)
        bad.extend((i, o) for o in b)

    T = ("T",)
    if rng.random() < 0.75:
        add([0x5B, 0x58], g=[0])                      # JUMPDEST at pc 0, then PC (trail)
    nb = rng.randrange(3, 9)
    for _ in range(nb):
        r = rng.random()
        if r < 0.16:
            add([0x5B, 0x58], g=[0])
        elif r < 0.22:
            add([0x5B], g=[0])
        elif r < 0.32:
            data = [rng.choice((0x5B, 0x5B, 0x58, 0x00, 0x56, 0x57, 0x60)) for _ in range(32)]
            add([0x7F] + data + [0x5B, 0x58], g=[33], b=[1 + i for i, x in enumerate(data) if x == 0x5B])
        elif r < 0.37:
            add([0x60, 0x5B], b=[1])
        elif r < 0.50:
            add([0x61, T, 0x56])
        elif r < 0.60:
            add([0x60, rng.choice((1, 2, 0xFF)), 0x61, T, 0x57])
        elif r < 0.66:
            add([0x60, 0x00, 0x61, T, 0x57])
        elif r < 0.78:
            add([0x34, 0x61, T, 0x57])
        elif r < 0.90:
            add([0x59, 0x61, T, 0x57, 0x60, 0x01, 0x5F, 0x52])     # MSIZE guard, then grow memory
        elif r < 0.95:
            add([0x00])
        elif r < 0.98:
            add([0x58])
        else:
            add([0xFE])
    if rng.random() < 0.5:
        add([0x5B], g=[0])                            # JUMPDEST as the last byte of the code
    # layout
    starts, pos = [], 0
    for blk in blocks:
        starts.append(pos)
        pos += sum(2 if it == T else 1 for it in blk)
    n = pos

    def addr(i, o):
        # offset o counts items; convert to bytes
        blk = blocks[i]
        return starts[i] + sum(2 if it == T else 1 for it in blk[:o])
    glabels = [addr(i, o) for i, o in genuine]
    blabels = [addr(i, o) for i, o in bad]
    code = bytearray()
    for blk in blocks:
        for it in blk:
            if it == T:
                r = rng.random()
                if glabels and r < 0.70:
                    # bias to the boundary positions: pc 0, the last byte, right after a PUSH32 operand
                    special = [g for g in glabels if g == 0 or g == n - 1]
                    t = rng.choice(special) if special and rng.random() < 0.5 else rng.choice(glabels)
                elif blabels and r < 0.85:
                    t = rng.choice(blabels)
                else:
                    t = rng.choice((0, n - 1, n, n + 1, rng.randrange(n + 1)))
                code += t.to_bytes(2, "big")
            else:
                code.append(it)
    return bytes(code)


def parse_run(line):
    kv = dict(p.split("=", 1) for p in line.split(" "))
    stack = [] if kv["stack"] == "-" else [int(x, 16) for x in kv["stack"].split(",")]
    trace = [] if kv["trace"] == "-" else [int(x) for x in kv["trace"].split(",")]
    return {"halt": kv["halt"], "pc": int(kv["pc"]), "stack": stack, "cv": kv["cv"] == "1", "trace": trace}


def outcome_of_spec(r):
    if r["halt"] == "stop":
        return ("stop", r["pc"], tuple(r["stack"]))
    return (r["halt"], r["pc"], None)


def dest_class(code, runs):
    """which boundary destinations do the taken jumps of the reference runs hit (for stable violation keys / histogram)"""
    cls = set()
    for r in runs:
        tr = r["trace"]
        for a, b in zip(tr, tr[1:], strict=False):
            if a < len(code) and code[a] in (0x56, 0x57) and b != a + 1:
                if b == 0:
                    cls.add("pc0")
                elif b == len(code) - 1:
                    cls.add("last-byte")
                elif b >= 33 and code[b - 33] == 0x7F:
                    cls.add("after-push32")
                else:
                    cls.add("other")
                if b <= a:
                    cls.add("backward")
    for c in ("pc0", "last-byte", "after-push32", "other"):
        if c in cls:
            return c + ("+backward" if "backward" in cls and c != "pc0" else ""), cls
    return "no-taken-jump", cls


_ERRMAP = {"InvalidJumpDestError": "invalidjump", "StackUnderflowError": "underflow", "InvalidOpcode": "invalidopcode"}


def run_trace_real(sevmdrv, sevm, args, pgm):
    outs = []
    for ex in sevm.run(sevmdrv.mk_ex(sevm, args, pgm)):
        err = ex.context.output.error
        if err is None:
            vals = []
            for x in reversed(ex.st.stack):     # top first
                v = getattr(x, "value", x)
                vals.append(v if isinstance(v, int) and not isinstance(v, bool) else "sym")
            outs.append(("stop", ex.pc, tuple(vals)))
        else:
            nm = type(err).__name__
            outs.append((_ERRMAP.get(nm, nm), ex.pc, None))
    return sorted(outs, key=repr)


def check_trace_program(ctx, name, code, specs, sevmdrv, sevm, args, rng, layout=None):
    """specs = (run with callvalue 0, run with callvalue 1); returns True if a violation was reported"""
    h = H()
    Contract, ByteVec = h["Contract"], h["ByteVec"]
    r0, r1 = specs
    if r0["halt"] in ("fuel", "unsupported") or r1["halt"] in ("fuel", "unsupported"):
        ctx.count("sevm-trace:skipped:" + (r0["halt"] if r0["halt"] in ("fuel", "unsupported") else r1["halt"]))
        return False
    o0, o1 = outcome_of_spec(r0), outcome_of_spec(r1)
    uses_cv = r0["cv"] or r1["cv"]
    expected = sorted([o0, o1], key=repr) if uses_cv else [o0]
    lay = layout if layout is not None else rng.randrange(5)
    if lay == 0 or len(code) < 2:
        pgm = Contract(code)
    elif lay == 1:
        cut = rng.randrange(1, len(code))
        pgm = Contract(ByteVec([code[:cut], code[cut:]]))
    elif lay == 2:
        pgm = Contract.from_hexcode(code.hex())
    else:
        # the program as a patched template: one whole chunk, then a byte written in place (first chunk becomes a window)
        i = rng.randrange(1, len(code))
        t = bytearray(code)
        t[i] = _alt(code[i])
        bv = ByteVec(bytes(t))
        if lay == 3:
            bv.set_byte(i, code[i])
        else:
            bv = ByteVec(bytes(t) + bytes([0x5B, 0x60]))
            bv.set_slice(i, i + 1, bytes([code[i]]))
            bv = bv.slice(0, len(code))
        pgm = Contract(bv)
    try:
        got = run_trace_real(sevmdrv, sevm, args, pgm)
    except Exception as e:  # noqa: BLE001
        ctx.violation(f"sevm-trace:exception:{type(e).__name__}", f"SEVM.run raised {type(e).__name__}: {e} on {code.hex()}",
                      {"sevm_trace": code.hex(), "name": name})
        return True
    cls, allcls = dest_class(code, (r0, r1))
    ctx.count("sevm-trace:dest:" + cls)
    for c in allcls:
        ctx.count("sevm-trace:hits:" + c)
    ctx.count("sevm-trace:" + ("symbolic-cond" if uses_cv else "concrete"))
    ctx.case(("sevm-trace", code, lay))
    ok = got == expected
    if not ok and uses_cv and o1[0] == "invalidjump" and got == [o1]:
        # known (C01 finding): a symbolic-condition JUMPI to an invalid destination loses the fall-through path
        ctx.count("sevm:note:jumpi-symbolic-cond-invalid-target-drops-fallthrough-path")
        ok = True
    if not ok:
        exp_halts = "+".join(sorted({e[0] for e in expected}))
        got_halts = "+".join(sorted({g[0] for g in got})) or "no-path"
        ctx.violation(f"sevm-trace:jump-to-{cls}:expected-{exp_halts}",
                      f"program {code.hex()} [{name}]: the EVM continues as {expected} (status, final pc, stack top first; "
                      f"reference traces {r0['trace']} / {r1['trace']}), SEVM.run gave {got} [{got_halts}]",
                      {"sevm_trace": code.hex(), "name": name})
        return True
    return False


def trace_corpus():
    d = VERIF / "corpus" / ID
    out = {}
    if d.is_dir():
        for p in sorted(d.glob("*.json")):
            try:
                data = json.loads(p.read_text())
            except Exception:  # noqa: BLE001
                continue
            r = data.get("replay", data)
            if "sevm_trace" in r:
                out["corpus:" + p.stem] = bytes.fromhex(r["sevm_trace"])
    return out


def sevm_trace_section(ctx, rng, lean):
    from vlib import sevmdrv
    sevm, args = sevmdrv.mk_sevm(depth=TRACE_DEPTH)
    progs = list(trace_corpus().items())
    progs += [("directed:" + k, bytes.fromhex(v)) for k, v in TRACE_DIRECTED.items()]
    ctx.count("sevm-trace:corpus+directed", len(progs))
    seen = {c for _, c in progs}
    for i in range(ctx.scale(1200, 8000)):
        code = gen_trace_program(rng)
        if code not in seen:
            seen.add(code)
            progs.append((f"random:{i}", code))
    lines = []
    for _, code in progs:
        lines.append(f"spec-run {code.hex()} 0 {TRACE_FUEL}")
        lines.append(f"spec-run {code.hex()} 1 {TRACE_FUEL}")
    replies = lean.ask(lines)
    for k, (name, code) in enumerate(progs):
        specs = (parse_run(replies[2 * k]), parse_run(replies[2 * k + 1]))
        layouts = (0, 1, 2, 3, 4) if not name.startswith("random") else (None,)
        for lay in layouts:
            check_trace_program(ctx, name, code, specs, sevmdrv, sevm, args, rng, layout=lay)


# --------------------------------------------------------------------------------------------------------------------
# code that is a *view*: ByteVecs whose chunks are windows into larger / patched buffers

def _alt(b):
    """a different byte of a different decoding class"""
    return {0x5B: 0x60, 0x60: 0x5B, 0x61: 0x5B, 0x7F: 0x00}.get(b, 0x5B)


def apply_view_reference(recipe):
    """the bytes the recipe denotes, computed on a plain bytearray (no ByteVec involved)"""
    buf = bytearray(b"".join(bytes.fromhex(h) for h in recipe["buffer"]))
    for op, off, val in recipe.get("ops", []):
        data = bytes([val]) if op == "set_byte" else bytes.fromhex(val)
        if off > len(buf):
            buf += bytes(off - len(buf))
        buf[off: off + len(data)] = data
    cur = bytes(buf)
    for a, b in recipe.get("windows", []):
        cur = cur[a:b].ljust(max(b - a, 0), b"\x00")
    return cur


def build_view_bytevec(recipe):
    h = H()
    ByteVec = h["ByteVec"]
    bv = ByteVec([bytes.fromhex(x) for x in recipe["buffer"]])
    for op, off, val in recipe.get("ops", []):
        if op == "set_byte":
            bv.set_byte(off, val)
        elif op == "set_slice":
            data = bytes.fromhex(val)
            bv.set_slice(off, off + len(data), data)
        elif op == "setitem":
            data = bytes.fromhex(val)
            bv[off: off + len(data)] = data
        elif op == "set_word":
            bv.set_word(off, int.from_bytes(bytes.fromhex(val), "big"))
        else:
            raise ValueError(op)
    for a, b in recipe.get("windows", []):
        bv = bv.slice(a, b)
    return bv


def pieces_of_bytevec(bv):
    """the chunk list `Contract.__init__` is handed (concrete chunks only)"""
    h = H()
    out = []
    z3 = h["z3"]
    for _, ch in bv.chunks.items():
        if isinstance(ch, h["ConcreteChunk"]):
            out.append(("c", bytes(ch.unwrap())))
        elif isinstance(ch, h["SymbolicChunk"]) and z3.is_const(ch.data) and ch.data.decl().kind() == z3.Z3_OP_UNINTERPRETED:
            # a window into a named symbolic value (e.g. the calldata blob)
            out.append(("v", (ch.data.decl().name(), ch.data.size() // 8, ch.start, ch.length)))
        else:
            raise RuntimeError(f"view route produced a chunk the harness cannot name: {ch!r}")
    return out


class ViewCase(Case):
    """recipe = {"buffer": [hex…] initial chunks, "ops": [[set_byte|set_slice|setitem|set_word, off, val]…],
                 "windows": [[a, b]…] successive ByteVec.slice calls, "tail": n unknown bytes appended afterwards,
                 "memory": optional hex of an init program run on the real SEVM whose RETURN data is the code}"""

    def __init__(self, recipe, bv=None, expected=None):
        self.recipe = recipe
        self._bv = bv if bv is not None else build_view_bytevec(recipe)
        self.expected = expected if expected is not None else apply_view_reference(recipe)
        pieces = pieces_of_bytevec(self._bv)
        tail = recipe.get("tail", 0)
        if tail:
            pieces.append(("s", tail))
        Case.__init__(self, pieces, "view")
        self.pieces = pieces          # keep empty chunks etc. exactly as found
        got = b"".join(v for k, v in pieces if k == "c")
        self.content_ok = got == self.expected or any(k == "v" for k, _ in pieces)

    def key(self):
        return "view|" + json.dumps(self.recipe, sort_keys=True)

    def to_json(self):
        return {"view": self.recipe}

    def build(self):
        h = H()
        z3 = h["z3"]
        bv = self._bv.copy() if hasattr(self._bv, "copy") else self._bv
        names = []
        pos = 0
        for k, v in self.pieces:
            if k == "v":
                names.append((v[0], v[1], pos, v[2], v[3]))
                pos += v[3]
            elif k == "c":
                pos += len(v)
        tail = self.recipe.get("tail", 0)
        if tail:
            pos = self.n - tail
            nm = f"c19_s{pos}_{tail}"
            bv.append(z3.BitVec(nm, 8 * tail))
            names.append((nm, tail, pos))
        return h["Contract"](bv), names


def memory_view_case(sevmdrv, sevm, args, template, patches, ret, calldata=None):
    """assemble code in memory the way a constructor does, on the real SEVM:
       CODECOPY(0, off, len(template)); MSTORE8/MSTORE patches; RETURN(ret[0], ret[1]).  The template sits in the middle of
       the init program's own code (followed by more code bytes).  Returns a ViewCase over the RETURN data."""
    def push(v):
        if v == 0:
            return bytes([0x5F])
        b = v.to_bytes((v.bit_length() + 7) // 8, "big")
        return bytes([0x5F + len(b)]) + b

    def prog(toff):
        out = push(len(template)) + bytes([0x61]) + toff.to_bytes(2, "big") + bytes([0x5F, 0x39])
        for kind, off, val in patches:
            out += push(val) + push(off) + bytes([0x53 if kind == "mstore8" else 0x52])
        if calldata is not None:
            # constructor arguments: CALLDATACOPY(dest, offset, size) from one symbolic calldata blob
            blob_len, cd_off, cd_size, dest = calldata
            out += push(cd_size) + push(cd_off) + push(dest) + bytes([0x37])
        out += push(ret[1]) + push(ret[0]) + bytes([0xF3])
        return out
    toff = len(prog(0))
    init = prog(toff) + template + bytes([0x00, 0x5B])
    cd = None
    if calldata is not None:
        h = H()
        cd = h["ByteVec"](h["z3"].BitVec(f"c19_calldata_{calldata[0]}", 8 * calldata[0]))
    exs = list(sevm.run(sevmdrv.mk_ex(sevm, args, init, calldata=cd)))
    if len(exs) != 1 or exs[0].context.output.error is not None:
        raise RuntimeError(f"memory route: init program did not return: {init.hex()}")
    data = exs[0].context.output.data
    mem = bytearray(template)
    for kind, off, val in patches:
        b = bytes([val & 0xFF]) if kind == "mstore8" else val.to_bytes(32, "big")
        if off + len(b) > len(mem):
            mem += bytes(off + len(b) - len(mem))
        mem[off: off + len(b)] = b
    expected = bytes(mem[ret[0]: ret[0] + ret[1]]).ljust(ret[1], b"\x00")
    recipe = {"memory": init.hex(), "buffer": [], "note": "RETURN data of this init program on the real SEVM"}
    if calldata is not None:
        recipe["calldata"] = calldata[0]
    return ViewCase(recipe, bv=data, expected=expected)


VIEW_DIRECTED = {
    "view-push1-patched-to-jumpdest": {"buffer": ["5b605b00"], "ops": [["set_byte", 1, 0x5B]]},
    "view-jumpdest-patched-to-push1": {"buffer": ["5b5b5b00"], "ops": [["set_byte", 1, 0x60]]},
    "view-patched-push20-operand": {"buffer": ["73" + "00" * 20 + "5b00"],
                                    "ops": [["set_slice", 1, "c0ffee254729296a45a3885639ac7e10f9d54979"]]},
    "view-prefix-of-larger-buffer": {"buffer": ["5b61aabbccdd5b"], "windows": [[0, 3]]},
    "view-window-not-at-zero": {"buffer": ["605b61aabbccdd5b5b"], "windows": [[1, 6]]},
    "view-set-word-over-push32": {"buffer": ["7f" + "5b" * 32 + "5b00"], "ops": [["set_word", 1, "00" * 31 + "60"]]},
    "view-patch-at-end-of-first-chunk": {"buffer": ["605b5b", "5b00"], "ops": [["set_slice", 2, "60"]]},
    "view-slice-of-slice": {"buffer": ["00" * 4 + "5b605b5b00ff"], "ops": [["set_byte", 5, 0x5B]], "windows": [[2, 12], [2, 7]]},
}


def gen_view_cases(ctx, rng, pool):
    cases = []
    alpha = [b for b in ALPHABET if b is not None]
    Lv = ctx.scale(3, 5)
    # exhaustive: every concrete string up to Lv, every single-byte patch position, and as a prefix / inner window of a buffer
    for n in range(1, Lv + 1):
        for s_ in itertools.product(alpha, repeat=n):
            s_ = bytes(s_)
            for i in range(n):
                t = bytearray(s_)
                t[i] = _alt(s_[i])
                cases.append(ViewCase({"buffer": [bytes(t).hex()], "ops": [["set_byte", i, s_[i]]]}))
            cases.append(ViewCase({"buffer": [(s_ + bytes([0x5B, 0x60, 0xFF, 0x5B])).hex()], "windows": [[0, n]]}))
            cases.append(ViewCase({"buffer": [(bytes([0x60]) + s_ + bytes([0x5B, 0x5B])).hex()], "windows": [[1, n + 1]]}))
    ctx.extra["exhaustive_views"] = f"concrete strings up to length {Lv}: every set_byte patch position, prefix window, inner window"
    # random: several ops of several kinds, windows, symbolic tail
    for _ in range(ctx.scale(450, 6000)):
        n = rng.randrange(2, 12) if rng.random() < 0.7 else rng.randrange(12, 80)
        final = bytes(rng.choice(pool) if rng.random() < 0.6 else rng.choice(alpha) for _ in range(n))
        t = bytearray(final)
        ops = []
        for _ in range(rng.choice((1, 1, 2, 3))):
            kind = rng.choice(("set_byte", "set_slice", "setitem", "set_slice", "set_word"))
            if kind == "set_byte":
                i = rng.randrange(n)
                t[i] = _alt(final[i])
                ops.append(["set_byte", i, final[i]])
            elif kind in ("set_slice", "setitem"):
                i = rng.randrange(n)
                ln = min(n - i, rng.choice((1, 1, 2, 3, 20, 32)))
                for j in range(i, i + ln):
                    t[j] = _alt(final[j])
                ops.append([kind, i, final[i: i + ln].hex()])
            elif n >= 32:
                i = rng.randrange(n - 31)
                for j in range(i, i + 32):
                    t[j] = _alt(final[j])
                ops.append(["set_word", i, final[i: i + 32].hex()])
        # later ops must not be undone by the template of earlier ones: recompute the ops' data from `final` (done) and apply in order
        cut = rng.choice((0, 0, 1)) * rng.randrange(1, n) if n > 1 else 0
        buffer = [bytes(t).hex()] if not cut else [bytes(t[:cut]).hex(), bytes(t[cut:]).hex()]
        recipe = {"buffer": buffer, "ops": ops}
        r = rng.random()
        if r < 0.35:
            extra = bytes(rng.choice((0x5B, 0x60, 0xFF, 0x7F)) for _ in range(rng.randrange(1, 5)))
            recipe["buffer"] = buffer[:-1] + [buffer[-1] + extra.hex()]
            k = rng.randrange(1, n + 1)
            recipe["windows"] = [[0, k]] if rng.random() < 0.7 else [[0, n], [0, k]]
        elif r < 0.5:
            a = rng.randrange(0, n)
            recipe["windows"] = [[a, rng.randrange(a, n + 3)]]
        if rng.random() < 0.15:
            recipe["tail"] = rng.randrange(1, 4)
        cases.append(ViewCase(recipe))
    return cases


def view_section(ctx, rng, pool, lean):
    from vlib import sevmdrv
    cases = [ViewCase(r) for r in VIEW_DIRECTED.values()]
    cases += gen_view_cases(ctx, rng, pool)
    # memory-assembled code on the real SEVM (constructor style)
    sevm, args = sevmdrv.mk_sevm(depth=TRACE_DEPTH)
    alpha = [b for b in ALPHABET if b is not None]
    mem_cases = []
    for _ in range(ctx.scale(60, 600)):
        n = rng.randrange(2, 40)
        template = bytes(rng.choice(alpha + [0x5B, 0x60]) for _ in range(n))
        patches = []
        for _ in range(rng.choice((1, 1, 2))):
            if rng.random() < 0.75:
                patches.append(("mstore8", rng.randrange(n), rng.choice((0x5B, 0x60, 0x61, 0x00, 0x7F))))
            else:
                patches.append(("mstore", rng.randrange(max(1, n - 8)), rng.getrandbits(256) | (0x5B << 248)))
        total = max([n] + [off + (1 if k == "mstore8" else 32) for k, off, _ in patches])
        a = rng.choice((0, 0, 0, rng.randrange(total)))
        ret = (a, rng.choice((total - a, n - a if n > a else 1, rng.randrange(1, total - a + 1))))
        mem_cases.append(memory_view_case(sevmdrv, sevm, args, template, patches, ret))
    for _ in range(ctx.scale(40, 400)):
        n = rng.randrange(1, 24)
        template = bytes(rng.choice(alpha + [0x60, 0x61, 0x67, 0x7F, 0x7F]) for _ in range(n))
        blob = rng.choice((36, 40, 68, 100))
        cd_off = rng.choice([o for o in (4, 4, 4, 1, 5, 32, 36) if o < blob - 1])
        cd_size = rng.randrange(1, min(blob - cd_off, 40) + 1)
        dest = n if rng.random() < 0.8 else max(n - 1, 0)
        total = dest + cd_size
        a = rng.choice((0, 0, 0, rng.randrange(total)))
        ret = (a, rng.choice((total - a, rng.randrange(1, total - a + 1), total - a + 2)))
        try:
            mem_cases.append(memory_view_case(sevmdrv, sevm, args, template, [], ret, calldata=(blob, cd_off, cd_size, dest)))
            ctx.count("view:memory-assembled:calldata-tail")
        except RuntimeError as e:
            if "cannot name" not in str(e):
                raise
            ctx.count("view:memory-assembled:skipped-unnamed-chunk")
    ctx.count("view:memory-assembled", len(mem_cases))
    cases += mem_cases
    good = []
    for c in cases:
        if not c.content_ok:
            ctx.violation("view:bytevec-content-differs",
                          f"the ByteVec handed to Contract holds {b''.join(v for k, v in c.pieces if k == 'c').hex()}, the operations "
                          f"denote {c.expected.hex()} ({c.key()[:200]})", c.to_json())
        else:
            good.append(c)
        f = c.fast_len()
        first = next((ch for _, ch in c._bv.chunks.items()), None)
        if first is not None and hasattr(first, "data") and isinstance(first.data, bytes):
            ctx.count("view:first-chunk:" + ("window-at-0-shorter-than-buffer" if first.start == 0 and len(first) < len(first.data)
                                               else "window-not-at-0" if first.start != 0 else "whole-buffer"))
    ctx.count("view:symbolic-window-start-nonzero", sum(1 for c in good for k, v in c.pieces if k == "v" and v[2] != 0))
    run_cases(ctx, [c for c in good if c.n <= 12], rng, True, "views-small")
    run_cases(ctx, [c for c in good if c.n > 12], rng, False, "views-medium", extra_slices_fn=lambda case: _view_slices(case, rng))


def _view_slices(case, rng):
    f = case.fast_len() or 0
    n = case.n
    marks = sorted({0, 1, max(f - 1, 0), f, f + 1, max(n - 1, 0), n, n + 1})
    out = {(a, z) for a in marks for z in (0, 1, 2, 20, 32, 33)}
    out |= {(a, b - a) for a in marks for b in marks if b >= a}
    lst = sorted(out)
    rng.shuffle(lst)
    return tuple(lst[:30])


# --------------------------------------------------------------------------------------------------------------------
# CODECOPY / EXTCODECOPY on the real SEVM: reads beyond the end of the code (also far beyond) copy zeros and continue

def _push(v):
    if v == 0:
        return bytes([0x5F])
    b = v.to_bytes((v.bit_length() + 7) // 8, "big")
    return bytes([0x5F + len(b)]) + b


CODECOPY_EXT_ADDR = 0xAAAA0001


def codecopy_program(op, offset, size, dest, ext=b""):
    """mem[0:32] = ff…ff ; (EXT)CODECOPY(dest, offset, size) ; MLOAD(0) ; STOP  -> final stack = [mem[0:32]]"""
    code = bytes([0x7F]) + b"\xff" * 32 + bytes([0x5F, 0x52]) + _push(size) + _push(offset) + _push(dest)
    code += (_push(CODECOPY_EXT_ADDR) + bytes([0x3C])) if op == "extcodecopy" else bytes([0x39])
    code += bytes([0x5F, 0x51, 0x00])
    return code


def offset_class(offset, n):
    if offset >= (1 << 20) - 33:
        for nm, v in (("2^256-1", (1 << 256) - 1), ("2^255", 1 << 255), ("2^64", 1 << 64), ("2^32", 1 << 32)):
            if offset >= v:
                return "far:" + nm
        return "far:2^20" + ("-" if offset < (1 << 20) else "+" if offset > (1 << 20) else "")
    return "inside" if offset < n else ("at-end" if offset == n else "past-end")


def codecopy_jobs(ctx, rng):
    jobs = []
    d = VERIF / "corpus" / ID
    if d.is_dir():
        for p in sorted(d.glob("*.json")):
            try:
                r = json.loads(p.read_text())
            except Exception:  # noqa: BLE001
                continue
            r = r.get("replay", r)
            if "codecopy" in r:
                c = r["codecopy"]
                jobs.append((c["op"], int(c["offset"], 16), c["size"], c["dest"], bytes.fromhex(c.get("ext", ""))))
    ctx.count("sevm-codecopy:corpus", len(jobs))
    exts = [bytes.fromhex("5b6001aabbccdd"), bytes.fromhex("7f" + "11" * 10), b"\x5b" * 40, b""]
    for op in ("codecopy", "extcodecopy"):
        for off in FAR_STARTS:
            for size in (1, 32):
                jobs.append((op, off, size, 0, exts[0]))
    for _ in range(ctx.scale(120, 1200)):
        op = rng.choice(("codecopy", "extcodecopy"))
        ext = rng.choice(exts)
        n = len(ext) if op == "extcodecopy" else 60
        off = rng.choice(FAR_STARTS + [0, 1, 2, max(n - 1, 0), n, n + 1, max(n - 5, 0), 33, 34, rng.randrange(0, 80)])
        dest = rng.choice((0, 0, 3, 31))
        size = rng.choice((1, 2, 5, 29, 32, 33, 1000))
        jobs.append((op, off, size, dest, ext))
    return jobs


def check_codecopy(ctx, job, reply, sevmdrv, sevm, args):
    h = H()
    op, offset, size, dest, ext = job
    from halmos.utils import con_addr
    code = codecopy_program(op, offset, size, dest, ext)
    src = ext if op == "extcodecopy" else code
    assert reply.startswith("ok "), reply
    data = b"" if reply[3:] == "-" else bytes.fromhex(reply[3:])
    mem = bytearray(b"\xff" * 32)
    mem[dest: dest + len(data)] = data
    expected = int.from_bytes(bytes(mem[:32]), "big")
    cls = f"{op}:{offset_class(offset, len(src))}"
    replay = {"codecopy": {"op": op, "offset": hex(offset), "size": size, "dest": dest, "ext": ext.hex()}}
    try:
        exs = list(sevm.run(sevmdrv.mk_ex(sevm, args, code, extra_code={con_addr(CODECOPY_EXT_ADDR): h["Contract"](ext)})))
    except Exception as e:  # noqa: BLE001
        ctx.violation(f"sevm-codecopy:{cls}:exception:{type(e).__name__}", f"SEVM.run raised {type(e).__name__}: {e} on {code.hex()}", replay)
        return True
    got = []
    for ex in exs:
        err = ex.context.output.error
        if err is not None:
            got.append(("err", type(err).__name__))
        else:
            st = [getattr(x, "value", x) for x in ex.st.stack]
            got.append(("stop", tuple(v if isinstance(v, int) else "sym" for v in st)))
    ctx.count("sevm-codecopy:" + cls)
    ctx.case(("sevm-codecopy", op, offset, size, dest, ext))
    if got != [("stop", (expected,))]:
        what = got[0][1] if got and got[0][0] == "err" else "wrong-bytes"
        ctx.violation(f"sevm-codecopy:{cls}:{what}",
                      f"{op.upper()}(dest={dest}, offset={offset:#x}, size={size}) on code of {len(src)} bytes: the EVM copies "
                      f"{data[:40].hex()}{'…' if len(data) > 40 else ''} and continues (mem[0:32] = {expected:#066x}); SEVM.run gave {got}",
                      replay)
        return True
    return False


def sevm_codecopy_section(ctx, rng, lean):
    from vlib import sevmdrv
    sevm, args = sevmdrv.mk_sevm()
    jobs = codecopy_jobs(ctx, rng)
    lines = []
    for op, offset, size, dest, ext in jobs:
        src = ext if op == "extcodecopy" else codecopy_program(op, offset, size, dest, ext)
        lines.append(f"spec-read {src.hex() or '-'} {offset} {size}")
    replies = lean.ask(lines)
    for job, rep_ in zip(jobs, replies, strict=True):
        check_codecopy(ctx, job, rep_, sevmdrv, sevm, args)


# --------------------------------------------------------------------------------------------------------------------
# JUMP with a SYMBOLIC destination (option symbolic_jump): one path per feasible valid JUMPDEST, plus an invalid-jump
# halt whenever some feasible value is not a valid JUMPDEST

SYMJUMP_DIRECTED = {
    # PUSH0 CALLDATALOAD JUMP ; PUSH1 0x5b ; JUMPDEST ; STOP      (exactly one valid JUMPDEST; 4 is a 0x5b inside PUSH data)
    "one-jumpdest-and-push-data-5b": ("5f3556" "605b" "5b00", None, None),
    "two-jumpdests": ("5f3556" "5b5800" "605b" "5b5800", None, None),
    "no-jumpdest": ("5f3556" "605b" "00", None, None),
    # masked: target = calldata & 0x0f
    "masked-one-jumpdest": ("5f35" "600f16" "56" "605b" "5b5800" "00" * 8 + "5b5800", 0x0F, None),
    # target = (calldata & 1) + K with JUMPDESTs at both K and K+1: no invalid value is feasible
    "all-feasible-values-valid": ("5f35" "600116" "600b01" "56" "0000" "5b5b5800", 0x01, 0x0B),
    "single-feasible-value-valid": ("5f35" "600016" "600a01" "56" "00" "5b5800", 0x00, 0x0A),
}


def gen_symjump_program(rng):
    """-> (code, mask|None, offset|None): target = calldata word [& mask] [+ offset]"""
    variant = rng.choice(("plain", "plain", "mask", "mask", "mask+off", "mask+off", "dense"))
    mask = off = None
    pro = bytes([0x5F, 0x35])
    if variant == "mask":
        mask = rng.choice((0x07, 0x0F, 0x1F, 0x3F, 0x18, 0x0C, 0x09, 0x21))
        pro += bytes([0x60, mask, 0x16])
    elif variant in ("mask+off", "dense"):
        mask = rng.choice((0x00, 0x01, 0x03, 0x07, 0x05)) if variant == "mask+off" else rng.choice((0x00, 0x01, 0x03))
        off = 9 + (rng.randrange(0, 6) if variant == "mask+off" else 0)
        pro += bytes([0x60, mask, 0x16, 0x60, off, 0x01])
    pro += bytes([0x56])
    blocks = [bytes([0x5B, 0x58, 0x00]), bytes([0x5B, 0x58, 0x00]), bytes([0x5B, 0x5B, 0x58, 0x00]), bytes([0x5B]),
              bytes([0x60, 0x5B]), bytes([0x61, 0x5B, 0x5B]), bytes([0x00]), bytes([0x58]), bytes([0x00, 0x00, 0x00]),
              bytes([0x7F]) + bytes([0x5B] * 32), bytes([0x62, 0x5B, 0x58, 0x00]), bytes([0x5F])]
    nb = rng.choice((1, 2, 2, 3, 4, 6))
    body = b"".join(rng.choice(blocks) for _ in range(nb))
    if variant != "dense" and rng.random() < 0.65:
        body = rng.choice((bytes([0x5B, 0x58, 0x00]), bytes([0x60, 0x5B, 0x5B, 0x58, 0x00]), bytes([0x00, 0x5B, 0x58, 0x00]),
                           bytes([0x5B, 0x58, 0x5B, 0x58, 0x00]))) + body
    if variant == "dense":
        # every feasible value is a valid JUMPDEST: no invalid-jump halt may be reported
        body = bytes([0x5B] * (mask + 1)) + bytes([0x58, 0x00]) + body
    if rng.random() < 0.3:
        body += rng.choice((bytes([0x60]), bytes([0x5B]), bytes([0x7F, 0x5B])))
    return pro + body, mask, off


def symjump_domain(code, mask, off):
    """concrete calldata words that represent every feasible destination class"""
    if mask is None:
        return list(range(len(code) + 2)) + [1 << 255, (1 << 256) - 1, 1 << 16]
    subs, sub = [], mask
    while True:              # all submasks of mask
        subs.append(sub)
        if sub == 0:
            break
        sub = (sub - 1) & mask
    return sorted(subs)


def sevm_symjump_section(ctx, rng, lean):
    h = H()
    from vlib import sevmdrv
    z3 = h["z3"]
    ByteVec, Contract = h["ByteVec"], h["Contract"]
    sevm, args = sevmdrv.mk_sevm(symbolic_jump=True, depth=TRACE_DEPTH)
    progs = [("directed:" + k, bytes.fromhex(c), m, o) for k, (c, m, o) in SYMJUMP_DIRECTED.items()]
    d = VERIF / "corpus" / ID
    if d.is_dir():
        for p in sorted(d.glob("*.json")):
            try:
                r = json.loads(p.read_text())
            except Exception:  # noqa: BLE001
                continue
            r = r.get("replay", r)
            if "symjump" in r:
                c = r["symjump"]
                progs.append(("corpus:" + p.stem, bytes.fromhex(c["code"]), c.get("mask"), c.get("offset")))
    seen = {c for _, c, _, _ in progs}
    for i in range(ctx.scale(140, 1500)):
        code, m, o = gen_symjump_program(rng)
        if code not in seen:
            seen.add(code)
            progs.append((f"random:{i}", code, m, o))
    lines, index = [], []
    for name, code, m, o in progs:
        dom = symjump_domain(code, m, o)
        index.append((len(lines), dom))
        lines += [f"spec-run {code.hex()} 0 {TRACE_FUEL} {w:x}" for w in dom]
    replies = lean.ask(lines)
    for (name, code, m, o), (base, dom) in zip(progs, index, strict=True):
        runs = [parse_run(replies[base + j]) for j in range(len(dom))]
        check_symjump(ctx, name, code, m, o, dom, runs, sevmdrv, sevm, args)


def check_symjump(ctx, name, code, m, o, dom, runs, sevmdrv, sevm, args):
    h = H()
    z3 = h["z3"]
    if any(r["halt"] in ("fuel", "unsupported") for r in runs):
        ctx.count("sevm-symjump:skipped")
        return False
    # group the reference outcomes: each valid destination is its own path; all invalid values share one invalid-jump halt
    by_dest = {}
    invalid = None
    for w, r in zip(dom, runs, strict=True):
        dest = (w & m if m is not None else w) + (o or 0)
        out = outcome_of_spec(r)
        if r["halt"] == "invalidjump" and r["trace"] and code[r["trace"][-1]] == 0x56 and len(r["trace"]) <= 8:
            invalid = out
        else:
            by_dest.setdefault(dest, out)
    expected = sorted(list(by_dest.values()) + ([invalid] if invalid is not None else []), key=repr)
    cd = h["ByteVec"](z3.BitVec("c19_cd", 256))
    replay = {"symjump": {"code": code.hex(), "mask": m, "offset": o}, "name": name}
    nvalid = len(by_dest)
    cls = f"{min(nvalid, 4)}{'+' if nvalid > 4 else ''}-valid-feasible:{'invalid-feasible' if invalid is not None else 'no-invalid-feasible'}"
    try:
        got = []
        for ex in sevm.run(sevmdrv.mk_ex(sevm, args, h["Contract"](code), calldata=cd)):
            err = ex.context.output.error
            if err is None:
                vals = []
                for x in reversed(ex.st.stack):
                    v = getattr(x, "value", x)
                    vals.append(v if isinstance(v, int) and not isinstance(v, bool) else "sym")
                got.append(("stop", ex.pc, tuple(vals)))
            else:
                nm = type(err).__name__
                got.append((_ERRMAP.get(nm, nm), ex.pc, None))
        got = sorted(got, key=repr)
    except Exception as e:  # noqa: BLE001
        ctx.violation(f"sevm-symjump:{cls}:exception:{type(e).__name__}", f"SEVM.run raised {type(e).__name__}: {e} on {code.hex()}", replay)
        return True
    ctx.count("sevm-symjump:" + cls)
    ctx.case(("sevm-symjump", code, m, o))
    if got == expected:
        return False
    missing = list(expected)
    extra = []
    for g in got:
        if g in missing:
            missing.remove(g)
        else:
            extra.append(g)
    kinds = []
    if any(x[0] == "invalidjump" for x in missing):
        kinds.append("invalid-jump-halt-missing")
    if any(x[0] != "invalidjump" for x in missing):
        kinds.append("valid-destination-path-missing")
    if any(x[0] == "invalidjump" for x in extra):
        kinds.append("spurious-invalid-jump")
    if any(x[0] != "invalidjump" for x in extra):
        kinds.append("spurious-path")
    ctx.violation(f"sevm-symjump:{cls}:{'+'.join(kinds) or 'differs'}",
                  f"symbolic JUMP (target = calldata word{'' if m is None else f' & {m:#x}'}{'' if o is None else f' + {o}'}) in "
                  f"{code.hex()} [{name}]: valid feasible destinations {sorted(by_dest)}, "
                  f"{'some' if invalid is not None else 'no'} feasible value is not a valid JUMPDEST; the EVM has outcomes {expected} "
                  f"(status, final pc, stack top first), SEVM.run gave {got}", replay)
    return True


# --------------------------------------------------------------------------------------------------------------------

def run_cases(ctx, cases, rng, small, label, extra_slices_fn=None):
    lean = ctx.lean("Code")
    B = 4000 if small else (200 if all(c.n <= 500 for c in cases) else 6)
    for i in range(0, len(cases), B):
        batch = cases[i: i + B]
        reqs, fins = [], []
        for case in batch:
            xs = extra_slices_fn(case) if extra_slices_fn else ()
            fins.append(check_case(ctx, case, rng, reqs, small=small, extra_slices=xs))
        replies = lean.ask(reqs)
        for case, fin in zip(batch, fins, strict=True):
            fin(replies)
            ctx.case(case.key())
            ctx.count(label)


def corpus_cases():
    d = VERIF / "corpus" / ID
    out = []
    if d.is_dir():
        for p in sorted(d.glob("*.json")):
            try:
                data = json.loads(p.read_text())
            except Exception:  # noqa: BLE001
                continue
            r = data.get("replay", data)
            if "view" in r:
                out.append(ViewCase(r["view"]))
            elif "pieces" in r:
                out.append(Case.from_json(r))
    return out


EIP1967_SLOT = "360894a13ba1a3210667c828492db98dca3e2076cc3735a920a3ca505d382bbc"

BUILTIN = [
    # (pieces, route) — boundary situations read off the code
    ([("c", bytes.fromhex("6003565b00"))], "bytes"),
    ([("c", bytes.fromhex("60055663015b000000"))], "hex"),
    ([("c", bytes.fromhex("7f"))], "bytes"),                                   # truncated PUSH32
    ([("c", bytes.fromhex("7f5b"))], "bvval"),
    ([("c", bytes.fromhex("61")), ("c", bytes.fromhex("5b5b5b"))], "bytevec"),   # PUSH2 straddles the fast prefix end
    ([("c", bytes.fromhex("7f")), ("s", 32), ("c", bytes.fromhex("5b00"))], "bytevec"),  # symbolic immutable as PUSH32 data
    ([("c", bytes.fromhex("60")), ("s", 1), ("c", bytes.fromhex("5b"))], "bytevec"),
    ([("s", 1), ("c", bytes.fromhex("5b"))], "bytevec"),
    ([("m", [0x60, 0x03, 0x56, 0x5B, 0x00, None])], "single"),                  # numerals in a symbolic chunk (test_sevm style)
    ([("c", bytes.fromhex("5b")), ("m", [0x5B, 0x5B])], "bytevec"),
    ([("c", b"")], "bytes"),
    ([("c", b""), ("c", bytes.fromhex("5b"))], "bytevec"),
    ([("s", 0), ("c", bytes.fromhex("5b60"))], "bytevec"),
    # PUSH32 <EIP-1967 implementation slot> (byte 0x76 = PUSH23 near its end) followed by real JUMPDESTs
    ([("c", bytes.fromhex("7f" + EIP1967_SLOT + "5b5b005b" + "00" * 24 + "5b5b"))], "bytes"),
    ([("c", bytes.fromhex("5b7f" + EIP1967_SLOT)), ("c", bytes.fromhex("5b545b00"))], "bytevec"),
    # unknown bytes that are windows (start != 0) into larger symbolic values: PUSH8 / PUSH2 operands inside / straddling them
    ([("c", bytes.fromhex("5b600067")), ("v", ("c19_blob_a", 36, 4, 32))], "bytevec"),
    ([("c", bytes.fromhex("61")), ("v", ("c19_blob_b", 8, 2, 3)), ("c", bytes.fromhex("5b"))], "bytevec"),
    ([("c", bytes.fromhex("7f")), ("v", ("c19_blob_c", 70, 33, 32)), ("c", bytes.fromhex("5b00"))], "bytevec"),
    ([("c", bytes.fromhex("60")), ("v", ("c19_blob_d", 3, 1, 2))], "bytevec"),
]


def _lap(ctx, label, t=[None]):
    now = time.time()
    if t[0] is not None:
        ctx.extra.setdefault("section_seconds", {})[label] = round(now - t[0], 1)
    t[0] = now


def correspond(ctx):
    del _STALE[:]
    _correspond(ctx)
    if _STALE:
        raise RuntimeError(f"{len(_STALE)} mismatches; first: {_STALE[0]}")


def _correspond(ctx):
    if hasattr(sys, "set_int_max_str_digits"):
        sys.set_int_max_str_digits(0)
    rng = ctx.rng
    _lap(ctx, "start")
    lits = harvest_literals()
    ctx.note(f"harvested literals (±1): {lits}")
    pool = byte_pool(lits)

    # 0. corpus + built-in boundary cases
    cc = corpus_cases()
    builtin = [Case(p, r) for p, r in BUILTIN]
    run_cases(ctx, cc + builtin, rng, True, "corpus+builtin")
    ctx.count("corpus", len(cc))

    _lap(ctx, "builtin")
    # 1. exhaustive small scope
    L = ctx.scale(4, 5)   # length 6 takes over an hour: the thorough budget is 20 min
    Lmixed = ctx.scale(3, 4)
    Lview = ctx.scale(3, 5)      # unknown runs backed by windows (start != 0) into larger symbolic values
    cases = []
    routes = ["bytes", "hex", "bytevec", "bvval", "hex0x"]
    idx = 0
    hash_idx = 0
    for n in range(0, L + 1):
        for s in itertools.product(ALPHABET, repeat=n):
            has_unknown = any(b is None for b in s)
            for split in range(0, n + 1):
                if ctx.tier == "quick" and not ctx.search and n == L and 0 < split < n \
                        and not any(b in (0x60, 0x61, 0x7F) for b in s[max(0, split - 2): split]) and (hash_idx := hash_idx + 1) % 2:
                    continue     # quick tier: at the longest length keep every split behind a PUSH (straddling) and every other one
                for tag, pieces in chunkings(list(s), split):
                    if tag == "mixed" and n > Lmixed:
                        continue
                    if tag == "view" and n > Lview and split != 0:
                        continue
                    if has_unknown is False and split in (0, n) and tag == "plain":
                        route = routes[idx % len(routes)]
                        idx += 1
                    else:
                        route = "bytevec"
                    cases.append(Case(pieces, route))
    # dedupe identical (pieces, route)
    seen, uniq = set(), []
    for c in cases:
        k = c.key()
        if k not in seen:
            seen.add(k)
            uniq.append(c)
    ctx.extra["exhaustive"] = True
    ctx.extra["exhaustive_scope"] = f"strings over {len(ALPHABET)} symbols up to length {L} x every split x 3 layouts (mixed layout up to {Lmixed}, symbolic-window layout up to {Lview}); "\
        + ("in the quick tier, at the longest length, interior splits not preceded by a PUSH are halved" if ctx.tier == "quick" else "")
    run_cases(ctx, uniq, rng, True, "exhaustive")

    _lap(ctx, "exhaustive")
    # 1a. code that is a view into patched / larger buffers (set_byte / set_slice / set_word / slice windows / memory-assembled)
    view_section(ctx, rng, pool, ctx.lean("Code"))

    _lap(ctx, "views")
    # 1b. random sample of the next lengths of the small scope (beyond the exhaustive bound)
    more = []
    for _ in range(ctx.scale(600, 6000)):
        n = rng.randrange(L + 1, 10)
        s = [rng.choice(ALPHABET + [0x5B, 0x60]) for _ in range(n)]
        split = rng.randrange(n + 1)
        lay = [p for _, p in chunkings(s, split)]
        more.append(Case(rng.choice(lay), "bytevec"))
    run_cases(ctx, more, rng, True, "small-random")

    # 1c. PUSH32 whose operand contains a PUSHn byte at every position, followed by JUMPDESTs right after and within 32 bytes
    combos = [(i, b) for i in range(32) for b in range(0x60, 0x80)]
    rng.shuffle(combos)
    p32 = []
    for i, b in combos[: ctx.scale(120, 1024)]:
        operand = bytearray(rng.choice((0x00, 0x00, 0x5B, 0x36)) for _ in range(32))
        operand[i] = b
        after = bytes([0x5B]) + bytes(rng.choice((0x00, 0x5B, 0x5B)) for _ in range(34))
        code = bytes([rng.choice((0x5B, 0x00))]) + bytes([0x7F]) + bytes(operand) + after
        cut = rng.choice((0, 1, 2, 2 + i, 34, 35))
        pieces = [("c", code)] if cut == 0 else [("c", code[:cut]), ("c", code[cut:])]
        p32.append(Case(pieces, "bytevec"))
    run_cases(ctx, p32, rng, False, "push32-with-push-byte-in-operand")

    _lap(ctx, "small-random")
    # 2. medium random strings with random chunkings (all pcs decoded, slices around the boundaries)
    def xs(case):
        f = case.fast_len()
        n = case.n
        marks = {0, 1, n - 1, n, n + 1}
        if f is not None:
            marks |= {f - 1, f, f + 1, f - 33, f - 32}
        marks = sorted(m for m in marks if m >= 0)
        out = set()
        for a in marks:
            for b in marks:
                if b >= a:
                    out.add((a, b - a))
            for z in (0, 1, 2, 32, 33):
                out.add((a, z))
        lst = sorted(out)
        rng.shuffle(lst)
        lst = lst[:34]
        # literals that occur in the source of the functions under test (±1), as starts and as sizes
        small_lits = [v for v in lits if v <= 5000]
        for _ in range(4):
            if small_lits:
                lst.append((rng.choice(small_lits), rng.choice(small_lits + [1, 32])))
        # the size limit of `slice` (only the refusing side: a 1 MiB read would be 2 MB of reply per case)
        lst.append((rng.randrange(n + 2), HALMOS_MAX_READ + 1))
        lst.append((rng.randrange(n + 2), rng.choice((255, 256, 257, 1000, 4096, 5000))))
        return tuple(lst)
    med = []
    for _ in range(ctx.scale(90, 800)):
        n = rng.choice((rng.randrange(1, 80), rng.randrange(30, 400)))
        s = random_code(rng, n, pool, rng.choice((0.0, 0.0, 0.02, 0.1)))
        med.append(Case(random_chunking(rng, s, [32, 33, 34, 64]), "bytevec"))
    lean = ctx.lean("Code")
    for i in range(0, len(med), 60):
        batch = med[i: i + 60]
        reqs, fins = [], []
        for case in batch:
            fins.append(check_case(ctx, case, rng, reqs, small=False, extra_slices=xs(case)))
        replies = lean.ask(reqs)
        for case, fin in zip(batch, fins, strict=True):
            fin(replies)
            ctx.case(case.key())
            ctx.count("medium-random")

    _lap(ctx, "medium-random")
    # 3. large random strings up to 4 KiB
    big = []
    for _ in range(ctx.scale(5, 40)):
        n = rng.choice((4096, rng.randrange(1000, 4097), rng.randrange(400, 4097)))
        s = random_code(rng, n, pool, rng.choice((0.0, 0.0, 0.001)))
        big.append(Case(random_chunking(rng, s, [32, 33, 1024, 4095]), "bytevec"))
    for i in range(0, len(big), 3):
        batch = big[i: i + 3]
        reqs, fins = [], []
        for case in batch:
            fins.append(check_case(ctx, case, rng, reqs, small=False, extra_slices=xs(case)))
        replies = lean.ask(reqs)
        for case, fin in zip(batch, fins, strict=True):
            fin(replies)
            ctx.case(case.key())
            ctx.count("large-random")

    _lap(ctx, "large-random")
    # 4. the real SEVM on jump programs
    sevm_section(ctx, rng, lits, lean)

    _lap(ctx, "sevm")
    # 4a. CODECOPY / EXTCODECOPY with offsets inside, at, past and far past the end of the code
    sevm_codecopy_section(ctx, rng, lean)

    _lap(ctx, "sevm-codecopy")
    # 4a'. JUMP with a symbolic destination under symbolic_jump=True
    sevm_symjump_section(ctx, rng, lean)

    _lap(ctx, "sevm-symjump")
    # 4b. where execution continues after a taken jump (destinations include pc 0, the last byte, right after a PUSH32)
    sevm_trace_section(ctx, rng, lean)

    _lap(ctx, "sevm-trace")
    # 5. the Lean counterexample of `accepts_every_known_jumpdest_cex`, replayed on the real code
    replay_numeral_witness(ctx)
    ctx.sample({"example_case": builtin[5].key(), "meaning": "PUSH32 whose 32 data bytes are one symbolic chunk, then JUMPDEST STOP"})


def replay_numeral_witness(ctx):
    """witness of Props.C19.accepts_every_known_jumpdest_cex: code = one symbolic chunk [num 0x5b, sym]"""
    h = H()
    z3 = h["z3"]
    c = h["Contract"](z3.Concat(z3.BitVecVal(0x5B, 8), z3.BitVec("c19_w", 8)))
    insn = c.decode_instruction(0)
    if insn.opcode == 0x5B and 0 not in c.valid_jumpdests():
        ctx.violation(KEY_NUM, "Contract(Concat(0x5b, x)): decode_instruction(0) is JUMPDEST but valid_jumpdests() is empty",
                      {"pieces": [["m", [0x5B, None]]], "route": "single"})


def replay(ctx, data) -> bool:
    r = data.get("replay", data)
    if "view" in r and "memory" in r["view"]:
        from vlib import sevmdrv
        sevm, args = sevmdrv.mk_sevm(depth=TRACE_DEPTH)
        cd = None
        if r["view"].get("calldata"):
            h = H()
            cd = h["ByteVec"](h["z3"].BitVec(f"c19_calldata_{r['view']['calldata']}", 8 * r["view"]["calldata"]))
        exs = list(sevm.run(sevmdrv.mk_ex(sevm, args, bytes.fromhex(r["view"]["memory"]), calldata=cd)))
        bv = exs[0].context.output.data
        case = ViewCase(r["view"], bv=bv, expected=b"".join(v for k, v in pieces_of_bytevec(bv) if k == "c"))
        before = len(ctx.violations)
        run_cases(ctx, [case], ctx.rng, case.n <= 12, "replay")
        for v in ctx.violations[before:]:
            print(f"  {v['key']}: {v['what']}")
        return len(ctx.violations) > before
    if "symjump" in r:
        from vlib import sevmdrv
        sevm, args = sevmdrv.mk_sevm(symbolic_jump=True, depth=TRACE_DEPTH)
        c = r["symjump"]
        code = bytes.fromhex(c["code"])
        dom = symjump_domain(code, c.get("mask"), c.get("offset"))
        reps = ctx.lean("Code").ask([f"spec-run {code.hex()} 0 {TRACE_FUEL} {w:x}" for w in dom])
        before = len(ctx.violations)
        check_symjump(ctx, r.get("name", "replay"), code, c.get("mask"), c.get("offset"), dom, [parse_run(x) for x in reps],
                      sevmdrv, sevm, args)
        for v in ctx.violations[before:]:
            print(f"  {v['key']}: {v['what']}")
        return len(ctx.violations) > before
    if "codecopy" in r:
        from vlib import sevmdrv
        sevm, args = sevmdrv.mk_sevm()
        c = r["codecopy"]
        job = (c["op"], int(c["offset"], 16), c["size"], c["dest"], bytes.fromhex(c.get("ext", "")))
        src = job[4] if job[0] == "extcodecopy" else codecopy_program(*job)
        rep_ = ctx.lean("Code").ask([f"spec-read {src.hex() or '-'} {job[1]} {job[2]}"])[0]
        before = len(ctx.violations)
        check_codecopy(ctx, job, rep_, sevmdrv, sevm, args)
        for v in ctx.violations[before:]:
            print(f"  {v['key']}: {v['what']}")
        return len(ctx.violations) > before
    if "sevm_trace" in r:
        from vlib import sevmdrv
        sevm, args = sevmdrv.mk_sevm(depth=TRACE_DEPTH)
        code = bytes.fromhex(r["sevm_trace"])
        rep = ctx.lean("Code").ask([f"spec-run {code.hex()} 0 {TRACE_FUEL}", f"spec-run {code.hex()} 1 {TRACE_FUEL}"])
        before = len(ctx.violations)
        check_trace_program(ctx, r.get("name", "replay"), code, (parse_run(rep[0]), parse_run(rep[1])), sevmdrv, sevm, args,
                            ctx.rng, layout=0)
        for v in ctx.violations[before:]:
            print(f"  {v['key']}: {v['what']}")
        return len(ctx.violations) > before
    if "sevm" in r:
        h = H()
        from vlib import sevmdrv
        sevm, args = sevmdrv.mk_sevm()
        code = bytes.fromhex(r["sevm"])
        rep = ctx.lean("Code").ask([f"spec-jump {code.hex()} {r['target']}"])[0]
        exs = list(sevm.run(sevmdrv.mk_ex(sevm, args, h["Contract"](code))))
        errs = [type(e.context.output.error).__name__ for e in exs if e.context.output.error is not None]
        rejected = "InvalidJumpDestError" in errs
        print(f"spec: {rep}; SEVM.run errors: {errs}")
        return (rep == "accepted") == rejected if r["kind"] != "jumpi0" else rejected
    case = Case.from_json(r)
    before = len(ctx.violations)
    run_cases(ctx, [case], ctx.rng, case.n <= 12, "replay")
    for v in ctx.violations[before:]:
        print(f"  {v['key']}: {v['what']}")
    return len(ctx.violations) > before
