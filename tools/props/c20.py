"""C20 — Tests are isolated from each other and results are deterministic.

Real code under test: halmos.__main__.run_contract / run_tests / run_test / run_message (the post-setUp Exec shared by all tests,
cached frontier states), SEVM.run_message and SEVM.create_branch / Path.branch / Path.extend_path (copies at fork sites),
halmos.utils.uid (fresh-symbol suffixes), the process-wide singletons and the unique-warning filter.
Three dynamic checks:
  (1) order / subset / repetition independence of per-test results through the real run_contract (regular and invariant tests);
  (2) independence from the uid stream (another injective stream: identical up to renaming; a constant stream: verdicts equal);
  (3) sibling-state isolation inside SEVM.run: every state waiting on the worklist is deep-fingerprinted when pushed and again
      when popped (after its siblings ran to completion).
Model + theorems: lean/HalmosVerif/Model/Heap.lean, Gen/CopyTable.lean (tools/extract/copy_table.py), Props/C20.lean.
"""
from __future__ import annotations

import contextlib
import io
import itertools
import json
import random
import re

from vlib import e2e
from vlib.runner import VERIF

ID = "C20"
EXTRACTORS = ["copy_table"]
LEAN_MODULES = ["HalmosVerif.Props.C20"]
RULE = (
    "(1) contracts from the C03 grammar with 3 (thorough: 4) tests, run through the real run_contract in every order (reordered "
    "artifact) and for every non-empty subset (--match-test), each configuration twice in one process (second time without "
    "resetting halmos' singletons), plus invariant scenarios from the C15 templates in every order of their invariants; per-test "
    "normalised results (verdict, path counts, model variable names with the uid stripped, values where the guard pins them, "
    "warnings) must be equal; (1b) three tests of identical shape `require(v<10); assert(v*v != c)` (c a non-square: valid, c a "
    "square: violable) under --cache-solver, plus the same two-test situation at the solver layer with the AST-id reuse made explicit "
    "(real FunctionContext/SolvingContext/solve_end_to_end of one ContractContext), (--solver-threads 1 and default) in every order, twice, against each test alone; (2) the same contracts with halmos.utils.uid (and every module-level alias) replaced by another "
    "injective stream and by a constant; (3) ~300 branching programs from vlib/proggen.py run by the real SEVM with every "
    "worklist state deep-fingerprinted at push and at pop; (4) config_isolation: up to 200 (thorough 1000) rounds of what run_tests does per test -- layer a "
    "function_annotation Config (with_overrides / real with_devdoc / with_natspec) with fresh --loop/--depth/--width values, read every option "
    "through attribute access, drop it, gc -- until addresses have been reused >= 25 times; every read must equal value_with_source and the "
    "overrides; (5) annotation_isolation: one contract with four loop tests each annotated `@custom:halmos --loop N` (contract natspec --loop 4), "
    "through the real run_contract in 5 (thorough 24) orders, twice each, against every test alone, with the loop bound each SEVM is built "
    "with observed. A case is distinct by (contract seed, configuration) / program."
)
TRUSTED = [
    "the in-place-mutation table of Model/Heap.lean is hand-made from reading sevm.py (validated only dynamically by check (3))",
    "the deep fingerprint (props/c20.py: fingerprint) covers the fields listed there; the shared z3 solver object is not fingerprinted",
]
ASSUMPTIONS = [
    "solvers are deterministic functions of the query text up to variable renaming for the guards whose values are compared (guards that pin every referenced argument)",
    "runs use --solver-timeout-branching 0: with the default 1 ms the set of explored infeasible paths (hence the path count) depends on wall-clock timing",
]

_UID = re.compile(r"_[0-9a-f]{7}(?=_\d\d\b|_?\b|$)")


def norm_name(n: str) -> str:
    return re.sub(r"_[0-9a-f]{7}(_\d\d)?$", lambda m: "_U" + (m.group(1) or ""), n)


def norm_text(s: str) -> str:
    s = re.sub(r"_[0-9a-f]{7}_(\d\d)\b", r"_U_\1", s)
    s = re.sub(r"_[0-9a-f]{7}\b", "_U", s)
    s = re.sub(r"\d+\.\d+s", "<t>", s)
    s = re.sub(r"/tmp/\S+", "<tmp>", s)
    return s


def norm_result(r, run, pinned: bool, with_values=True):
    models = []
    for m in (r.models or []):
        if m.model is None:
            models.append(("nomodel", m.result if hasattr(m, "result") else None))
            continue
        vs = sorted((norm_name(k), v.value if (pinned and with_values) else None) for k, v in m.model.items()
                    if not k.startswith("halmos_block_timestamp"))
        models.append((bool(m.is_valid), tuple(vs)))
    warns = sorted(norm_text(msg) for lv, msg in run.log if lv in ("WARNING", "ERROR", "CRITICAL") and r.name in msg)
    return {"exitcode": r.exitcode, "paths": tuple(r.num_paths or ()), "num_models": r.num_models,
            "loops": r.num_bounded_loops, "models": sorted(models, key=repr), "warnings": warns}


def pinned(chk) -> bool:
    tags = set(chk.why.split("|")[0].split("+"))
    return chk.reachable and tags <= {"eq", "storage", "add", "touch"}


# ------------------------------------------------------------------------------------------------ (1) order / subset / repetition


@contextlib.contextmanager
def no_singleton_reset():
    """the second run in a process as halmos itself would do it: nothing resets Mapper/BuildOut/… or the unique-warning filter"""
    from vlib import artifacts

    orig = artifacts.reset_halmos_state
    artifacts.reset_halmos_state = lambda: None
    try:
        yield
    finally:
        artifacts.reset_halmos_state = orig


def run_cfg(desc, others, **cfg):
    from vlib.artifacts import YICES_COMMAND, run_contract_offline

    # branching timeout 0 = none: with halmos' default of 1 ms the number of explored (infeasible) paths depends on timing
    return run_contract_offline(desc, others=others, solver_command=YICES_COMMAND, solver_timeout_assertion="20000ms",
                                solver_timeout_branching="0", **cfg)


def reorder(desc, order):
    """the same contract with its test functions in another order (setUp and helpers keep their place in front)"""
    from vlib.artifacts import TestContract

    tests = [f for f in desc.functions if f.sig.startswith(("check_", "invariant_"))]
    rest = [f for f in desc.functions if not f.sig.startswith(("check_", "invariant_"))]
    return TestContract(desc.name, rest + [tests[i] for i in order], natspec=desc.natspec, constructor=desc.constructor,
                        file=desc.file, fallback=desc.fallback)


THOROUGH_BUDGET_S = 900


def over_budget(ctx) -> bool:
    import time

    if ctx.tier == "quick" or time.time() - ctx.t0 < THOROUGH_BUDGET_S:
        return False
    if not ctx.hist.get("budget-stop"):
        ctx.count("budget-stop")
    return True


def compare(ctx, what, base, got, label, replay, rerun=None):
    """base/got: {test: normalised}; every test present in `got` must equal its baseline. A solver time-out is never a verdict
    (skipped); a difference is reported only if it shows again when the configuration is run once more (`rerun`)."""
    if rerun is not None and any(t in base and 2 not in (n["exitcode"], base[t]["exitcode"]) and n != base[t] for t, n in got.items()):
        ctx.count("compare:difference-rechecked")
        got = rerun()
    for t, n in got.items():
        if t not in base:
            continue
        if 2 in (n["exitcode"], base[t]["exitcode"]):
            ctx.count("compare:skipped-timeout")
            continue
        if n != base[t]:
            diff = [k for k in n if n[k] != base[t][k]]
            ctx.violation(f"{what}|differs:{'+'.join(diff)}",
                          f"{label}: {t}: {', '.join(f'{k}: {base[t][k]!r} -> {n[k]!r}' for k in diff)}"[:1500], replay)


def check_orders(ctx, seed, ntests, name, pool):
    # refinement guards are slow (time-outs would make the comparison flaky) and add nothing here
    gen = e2e.gen_contract(random.Random(seed), name=name, ntests=ntests, pool=pool, refine=False, touch=True)
    pins = {c.canon: pinned(c) for c in gen.checks}
    replay = {"kind": "orders", "seed": seed, "ntests": ntests, "name": name, "pool": list(pool)}

    def normed(run):
        return {r.name: norm_result(r, run, pins.get(r.name, False)) for r in run.results}

    base_run = run_cfg(gen.desc, gen.others)
    base = normed(base_run)
    names = [c.canon for c in gen.checks]
    if [r.name for r in base_run.results] != names:
        raise RuntimeError(f"unexpected execution order {[r.name for r in base_run.results]} vs {names}")
    for t in names:
        ctx.count(f"orders:verdict:{base[t]['exitcode']}")
    nconf = 0
    for order in itertools.permutations(range(ntests)):
        d2 = reorder(gen.desc, order)
        for rep in range(2):
            with (no_singleton_reset() if rep else contextlib.nullcontext()):
                run = run_cfg(d2, gen.others)
            got_order = [r.name for r in run.results]
            if got_order != [names[i] for i in order]:
                raise RuntimeError(f"execution order did not follow the artifact: {got_order}")
            ctx.case(f"order|{seed}|{order}|{rep}")
            nconf += 1
            compare(ctx, "order-dependent-result" if not rep else "repeat-in-process-result", base, normed(run),
                    f"{name} seed {seed} order {order} rep {rep}", dict(replay, order=list(order), rep=rep),
                    rerun=lambda d2=d2: normed(run_cfg(d2, gen.others)))
    for k in range(1, ntests + 1):
        for sub in itertools.combinations(range(ntests), k):
            rx = "|".join(re.escape(gen.checks[i].name) + r"\(" for i in sub)
            for rep in range(2):
                with (no_singleton_reset() if rep else contextlib.nullcontext()):
                    run = run_cfg(gen.desc, gen.others, match_test=f"^({rx})")
                if sorted(r.name for r in run.results) != sorted(names[i] for i in sub):
                    raise RuntimeError(f"subset selection failed: {[r.name for r in run.results]} for {sub}")
                ctx.case(f"subset|{seed}|{sub}|{rep}")
                nconf += 1
                compare(ctx, "subset-dependent-result" if not rep else "repeat-in-process-result", base, normed(run),
                        f"{name} seed {seed} subset {sub} rep {rep}", dict(replay, subset=list(sub), rep=rep),
                        rerun=lambda rx=rx: normed(run_cfg(gen.desc, gen.others, match_test=f"^({rx})")))
    ctx.count("orders:configurations", nconf)
    return gen, base


def check_invariant_orders(ctx, seed, tmpl, depth):
    from props import c15

    it = c15.make_item(seed, tmpl, depth)
    scn = it["scn"]
    desc, others = scn.build()
    replay = {"kind": "inv-orders", "seed": seed, "tmpl": tmpl, "depth": depth}

    def normed(run):
        # + the reported call sequences of every test: (target, function) per call, as a sorted list over its counterexamples
        reports = c15.parse_reports(run.stdout)
        out = {}
        for r in run.results:
            nr = norm_result(r, run, False)
            seqs = sorted(tuple((c[0], c[1]) for c in blk["calls"]) for blk in reports.get(r.name, []) if not blk["probe"])
            nr["sequences"] = seqs
            for sq in seqs:
                if len(sq) > depth:
                    ctx.violation(f"call-sequence-longer-than-depth|{scn.kind}",
                                  f"{scn.name}.{r.name}: reported sequence {sq} has {len(sq)} calls at invariant_depth={depth}",
                                  dict(replay))
            out[r.name] = nr
        return out

    base = normed(run_cfg(desc, others, invariant_depth=depth))
    n = len(scn.invs)
    # the printed sequences must be real paths from setUp: replay them on the reference EVM, for the original and the reversed order
    rev = c15.make_item(seed, tmpl, depth)
    rev["scn"].invs = list(reversed(rev["scn"].invs))
    c15.check_scenarios(ctx, [it, rev])
    orders = list(itertools.permutations(range(n))) if n <= 3 else \
        [tuple(range(n)), tuple(reversed(range(n))), tuple(list(range(1, n)) + [0]), tuple([n - 1] + list(range(n - 1)))]
    for order in orders[1:]:
        run = run_cfg(reorder(desc, order), others, invariant_depth=depth)
        ctx.case(f"inv-order|{seed}|{tmpl}|{order}")
        ctx.count("inv-orders:configurations")
        compare(ctx, "invariant-order-dependent-result", base, normed(run), f"{scn.name} seed {seed} order {order}",
                dict(replay, order=list(order)),
                rerun=lambda order=order: normed(run_cfg(reorder(desc, order), others, invariant_depth=depth)))
    for i in range(n):
        run = run_cfg(desc, others, invariant_depth=depth, match_test=f"^{re.escape(scn.invs[i].name)}\\(")
        ctx.case(f"inv-alone|{seed}|{tmpl}|{i}")
        ctx.count("inv-orders:configurations")
        compare(ctx, "invariant-alone-vs-after-others", base, normed(run), f"{scn.name} seed {seed} alone {scn.invs[i].name}",
                dict(replay, alone=i),
                rerun=lambda i=i: normed(run_cfg(desc, others, invariant_depth=depth, match_test=f"^{re.escape(scn.invs[i].name)}\\(")))


# ------------------------------------------------------------------------------------------------ (1b) --cache-solver across tests


def sq_test(name, var, bad, lim=10):
    """check_<name>(uint256 v): require(v < lim); assert(v * v != bad)  — the product is symbolic x symbolic (refinement)"""
    from vlib import asm
    from vlib.artifacts import Fn

    v = asm.calldata_arg(0)
    body = e2e.require(v + [("push", lim), "SWAP1", "LT"]) + asm.if_then(asm.eq_const(v + v + ["MUL"], bad), asm.panic(1))
    return Fn(f"check_{name}(uint256 {var})", body)


@contextlib.contextmanager
def gc_between_tests():
    """halmos runs with the cyclic GC enabled (unless --disable-gc); vlib.artifacts pauses it during a run because a collection
    on a solver-callback thread is unsafe. Here a collection is made on the main thread before every test, so that what an
    earlier test left behind is really dead (and its z3 AST ids are free for reuse) when the next test starts."""
    import gc

    from vlib.impl import use_repo

    use_repo()
    import halmos.__main__ as hm

    orig = hm.run_test

    def run_test(test_ctx):
        gc.collect()
        return orig(test_ctx)

    hm.run_test = run_test
    try:
        yield
    finally:
        hm.run_test = orig


def check_cache_orders(ctx, seed, threads, reps=2):
    """tests of identical shape, some valid (their assertion query is unsat and leaves an unsat core under --cache-solver), some
    violable; every order, and each test alone: the verdict of a test must be its alone-verdict"""
    from vlib.artifacts import TestContract

    rng = random.Random(seed)
    nonsq = rng.sample([7, 2, 3, 5, 8, 10, 50], 2)
    sq = rng.choice([9, 4, 16, 25, 49])
    names = ["a", "b", "c"]
    rng.shuffle(names)
    tests = [sq_test(names[0], "x", nonsq[0]), sq_test(names[1], "y", sq), sq_test(names[2], "z", nonsq[1])]
    expect = {f"check_{names[0]}(uint256)": 0, f"check_{names[1]}(uint256)": 1, f"check_{names[2]}(uint256)": 0}
    cfg = {"cache_solver": True}
    if threads:
        cfg["solver_threads"] = threads
    replay = {"kind": "cache-orders", "seed": seed, "threads": threads}
    alone = {}
    for t in tests:
        run = run_cfg(TestContract("CacheT", [t]), [], **cfg)
        r = run.results[0]
        alone[r.name] = r.exitcode
        ctx.count(f"cache-orders:alone-verdict:{r.exitcode}")
        if r.exitcode not in (expect[r.name], 2):
            # a wrong verdict *within one test* (not an isolation matter): report separately
            ctx.violation(f"cache-solver-alone-verdict-wrong|expected:{expect[r.name]}|got:{r.exitcode}",
                          f"CacheT.{r.name} alone with {cfg}: exit code {r.exitcode}, expected {expect[r.name]}", replay)
    for order in itertools.permutations(range(3)):
        for rep in range(reps):
            with (no_singleton_reset() if rep else contextlib.nullcontext()), gc_between_tests():
                run = run_cfg(TestContract("CacheT", [tests[i] for i in order]), [], **cfg)
            ctx.case(f"cache-order|{seed}|{threads}|{order}|{rep}")
            ctx.count("cache-orders:configurations")
            for r in run.results:
                if 2 in (r.exitcode, alone[r.name]):
                    ctx.count("compare:skipped-timeout")
                    continue
                if r.exitcode != alone[r.name]:
                    before = [x.name for x in run.results[:[x.name for x in run.results].index(r.name)]]
                    ctx.violation(
                        f"cache-solver:verdict-depends-on-earlier-tests|{alone[r.name]}->{r.exitcode}",
                        f"CacheT.{r.name} with {cfg}: exit code {alone[r.name]} alone but {r.exitcode} after {before} "
                        f"(order {[tests[i].sig for i in order]}, repetition {rep})", dict(replay, order=list(order), rep=rep))


def check_core_isolation(ctx):
    """What two consecutive tests of one contract do to the solver layer, with the AST-id reuse made explicit: test A's assertion
    query is unsat and leaves an unsat core (names = z3 AST ids of A's constraints); A's constraints die; test B's constraints are
    created afterwards and (z3 hands out the ids of dead ASTs again — re-created until that is observed, else the names are
    relabelled to A's) carry the same names. B's satisfiable query goes through the real FunctionContext / SolvingContext /
    solve_end_to_end / CounterexampleHandler of the *same* ContractContext: its verdict must be the verdict B gets alone."""
    from collections import Counter
    from functools import partial

    from vlib.artifacts import YICES_COMMAND, Z3_COMMAND
    from vlib.impl import use_repo

    use_repo()
    import z3
    from halmos.__main__ import CounterexampleHandler
    from halmos.calldata import FunctionInfo
    from halmos.config import ConfigSource, default_config
    from halmos.sevm import Path
    from halmos.solve import ContractContext, FunctionContext, PathContext, SMTQuery, solve_end_to_end
    from halmos.utils import create_solver

    def args_for(cmd, threads):
        kw = dict(cache_solver=True, solver_command=cmd, no_status=True)
        if threads:
            kw["solver_threads"] = threads
        return default_config().with_overrides(ConfigSource.command_line, **kw)

    def contract_ctx(args):
        return ContractContext(args=args, name="T", funsigs=["check_a(uint256)", "check_b(uint256)"], creation_hexcode="",
                               deployed_hexcode="", abi={}, method_identifiers={}, contract_json={}, libs={}, build_out_map={})

    def panic_path(var, lim, bad):
        v = z3.BitVec(var, 256)
        path = Path(create_solver())
        path.append(z3.ULT(v, z3.BitVecVal(lim, 256)))
        path.append(v * v == z3.BitVecVal(bad, 256))
        return path

    def solve(args, cctx, name, query):
        fctx = FunctionContext(args=args, info=FunctionInfo("T", name, f"{name}(uint256)", "00000000"), solver=None, contract_ctx=cctx)
        handler = CounterexampleHandler(ctx=fctx, is_invariant=False, is_probe=False, flamegraph_enabled=False,
                                        potential_flamegraphs={}, submitted_futures=[])
        fctx.call_sequences[0] = ""
        pctx = PathContext(args=args, path_id=0, query=query, solving_ctx=fctx.solving_ctx)
        fut = fctx.thread_pool.submit(solve_end_to_end, pctx)
        buf = io.StringIO()
        with contextlib.redirect_stdout(buf):
            fut.add_done_callback(partial(handler._solve_end_to_end_callback, ex=None, path_ctx=pctx, description=None))
            fctx.thread_pool.shutdown(wait=True)
        cnt = Counter(str(o.result) for o in fctx.solver_outputs)
        verdict = "FAIL" if cnt["sat"] else ("ERROR" if cnt["err"] or cnt["unknown"] else "PASS")
        core = {n for o in fctx.solver_outputs for n in (o.unsat_core or [])}
        return verdict, core

    cases = [(7, 9, 10), (2, 4, 10), (3, 16, 7), (5, 25, 100)]
    solvers = [("yices", YICES_COMMAND), ("z3", Z3_COMMAND)]
    for k, (bad_a, bad_b, lim) in enumerate(cases):
        sname, cmd = solvers[k % 2]
        threads = 1 if k % 2 == 0 else None
        args = args_for(cmd, threads)
        qb = panic_path("p_y_uint256_bbbbbbb_00", lim, bad_b).to_smt2(args)
        alone, _ = solve(args, contract_ctx(args), "check_b", qb)
        cctx = contract_ctx(args)
        va, core = solve(args, cctx, "check_a", panic_path("p_x_uint256_aaaaaaa_00", lim, bad_a).to_smt2(args))
        how = "recycled"
        keep = []
        for _ in range(64):
            path = panic_path("p_y_uint256_bbbbbbb_00", lim, bad_b)
            query = path.to_smt2(args)
            if core and core <= set(query.assertions):
                break
            keep.append(path)
        else:
            how = "relabelled"
            smtlib, ids = query.smtlib, list(query.assertions)
            for i, new in enumerate(sorted(core)):
                smtlib = smtlib.replace(f"|{ids[i]}|", f"|{new}|")
                ids[i] = new
            query = SMTQuery(smtlib, ids)
        after, _ = solve(args, cctx, "check_b", query)
        ctx.case(f"core-isolation|{bad_a}|{bad_b}|{lim}|{sname}|{threads}")
        ctx.count(f"core-isolation:{how}:a={va}:b-alone={alone}:b-after-a={after}")
        if not core:
            ctx.count("core-isolation:no-core-from-test-a")
        if "ERROR" in (alone, after, va):
            ctx.count("compare:skipped-timeout")   # unknown / error answers of the solver are not verdicts
        elif after != alone:
            ctx.violation(
                f"cache-solver:unsat-core-of-earlier-test-answers-later-test|{alone}->{after}",
                f"--cache-solver ({sname}, threads {threads}): check_b = require(y<{lim}); assert(y*y != {bad_b}) is {alone} alone but "
                f"{after} after check_a = require(x<{lim}); assert(x*x != {bad_a}) (unsat, core {sorted(core)}) in the same contract "
                f"context, when check_b's constraints carry the AST ids freed by check_a ({how})", {"kind": "core-isolation"})


def check_path_branch_isolation(ctx):
    """Path.branch / Path.activate directly (they share ONE incremental solver through push/pop): a sibling forked from a path —
    with a real condition or with the literal `true` (the unconditional forks made for a cheatcode's alternative return values)
    — must not see what the parent path asserts after the fork, at any nesting depth and whatever the order of activation."""
    from vlib.impl import use_repo

    use_repo()
    import z3
    from halmos.__main__ import mk_solver
    from halmos.config import default_config
    from halmos.sevm import Path

    args = default_config()
    x, y = z3.BitVec("x", 256), z3.BitVec("y", 256)
    rng = ctx.rng
    conds = {"cond": lambda k: x != k + 100, "true": lambda k: z3.BoolVal(True), "y-cond": lambda k: z3.ULT(y, 50 + k)}
    shapes = [("true",), ("cond",), ("true", "true"), ("cond", "true"), ("true", "cond"), ("true", "true", "y-cond"), ("y-cond", "true", "true")]
    for shape in shapes:
        for later in ("eq", "range"):
            solver = mk_solver(args)
            parent = Path(solver)
            parent.append(z3.UGT(x, 0))
            sibs = []
            for k, kind in enumerate(shape):
                sibs.append((kind, parent.branch(conds[kind](k))))
                # the parent goes on and learns something about x after each fork
                parent.append(x == 5 if later == "eq" and k == len(shape) - 1 else z3.ULT(x, 1000 - k))
            ok_parent = parent.check(x == 7) == (z3.unsat if later == "eq" else z3.sat)
            results = []
            for kind, sib in reversed(sibs):        # DFS: the last fork is activated first
                sib.activate()
                leaked = [str(c) for c in sib.conditions if z3.eq(c, z3.simplify(x == 5))]
                results.append((kind, str(sib.check(x == 7)), str(sib.check(x == 2000)), leaked))
            solver.reset()
            ctx.case(f"path-branch|{shape}|{later}")
            ctx.count("path-branch:configurations")
            # a sibling forked at step k knows x > 0 and x < 1000 - j for j < k only: x == 7 feasible; x == 2000 feasible only for k == 0
            want7 = ["sat"] * len(sibs)
            got7 = [r[1] for r in results]
            if got7 != want7 or any(r[3] for r in results) or not ok_parent:
                ctx.violation(
                    f"path-sibling-sees-later-constraints-of-parent|fork:{'+'.join(shape)}",
                    f"Path.branch with conditions {shape}, the parent then asserting {'x == 5' if later == 'eq' else 'x < 1000 - k'}: "
                    f"siblings (activated last-forked first) answer check(x == 7) = {got7}, expected {want7}; leaked conditions "
                    f"{[r[3] for r in results]}; parent ok: {ok_parent}", {"kind": "path-branch"})


def check_sign_orders(ctx):
    """vm.sign / vm.addr across tests: several tests sign the same (key, digest) and assert what vm.sign promises together with
    the fresh signature terms (v == 27 || v == 28; ecrecover(digest, v, r, s) == vm.addr(key)). Each test alone, the same body
    twice in one run, other orders, and the same contract run twice in one process (a fresh setUp each time, nothing reset in
    between): verdict, path counts and models of a test must equal its alone-run."""
    from vlib import asm
    from vlib.artifacts import Fn, TestContract

    KEY, DIG = 0x1234, 0xABCDEF

    def body(kind, key=KEY, dig=DIG):
        sign = asm.cheat_call(asm.HEVM_ADDRESS, 0xE341EAA4, [[("push", key)], [("push", dig)]], ret_size=96)   # (v, r, s) at 0x280
        v = [("push", 0x280), "MLOAD"]
        items = list(sign)
        if kind == "range":
            items += asm.if_then(asm.eq_const(v, 27) + asm.eq_const(v, 28) + ["OR", "ISZERO"], asm.panic(1))
        else:
            # ecrecover(digest, v, r, s) through precompile 1, compared with vm.addr(key)
            items += [("push", dig), ("push", 0x300), "MSTORE"] + v + [("push", 0x320), "MSTORE",
                      ("push", 0x2A0), "MLOAD", ("push", 0x340), "MSTORE", ("push", 0x2C0), "MLOAD", ("push", 0x360), "MSTORE",
                      ("push", 32), ("push", 0x3A0), ("push", 0x80), ("push", 0x300), ("push", 1), "GAS", "STATICCALL", "POP"]
            items += asm.cheat_call(asm.HEVM_ADDRESS, asm.selector("addr(uint256)"), [[("push", key)]], mem=0x400, ret_size=32)
            items += asm.if_then([("push", 0x600), "MLOAD", ("push", 0x3A0), "MLOAD", "EQ", "ISZERO"], asm.panic(1))
        return items

    def contract(names, setup_signs=False):
        fns = [Fn("setUp()", (body("range") if setup_signs else []) + ["STOP"])]
        for n in names:
            fns.append(Fn(f"check_{n}()", body(n.rstrip("0123456789"))))
        return TestContract("SignT", fns)

    def run(names, **kw):
        r = run_cfg(contract(names, **kw), [])
        if r.errors:
            raise RuntimeError(f"sign scenario broken: {r.errors[:2]}")
        return {t.name.split("(")[0][len("check_"):]: norm_result(t, r, False) for t in r.results}

    alone = {k: run([k])[k] for k in ("range", "recover")}
    for k, v in alone.items():
        ctx.count(f"sign:alone:{k}:exit={v['exitcode']}:paths={v['paths']}")
    configs = [(["range", "range2"], {}), (["recover", "recover2"], {}), (["range", "recover"], {}), (["recover", "range"], {}),
               (["range"], {"setup_signs": True}), (["recover", "range", "recover2"], {})]
    for rep in range(2):
        for names, kw in configs:
            with (no_singleton_reset() if rep else contextlib.nullcontext()):
                res = run(names, **kw)
            ctx.case(f"sign|{names}|{kw}|{rep}")
            ctx.count("sign:configurations")
            for n, got in res.items():
                base = alone[n.rstrip("0123456789")]
                if 2 in (got["exitcode"], base["exitcode"]):
                    ctx.count("compare:skipped-timeout")
                    continue
                diff = [f for f in got if got[f] != base[f] and f != "warnings"]
                if diff:
                    ctx.violation(
                        f"vm-sign-result-depends-on-earlier-signing|{n.rstrip('0123456789')}|differs:{'+'.join(diff)}",
                        f"SignT.check_{n}() run after {names[:names.index(n)]}{' with setUp signing too' if kw else ''} "
                        f"(repetition {rep} in the process) differs from the same body run alone: "
                        + "; ".join(f"{f}: {str(base[f])[:120]!r} -> {str(got[f])[:120]!r}" for f in diff), {"kind": "sign-orders"})


def check_codehash_orders(ctx):
    """EXTCODEHASH / EXTCODESIZE / EXTCODECOPY on contracts deployed by setUp — a small library with concrete code and a contract
    whose runtime carries a symbolic immutable (svm.createUint256 in its constructor): the same test body twice in one run, each
    test alone and after the others, in several orders. Verdict, path counts, models and the dumped assertion queries (= the
    path conditions, uid-normalised) of a test must not depend on what ran before it."""
    from vlib import asm
    from vlib.artifacts import Fn, TestContract

    lib_rt = asm.assemble_text("PUSH1 0x01 PUSH0 MSTORE PUSH1 0x20 PUSH0 RETURN")
    lib_blob = asm.creation_code(lib_rt)
    imm_rt = asm.assemble([("push", 0, 32), ("push", 0), "MSTORE", ("push", 0x20), ("push", 0), "RETURN"], push0=False)
    tmpl_lab = "imm_tmpl"
    # constructor of the immutable-carrying contract: w = svm.createUint256("owner"); copy the runtime template; patch w in
    ctor = asm.svm_create_uint256(b"owner") + [("push", len(imm_rt)), ("ref", tmpl_lab), ("push", 0), "CODECOPY",
                                               ("push", 1), "MSTORE", ("push", len(imm_rt)), ("push", 0), "RETURN",
                                               ("mark", tmpl_lab), ("raw", imm_rt)]
    imm_blob = asm.assemble(ctor)
    LIB, IMM = e2e.FIRST_CREATED, e2e.FIRST_CREATED + 1
    setup = []
    blobs = []
    for lab, blob in (("lib_blob", lib_blob), ("imm_blob", imm_blob)):
        setup += [("push", len(blob)), ("ref", lab), ("push", 0), "CODECOPY", ("push", len(blob)), ("push", 0), ("push", 0), "CREATE", "POP"]
        blobs += [("mark", lab), ("raw", blob)]
    h = lambda a: [("push", a, 20), "EXTCODEHASH"]  # noqa: E731
    bodies = {  # fresh labels for every instance
        "lib": lambda: asm.if_then(h(LIB) + ["ISZERO"], asm.panic(1)),
        "imm": lambda: asm.if_then(h(IMM) + ["ISZERO"], asm.panic(1)),
        "both": lambda: asm.if_then(h(LIB) + h(IMM) + ["EQ"], asm.panic(1)),
        "size": lambda: asm.if_then([("push", IMM, 20), "EXTCODESIZE", ("push", len(imm_rt)), "EQ", "ISZERO"], asm.panic(1)),
        "copy": lambda: [("push", 32), ("push", 1), ("push", 0), ("push", IMM, 20), "EXTCODECOPY"] +
                asm.if_then(asm.eq_const([("push", 0), "MLOAD"], 7), asm.panic(1)) +            # immutable == 7: violable
                asm.if_then(h(IMM) + ["ISZERO"], asm.panic(1)),
    }

    def contract(names):
        fns = [Fn("setUp()", setup + ["STOP"] + blobs)]
        for n in names:
            kind = n.rstrip("0123456789")
            fns.append(Fn(f"check_{n}()", bodies[kind]()))
        return TestContract("HashT", fns)

    def run(names):
        queries = {}

        def inspect(workdir, _run):
            import os

            root = os.path.join(workdir, "smt")
            for dp, _dn, files in os.walk(root):
                for f in sorted(files):
                    if f.endswith(".smt2"):
                        fn = os.path.basename(dp).rstrip("0123456789")
                        txt = norm_text(open(os.path.join(dp, f)).read())
                        queries.setdefault(fn, []).append(re.sub(r"check_[a-z]+\d*", "check_X", txt))

        r = run_cfg(contract(names), [], inspect=inspect)
        out = {}
        for t in r.results:
            key = t.name.split("(")[0][len("check_"):]
            n = norm_result(t, r, False)
            n["queries"] = sorted(queries.get("check_" + key.rstrip("0123456789"), [])) if len([x for x in names if x.rstrip("0123456789") == key.rstrip("0123456789")]) == 1 else None
            out[key] = n
        return out, r

    kinds = ["lib", "imm", "both", "size", "copy"]
    alone = {}
    for k in kinds:
        res, r = run([k])
        alone[k] = res[k]
        ctx.count(f"codehash:alone:{k}:exit={res[k]['exitcode']}:paths={res[k]['paths']}")
        if r.errors:
            raise RuntimeError(f"codehash scenario broken: {r.errors[:2]}")
    configs = [["lib", "lib2"], ["imm", "imm2"], ["copy", "copy2"], ["lib", "imm", "both"], ["both", "imm", "lib"], ["imm", "both", "lib", "size"],
               ["size", "copy", "imm"], ["copy", "lib", "imm"]]
    if ctx.tier != "quick":
        configs += [list(p) for p in itertools.permutations(kinds, 3)][:20]
    for names in configs:
        res, _r = run(names)
        ctx.case(f"codehash|{names}")
        ctx.count("codehash:configurations")
        for n, got in res.items():
            base = alone[n.rstrip("0123456789")]
            if 2 in (got["exitcode"], base["exitcode"]):
                ctx.count("compare:skipped-timeout")
                continue
            diff = [f for f in got if got[f] != base[f] and not (f == "queries" and got[f] is None)
                    and f != "warnings"]
            if diff:
                pos = names.index(n)
                ctx.violation(
                    f"extcode-result-depends-on-earlier-use|{n.rstrip('0123456789')}|differs:{'+'.join(diff)}",
                    f"HashT.check_{n}() run after {names[:pos]} differs from the same body run alone in {diff}: "
                    + "; ".join(f"{f}: {str(base[f])[:160]!r} -> {str(got[f])[:160]!r}" for f in diff if f != "queries")
                    + (" (dumped assertion queries differ)" if "queries" in diff else ""), {"kind": "codehash"})


# ------------------------------------------------------------------------------------------------ (2) uid streams


def uid_aliases():
    """every module-level binding of halmos.utils.uid (found from the source with ast, then resolved in sys.modules)"""
    import ast
    import sys

    from vlib.runner import REPO

    mods = ["halmos.utils"]
    for p in sorted((REPO / "src/halmos").glob("*.py")):
        tree = ast.parse(p.read_text())
        for n in tree.body:
            if isinstance(n, ast.ImportFrom) and n.module == "halmos.utils" and any(a.name == "uid" for a in n.names):
                mods.append("halmos." + p.stem)
    return [sys.modules[m] for m in mods if m in sys.modules], mods


@contextlib.contextmanager
def patched_uid(fn):
    mods, _ = uid_aliases()
    saved = [(m, m.uid) for m in mods if hasattr(m, "uid")]
    for m, _old in saved:
        m.uid = fn
    try:
        yield
    finally:
        for m, old in saved:
            m.uid = old


def check_uid(ctx, gen, base, seed):
    pins = {c.canon: pinned(c) for c in gen.checks}
    replay = {"kind": "uid", "seed": seed}
    cnt = itertools.count(0x1000000 + seed % 1000)

    def stream():
        return f"{next(cnt) % (1 << 28):07x}"

    with patched_uid(stream):
        run = run_cfg(gen.desc, gen.others)
    ctx.case(f"uid-stream|{seed}")
    def again():
        with patched_uid(stream):
            r2 = run_cfg(gen.desc, gen.others)
        return {r.name: norm_result(r, r2, pins.get(r.name, False)) for r in r2.results}

    compare(ctx, "uid-stream-dependent-result", base, {r.name: norm_result(r, run, pins.get(r.name, False)) for r in run.results},
            f"{gen.desc.name} seed {seed} with a counter uid stream", dict(replay, stream="counter"), rerun=again)
    with patched_uid(lambda: "0000000"):
        run = run_cfg(gen.desc, gen.others)
    ctx.case(f"uid-const|{seed}")
    for r in run.results:
        b = base.get(r.name)
        if b is None:
            continue
        if 2 in (r.exitcode, b["exitcode"]):
            ctx.count("compare:skipped-timeout")
        elif r.exitcode != b["exitcode"]:
            ctx.violation("uid-constant-changes-verdict", f"{gen.desc.name} seed {seed}: {r.name}: {b['exitcode']} -> {r.exitcode} "
                          f"with uid() constant", dict(replay, stream="const"))
        elif norm_result(r, run, pins.get(r.name, False)) != b:
            ctx.count("uid-const:result-detail-differs")


# ------------------------------------------------------------------------------------------------ (3) sibling isolation in SEVM.run


def fingerprint(ex):
    """content fingerprint of everything a waiting state owns (see module doc); shared-by-design registries separately"""
    import dataclasses

    import z3
    from halmos.bitvec import HalmosBitVec
    from halmos.bitvec import HalmosBool
    from halmos.bytevec import ByteVec
    from halmos.sevm import Contract, Path

    seen_depth = [0]

    def fp(x, d=0):
        if d > 12:
            return "<deep>"
        if x is None or isinstance(x, (int, str, bytes, bool, float)):
            return x
        if isinstance(x, z3.AstRef):
            return ("z3", x.get_id(), x.sexpr() if d < 6 else None)
        if isinstance(x, (HalmosBitVec, HalmosBool)):
            return ("bv", str(x))
        if isinstance(x, ByteVec):
            return ("bytevec", len(x), tuple((off, fp(getattr(ch, "data", ch), d + 1), getattr(ch, "start", None), getattr(ch, "length", None))
                                             for off, ch in x.chunks.items()))
        if isinstance(x, Contract):
            return ("contract", id(x))
        if isinstance(x, Path):
            return ("path", tuple((c.get_id(), b) for c, b in x.conditions.items()), tuple(fp(p, d + 1) for p in x.pending),
                    fp(x.sliced, d + 1), fp(dict(x.related), d + 1), fp({k.get_id() if hasattr(k, "get_id") else repr(k): v for k, v in x.var_to_conds.items()}, d + 1),
                    fp(x.concretization.substitution, d + 1), fp(x.concretization.candidates, d + 1), x.num_scopes)
        if isinstance(x, dict):
            return ("dict", tuple(sorted(((fp(k, d + 1), fp(v, d + 1)) for k, v in x.items()), key=repr)))
        if isinstance(x, (list, tuple)):
            return ("seq", tuple(fp(v, d + 1) for v in x))
        if isinstance(x, (set, frozenset)):
            return ("set", tuple(sorted((fp(v, d + 1) for v in x), key=repr)))
        if callable(x) and not dataclasses.is_dataclass(x):
            return "<callable>"
        if dataclasses.is_dataclass(x):
            return (type(x).__name__, tuple((f.name, fp(getattr(x, f.name, None), d + 1)) for f in dataclasses.fields(x)
                                            if f.name not in ("solver",)))
        if hasattr(x, "__dict__"):
            return (type(x).__name__, tuple(sorted(((k, fp(v, d + 1)) for k, v in vars(x).items()), key=repr)))
        if isinstance(x, BaseException):
            return ("exc", type(x).__name__, str(x))
        return ("obj", type(x).__name__, repr(x)[:200])

    own = {
        "code": tuple((fp(a), id(c)) for a, c in ex.code.items()), "storage": fp(ex.storage), "transient": fp(ex.transient_storage),
        "balance": fp(ex.balance), "block": fp(ex.block), "context": fp(ex.context), "pc": ex.pc, "stack": fp(ex.st.stack),
        "memory": fp(ex.st.memory), "jumpis": fp(ex.jumpis), "path": fp(ex.path), "alias": fp(ex.alias), "cnts": fp(ex.cnts),
        "sha3s": fp(ex.sha3s), "storages": fp(ex.storages), "balances": fp(ex.balances),
        "to_delete": fp(getattr(ex, "addresses_to_delete", None)), "call_sequence": len(ex.call_sequence or []),
    }
    shared = {"known_keys": fp(ex.known_keys), "known_sigs": fp(ex.known_sigs)}
    # what the return callback of a sub-execution captured from its caller: the per-CALL / per-CREATE backups `orig_*` (restored
    # from on every failing callee path) and the caller's context / stack / memory / jumpis (restored on every return)
    cur, depth = ex, 0
    while cur is not None and getattr(cur, "callback", None) is not None and depth < 4:
        cb = cur.callback
        cells = dict(zip(getattr(cb.__code__, "co_freevars", ()), cb.__closure__ or ()))
        parent = None
        for name, cell in cells.items():
            try:
                v = cell.cell_contents
            except ValueError:
                continue
            if name.startswith("orig_"):
                own[f"captured{depth}:{name}"] = fp(v)
            elif name == "ex":
                parent = v
                own[f"captured{depth}:caller.context"] = fp(v.context)
                own[f"captured{depth}:caller.st"] = (fp(v.st.stack), fp(v.st.memory))
                own[f"captured{depth}:caller.jumpis"] = fp(v.jumpis)
        cur, depth = parent, depth + 1
    return own, shared


@contextlib.contextmanager
def worklist_probe(record):
    from halmos.sevm import Worklist

    push0, pop0 = Worklist.push, Worklist.pop
    waiting = {}

    def push(self, ex):
        waiting[id(ex)] = (ex, fingerprint(ex))
        return push0(self, ex)

    def pop(self):
        ex = pop0(self)
        if ex is not None and id(ex) in waiting:
            ex0, (own0, sh0) = waiting.pop(id(ex))
            if ex0 is ex:
                own1, sh1 = fingerprint(ex)
                record(ex, [k for k in own0 if own0[k] != own1[k]], [k for k in sh0 if sh0[k] != sh1[k]], len(self.stack))
        return ex

    Worklist.push, Worklist.pop = push, pop
    try:
        yield
    finally:
        Worklist.push, Worklist.pop = push0, pop0


def check_siblings(ctx, n):
    from vlib import evmdiff, proggen, sevm_corpus

    scns = [t[1] for t in sevm_corpus.scenarios()]
    rng = ctx.rng
    while len(scns) < n:
        scn, _meta = proggen.gen_scenario(rng)
        scns.append(scn)
    # directed: branch, then the first-explored sibling writes storage / memory / transient storage / makes a call
    from vlib import asm as A
    from vlib.evmdiff import MAIN, Scenario

    directed = {
        "sstore-after-branch": "PUSH1 0x07 PUSH1 0x01 SSTORE PUSH1 0x04 CALLDATALOAD PUSH @t JUMPI PUSH1 0x09 PUSH1 0x01 SSTORE PUSH1 0x55 PUSH0 MSTORE PUSH1 0x03 PUSH1 0x02 TSTORE PUSH1 0x20 PUSH0 RETURN t: PUSH1 0x01 SLOAD PUSH0 MSTORE PUSH1 0x02 TLOAD PUSH1 0x20 MSTORE PUSH1 0x40 PUSH0 RETURN",
        "nested-branches": "PUSH1 0x04 CALLDATALOAD PUSH @a JUMPI PUSH1 0x24 CALLDATALOAD PUSH @b JUMPI PUSH1 0x01 PUSH1 0x00 SSTORE STOP b: PUSH1 0x02 PUSH1 0x00 SSTORE STOP a: PUSH1 0x24 CALLDATALOAD PUSH @c JUMPI PUSH1 0x00 SLOAD PUSH0 MSTORE PUSH1 0x20 PUSH0 RETURN c: PUSH1 0x03 PUSH1 0x00 SSTORE PUSH1 0x00 SLOAD PUSH0 MSTORE PUSH1 0x20 PUSH0 REVERT",
    }
    for nm, src in directed.items():
        scns.insert(0, Scenario({MAIN: A.assemble_text(src)}, nargs=2, name=nm))
    # directed family: a callee (or init code) with >= 2 feasible FAILING paths, a caller that survives the failure and then does
    # a read-modify-write of storage and of transient storage: every path must end with both counters == 1
    bump = ("PUSH0 SLOAD PUSH1 0x01 ADD PUSH0 SSTORE PUSH1 0x01 TLOAD PUSH1 0x01 ADD PUSH1 0x01 TSTORE "
            "PUSH0 SLOAD PUSH0 MSTORE PUSH1 0x01 TLOAD PUSH1 0x20 MSTORE PUSH1 0x40 PUSH0 RETURN")
    callee2 = "PUSH0 CALLDATALOAD PUSH @a JUMPI PUSH0 PUSH0 REVERT a: PUSH1 0x01 PUSH0 MSTORE PUSH1 0x20 PUSH0 REVERT"
    callee3 = ("PUSH0 CALLDATALOAD PUSH @a JUMPI PUSH0 PUSH0 REVERT a: PUSH1 0x20 CALLDATALOAD PUSH @b JUMPI INVALID "
               "b: PUSH1 0x09 PUSH1 0x05 SSTORE PUSH1 0x20 PUSH0 REVERT")
    args = "PUSH1 0x04 CALLDATALOAD PUSH0 MSTORE PUSH1 0x24 CALLDATALOAD PUSH1 0x20 MSTORE "
    for op in ("CALL", "DELEGATECALL", "STATICCALL", "CALLCODE"):
        val = "PUSH0 " if op in ("CALL", "CALLCODE") else ""
        for cn, callee in (("2", callee2), ("3", callee3)):
            caller = args + f"PUSH0 PUSH0 PUSH1 0x40 PUSH0 {val}PUSH2 0x2000 PUSH2 0xffff {op} POP " + bump
            scns.insert(0, Scenario({MAIN: A.assemble_text(caller), 0x2000: A.assemble_text(callee)}, nargs=2,
                                    name=f"failing-callee:{op}:{cn}-paths"))
    # the same after a first write (the backup then holds a non-empty storage object) and with two calls in a row
    caller = ("PUSH1 0x07 PUSH1 0x03 SSTORE " + args + "PUSH0 PUSH0 PUSH1 0x40 PUSH0 PUSH0 PUSH2 0x2000 PUSH2 0xffff CALL POP "
              "PUSH0 SLOAD PUSH1 0x01 ADD PUSH0 SSTORE PUSH0 PUSH0 PUSH1 0x40 PUSH0 PUSH0 PUSH2 0x2000 PUSH2 0xffff CALL POP "
              "PUSH1 0x01 TLOAD PUSH1 0x01 ADD PUSH1 0x01 TSTORE PUSH0 SLOAD PUSH0 MSTORE PUSH1 0x01 TLOAD PUSH1 0x20 MSTORE "
              "PUSH1 0x40 PUSH0 RETURN")
    scns.insert(0, Scenario({MAIN: A.assemble_text(caller), 0x2000: A.assemble_text(callee2)}, nargs=2,
                            name="failing-callee:CALL-twice"))
    # CREATE whose init code fails on two paths (branching on the symbolic tx.origin)
    init = A.assemble_text("ORIGIN PUSH1 0x01 AND PUSH @a JUMPI PUSH0 PUSH0 REVERT a: INVALID")
    caller = (f"PUSH{len(init)} 0x{init.hex()} PUSH0 MSTORE PUSH1 {len(init)} PUSH1 {32 - len(init)} PUSH0 CREATE POP " + bump)
    scns.insert(0, Scenario({MAIN: A.assemble_text(caller)}, nargs=1, name="failing-callee:CREATE:2-paths"))
    # directed family: prank state across forks. Every path returns (tag of the side it took, msg.sender its observer call saw);
    # the expected pairs are fixed by the program, i.e. what each path observes when it is the only one explored.
    P = 0xBEEF01
    OBS, FORKER = 0x2000, 0x3000
    obs_code = A.assemble_text("CALLER PUSH0 MSTORE PUSH1 0x20 PUSH0 RETURN")
    forker_code = A.assemble_text("PUSH0 CALLDATALOAD PUSH @a JUMPI PUSH1 0x01 PUSH0 MSTORE PUSH1 0x20 PUSH0 RETURN "
                                  "a: PUSH1 0x02 PUSH0 MSTORE PUSH1 0x20 PUSH0 RETURN")
    cheat = lambda sig, args=(): A.cheat_call(A.HEVM_ADDRESS, A.selector(sig), [list(a) for a in args])  # noqa: E731
    observe = [("push", 32), ("push", 0x20), ("push", 0), ("push", 0), ("push", 0), ("push", OBS), "GAS", "CALL", "POP"]  # -> mem[0x20]
    ret = lambda tag: [("push", tag), ("push", 0), "MSTORE", ("push", 0x40), ("push", 0), "RETURN"]  # noqa: E731
    arg0 = A.calldata_arg(0)
    prank_progs = {}
    # (a) startPrank active at a symbolic fork; the side explored first stops it / consumes a one-shot prank
    prank_progs["startPrank-then-fork:stop-on-fallthrough"] = (
        cheat("startPrank(address)", [[("push", P)]]) + A.if_then(arg0, observe + ret(2), cheat("stopPrank()") + observe + ret(1)),
        {1: MAIN, 2: P})
    prank_progs["startPrank-then-fork:stop-on-taken"] = (
        cheat("startPrank(address)", [[("push", P)]]) + A.if_then(arg0, cheat("stopPrank()") + observe + ret(2), observe + ret(1)),
        {1: P, 2: MAIN})
    prank_progs["prank-then-fork:both-call"] = (
        cheat("prank(address)", [[("push", P)]]) + A.if_then(arg0, observe + ret(2), observe + ret(1)), {1: P, 2: P})
    # (b) a callee forks; one returning path leaves a prank pending, the other one then calls
    call_forker = arg0 + [("push", 0), "MSTORE", ("push", 32), ("push", 0x60), ("push", 32), ("push", 0), ("push", 0),
                          ("push", FORKER), "GAS", "CALL", "POP"]
    for side in (1, 2):
        other = 3 - side
        prank_progs[f"callee-forks:prank-pending-on-return-{side}"] = (
            call_forker + A.if_then(A.eq_const([("push", 0x60), "MLOAD"], side),
                                    cheat("prank(address)", [[("push", P)]]) + [("push", 0), ("push", 0x20), "MSTORE"] + ret(side),
                                    observe + ret(other)),
            {side: 0, other: MAIN})
        prank_progs[f"callee-forks:startPrank-on-return-{side}"] = (
            call_forker + A.if_then(A.eq_const([("push", 0x60), "MLOAD"], side),
                                    cheat("startPrank(address)", [[("push", P)]]) + observe + ret(side),
                                    observe + ret(other)),
            {side: P, other: MAIN})
    prank_expect = {}
    for nm, (items, expect) in prank_progs.items():
        scns.insert(0, Scenario({MAIN: A.assemble(items), OBS: obs_code, FORKER: forker_code}, nargs=1, name="prank:" + nm))
        prank_expect["prank:" + nm] = expect
    # directed family: vm.sign on sibling paths. Fork first; the side explored first signs (key, digest); the other side signs the
    # same (key, digest) and branches on `v == 27 || v == 28` (a constraint vm.sign adds together with the fresh signature terms):
    # alone, that side has exactly one path (tag 2); a path with tag 3 means it got the signature without its constraints.
    sign = lambda key, dig: A.cheat_call(A.HEVM_ADDRESS, 0xE341EAA4, [key, dig], ret_size=96)  # noqa: E731  v at mem 0x280
    vword = [("push", 0x280), "MLOAD"]
    v_ok = A.eq_const(vword, 27) + A.eq_const(vword, 28) + ["OR"]
    ret1 = lambda tag: [("push", tag), ("push", 0), "MSTORE", ("push", 0x20), ("push", 0), "RETURN"]  # noqa: E731
    sign_expect = {}
    for nm, key, dig in (("concrete", [("push", 0x1234)], [("push", 0xABCD)]), ("symbolic", A.calldata_arg(1), A.calldata_arg(2))):
        checker = sign(key, dig) + A.if_then(v_ok, ret1(2), ret1(3))
        signer = sign(key, dig) + ret1(1)
        for which, (taken, fall) in (("first-explored-signs", (checker, signer)), ("last-explored-signs", (signer, checker)),
                                     ("alone", (checker, ret1(1)))):
            name = f"sign:{nm}:{which}"
            scns.insert(0, Scenario({MAIN: A.assemble(A.if_then(A.calldata_arg(0), list(taken), list(fall)))}, nargs=3, name=name))
            sign_expect[name] = [1, 2]
    # directed: unconditional forks. svm.createCalldata("C") returns one alternative per kind of calldata (empty, fallback, each
    # function of C); the alternative that continues in the current path (the last function) then assumes x == 5; every other
    # alternative, explored later, must still find x == 7 feasible.
    from halmos.mapper import BuildOut
    from vlib.artifacts import Fn, TestContract, make_build_out_map

    cc = TestContract("C", [Fn("foo(uint256 a)", ["STOP"]), Fn("bar(uint256 b)", ["STOP"])])
    bom, _built = make_build_out_map([cc])
    name_arg = [[("push", 0x20)], [("push", 1)], [("push", int.from_bytes(b"C".ljust(32, b"\0"), "big"), 32)]]
    cd = A.cheat_call(A.SVM_ADDRESS, A.selector("createCalldata(string)"), name_arg, ret_size=0x80)     # returned bytes at 0x280
    sel_of_ret = [("push", 0x2C0), "MLOAD", ("push", 224), "SHR"]
    xx = A.calldata_arg(0)
    prog = cd + A.if_then(A.eq_const(sel_of_ret, A.selector("bar(uint256)")), A.vm_assume(A.eq_const(xx, 5))) + \
        A.if_then(A.eq_const(xx, 7), ret1(7), ret1(9))
    scns.insert(0, Scenario({MAIN: A.assemble(prog)}, nargs=1, name="uncond-fork:createCalldata"))
    total_wait = 0
    for k, scn in enumerate(scns):
        hits = []

        def record(ex, own_diff, shared_diff, depth, hits=hits):
            hits.append((own_diff, shared_diff, depth))

        with worklist_probe(record):
            # the directed expectations are about feasibility: no 1 ms branching time-out there
            if scn.name == "uncond-fork:createCalldata":
                BuildOut().set_build_out(bom)
            try:
                sr = evmdiff.symbolic_run(scn, **({"solver_timeout_branching": 0} if (scn.name or "").startswith(
                    ("sign:", "prank:", "failing-callee", "uncond-fork")) else {}))
            finally:
                if scn.name == "uncond-fork:createCalldata":
                    BuildOut().set_build_out({})
        ctx.case(f"sibling|{scn.name or k}|{len(sr.paths)}", nontrivial=len(hits) > 1)
        ctx.count("sibling:programs")
        ctx.count("sibling:waiting-states-checked", len(hits))
        ctx.count("sibling:paths", len(sr.paths))
        if scn.name == "uncond-fork:createCalldata":
            tags = []
            for pth in sr.paths:
                data = pth.data.unwrap() if pth.data is not None and len(pth.data) else b""
                tags.append(int.from_bytes(data, "big") if isinstance(data, bytes) and len(data) == 32 and pth.kind == "success" else pth.kind)
            ctx.count(f"sibling:uncond-fork:paths={sorted(map(str, tags))}")
            # alternatives: empty calldata, fallback, foo, bar; bar assumes x == 5 (one path, tag 9); each other: tags 7 and 9
            if sr.escaped or sorted(map(str, tags)) != sorted(map(str, [9, 7, 9, 7, 9, 7, 9])):
                ctx.violation(
                    "unconditional-fork-sibling-sees-later-constraints|createCalldata",
                    f"program {scn.name}: paths end with tags {tags} (escaped {sr.escaped}); expected 7 and 9 for each of the three "
                    f"alternatives that do not assume x == 5, and 9 for the one that does", {"kind": "sibling",
                    "code": {hex(a): c.hex() for a, c in scn.contracts.items()}, "nargs": scn.nargs, "static": scn.static})
        if (scn.name or "") in sign_expect:
            tags = []
            for pth in sr.paths:
                data = pth.data.unwrap() if pth.data is not None and len(pth.data) else b""
                tags.append(int.from_bytes(data, "big") if isinstance(data, bytes) and len(data) == 32 and pth.kind == "success" else pth.kind)
            ctx.count(f"sibling:sign:{scn.name.split(':', 1)[1]}:paths={sorted(map(str, tags))}")
            if sr.escaped or sorted(map(str, tags)) != sorted(map(str, sign_expect[scn.name])):
                ctx.violation(
                    f"vm-sign-constraints-skipped-on-sibling|{scn.name.split(':')[2]}",
                    f"program {scn.name}: paths end with tags {tags} (escaped: {sr.escaped}), expected {sign_expect[scn.name]} as when the "
                    f"checking side is explored alone: a path with tag 3 is the checking side with v outside {{27, 28}}, i.e. vm.sign "
                    f"returned the signature cached by the sibling path (Exec.known_sigs is passed by reference in create_branch) "
                    f"without adding its constraints to this path",
                    {"kind": "sibling", "code": {hex(a): c.hex() for a, c in scn.contracts.items()}, "nargs": scn.nargs,
                     "static": scn.static, "sign": scn.name})
        if (scn.name or "") in prank_expect:
            ctx.count("sibling:directed-prank-paths", len(sr.paths))
            if len(sr.paths) != 2 or sr.escaped:
                raise RuntimeError(f"directed program {scn.name}: {len(sr.paths)} paths {[p.kind for p in sr.paths]}, escaped={sr.escaped}")
            for pth in sr.paths:
                data = pth.data.unwrap() if pth.data is not None and len(pth.data) else b""
                tag = int.from_bytes(data[:32], "big") if isinstance(data, bytes) and len(data) == 64 else None
                seen = int.from_bytes(data[32:], "big") if tag is not None else None
                want = prank_expect[scn.name].get(tag)
                if pth.kind != "success" or tag is None or seen != want:
                    ctx.violation(
                        f"prank-state-shared-across-fork|{scn.name.split(':', 1)[1].rsplit('-', 1)[0] if 'return' in scn.name else scn.name.split(':', 1)[1]}",
                        f"program {scn.name}: the path of side {tag} ended as {pth.kind} and its observer saw msg.sender = "
                        f"{hex(seen) if seen is not None else None}, expected {hex(want) if want is not None else None} "
                        f"(main contract {MAIN:#x}, pranked address {P:#x}): the prank state of one path leaked into its sibling",
                        {"kind": "sibling", "code": {hex(a): c.hex() for a, c in scn.contracts.items()}, "nargs": scn.nargs,
                         "static": scn.static, "prank": scn.name})
        if (scn.name or "").startswith("failing-callee"):
            ctx.count("sibling:directed-failing-callee-paths", len(sr.paths))
            if len(sr.paths) < 2 or sr.escaped:
                raise RuntimeError(f"directed program {scn.name}: {len(sr.paths)} paths, escaped={sr.escaped}")
            one = (1).to_bytes(32, "big") * 2
            for pth in sr.paths:
                data = pth.data.unwrap() if pth.data is not None and len(pth.data) else b""
                if pth.kind != "success" or not isinstance(data, bytes) or data != one:
                    ctx.violation(
                        f"sibling-write-visible-after-failed-call|{scn.name.split(':')[1]}",
                        f"program {scn.name}: a path ends with (counter, transient counter) = {data.hex() if isinstance(data, bytes) else data} "
                        f"(kind {pth.kind}); each caller continuation after a failed callee path must start from the pre-call "
                        f"state, i.e. end with (1, 1)", {"kind": "sibling", "code": {hex(a): c.hex() for a, c in scn.contracts.items()},
                                                           "nargs": scn.nargs, "static": scn.static})
        total_wait += sum(1 for h in hits if h[2] > 0)
        for own_diff, shared_diff, _d in hits:
            if own_diff:
                ctx.violation(
                    f"sibling-state-mutated|fields:{'+'.join(sorted(own_diff))}",
                    f"program {scn.name or k} ({scn.main_code().hex()[:200]}): a state waiting on the worklist changed in "
                    f"{own_diff} while its sibling ran", {"kind": "sibling", "code": {hex(a): c.hex() for a, c in scn.contracts.items()},
                                                          "nargs": scn.nargs, "static": scn.static})
            if shared_diff:
                ctx.count("sibling:shared-registry-changed:" + "+".join(shared_diff))
    ctx.count("sibling:states-that-waited-behind-others", total_wait)


# ------------------------------------------------------------------------------------------------ (4) per-process warning de-duplication


def check_config_isolation(ctx):
    """Isolation at the Config level: what `run_tests` does for every test function -- layer a function_annotation config on the
    contract config (with_overrides / with_devdoc), read its options, drop it -- repeated with different option values.  Every
    read through attribute access must equal what the layers say (`value_with_source`, and the overrides themselves), however
    many configs were created and freed before and whatever addresses CPython hands out again (bounded: the rounds continue
    until an address has been reused several times)."""
    import gc
    import shlex

    import halmos.__main__ as hm
    import halmos.config as hc
    from dataclasses import fields

    names = [f.name for f in fields(hc.Config) if not f.metadata.get(hc.internal)]
    base = hc.default_config().with_overrides(hc.ConfigSource.command_line, solver_timeout_branching=0.0, no_status=True)
    rounds = ctx.scale(200, 1000)
    seen_addr = {}
    reused = 0
    bad = 0
    for r in range(rounds):
        k = ctx.rng.randrange(1 << 30)
        style = r % 4
        want = {"loop": 3 + (r * 7 + k) % 50, "depth": 1000 + r, "width": 10 + (k % 97)}
        if style == 0:
            cfg = base.with_overrides(hc.ConfigSource.function_annotation, **want)
        elif style == 1:
            # the real with_devdoc on an artifact carrying `@custom:halmos --loop N --depth D --width W`
            dd = f"--loop {want['loop']} --depth {want['depth']} --width {want['width']}"
            cj = {"metadata": {"output": {"devdoc": {"methods": {"check_t()": {"custom:halmos": dd}}}}}}
            cfg = hm.with_devdoc(base, "check_t()", cj)
        elif style == 2:
            # contract annotation below, function annotation on top (both die together)
            want2 = {"invariant_depth": 2 + r % 9, "solver_timeout_assertion": float(r + 1)}
            mid = hm.with_natspec(base, "K", {"text": f"@custom:halmos --invariant-depth {want2['invariant_depth']} "
                                              f"--solver-timeout-assertion {r + 1}s"})
            cfg = mid.with_overrides(hc.ConfigSource.function_annotation, **want)
            want = dict(want, **want2)
            del mid
        else:
            # only one option annotated: the others must come from the layers below, not from a dead config
            want = {"loop": want["loop"]}
            cfg = base.with_overrides(hc.ConfigSource.function_annotation, **want)
        addr = id(cfg)
        if addr in seen_addr:
            reused += 1
        first_use = seen_addr.setdefault(addr, r)
        # reads in the order run_test / SEVM make them, then every option
        order = ["loop", "depth", "width", "invariant_depth", "solver_timeout_assertion", "solver_timeout_branching"] + names
        for n in order:
            got = getattr(cfg, n)
            exp = cfg.value_with_source(n)[0]
            if n in want and exp != want[n]:
                raise RuntimeError(f"harness: value_with_source({n}) = {exp!r}, overrides say {want[n]!r}")
            same = (got == exp and type(got) is type(exp)) or (got is exp)
            if not same:
                bad += 1
                stale = addr in seen_addr and first_use != r
                ctx.violation("config-isolation:option-read-differs-from-layers" + (":after-address-reuse" if stale else ""),
                              f"round {r}: a fresh per-test config ({style=}) annotated with {want} reads {n} = {got!r}, its layers say "
                              f"{exp!r}" + (f"; its address was used before by the config of round {first_use} (already freed)" if stale else ""),
                              {"kind": "config-isolation", "rounds": r + 1})
                break
        ctx.case(f"config-isolation|{style}|{r}")
        del cfg
        if r % 3 != 2:
            gc.collect()
        if bad >= 3 or (reused >= 25 and r >= 60 and ctx.tier == "quick"):
            break
    ctx.count("config-isolation:rounds", r + 1)
    ctx.count("config-isolation:address-reused", reused)
    if not reused:
        ctx.note("config-isolation: no Config address was reused within the bound (the live-object cache of this halmos keeps them alive)")


def annotation_contract(seed, name="AnnIso"):
    """one contract, four loop tests whose verdict / path count / loop-bound cuts depend on their own `@custom:halmos --loop N`
    (and, for two of them, on a contract-level `--loop` they override)"""
    from vlib.artifacts import Fn, TestContract
    from vlib.e2e import Arg, Bin, Const, LoopCheck, Param

    rng = random.Random(seed)
    combos = [(3, 6), (5, 2), (2, 3), (5, 5), (1, 1), (3, 2), (6, 7), (2, 1)]
    rng.shuffle(combos)
    checks = []
    for i, (k, bound) in enumerate(combos[:4]):
        shape = rng.choice(["while", "dowhile"])
        atoms = [Bin("EQ", Bin("AND", Arg(0), Const(7)), Const(k))]
        checks.append(LoopCheck(f"check_{i}_ann", [Param("uint256", "n")], atoms, "panic", 1, True, [k], None, "and",
                                f"loop:{shape}:{'within' if k <= bound else 'beyond'}-bound", True, [], f"--loop {bound}", shape, k, 7, bound))
    fns = [Fn("setUp()", ["STOP"])] + [Fn(c.named, c.body(), devdoc=c.devdoc) for c in checks]
    return TestContract(name, fns, natspec="@custom:halmos --loop 4"), checks


def check_annotation_isolation(ctx, seed):
    """annotation isolation through the real run_contract / run_tests: every test carries its own `--loop N`; in whatever order
    and however often the tests run in one process, each one's (verdict, paths, loop-bound cuts, warnings) equals the test run
    alone, and the effective bound is the test's own annotation (observed through SEVM's config)."""
    import halmos.sevm as hs

    desc, checks = annotation_contract(seed)
    names = [c.canon for c in checks]
    own = {c.canon: c.loop_bound for c in checks}
    replay = {"kind": "annotation-isolation", "seed": seed}
    seen_bounds = []
    orig_init = hs.SEVM.__init__

    def spy_init(self, options, fun_info, *a, **k):
        orig_init(self, options, fun_info, *a, **k)
        with contextlib.suppress(Exception):
            seen_bounds.append((fun_info.sig, options.loop, options.value_with_source("loop")[0]))

    def normed(run):
        return {r.name: norm_result(r, run, False, with_values=False) for r in run.results}

    def observe(label, run_fn):
        seen_bounds.clear()
        hs.SEVM.__init__ = spy_init
        try:
            run = run_fn()
        finally:
            hs.SEVM.__init__ = orig_init
        for sig, got, layers in seen_bounds:
            if sig in own and (got != own[sig] or layers != own[sig]):
                ctx.violation("annotation-isolation:foreign-loop-bound",
                              f"{label}: {sig} is annotated `--loop {own[sig]}` but its SEVM was built with options.loop = {got!r} "
                              f"(its config layers say {layers!r})", replay)
        return run

    # each test alone first (baseline), before anything else of this contract ran
    base = {}
    for i, t in enumerate(names):
        rx = re.escape(checks[i].name) + r"\("
        run = observe(f"{t} alone", lambda rx=rx: run_cfg(desc, [], match_test=f"^({rx})"))
        base.update(normed(run))
    for t in names:
        ctx.count(f"annotation-isolation:verdict:{base[t]['exitcode']}:loops={base[t]['loops']}")
    if len({(base[t]["exitcode"], base[t]["paths"], base[t]["loops"]) for t in names}) < 2:
        raise RuntimeError(f"annotation family is vacuous: all tests behave alike {base}")
    orders = list(itertools.permutations(range(len(names))))
    ctx.rng.shuffle(orders)
    for order in orders[: ctx.scale(5, 24)]:
        d2 = reorder(desc, order)
        for rep in range(2):
            with (no_singleton_reset() if rep else contextlib.nullcontext()):
                run = observe(f"order {order} rep {rep}", lambda d2=d2: run_cfg(d2, []))
            ctx.case(f"annotation-isolation|{seed}|{order}|{rep}")
            compare(ctx, "annotation-isolation:result-differs-from-test-alone", base, normed(run),
                    f"AnnIso seed {seed} order {order} rep {rep}", dict(replay, order=list(order), rep=rep),
                    rerun=lambda d2=d2: normed(run_cfg(d2, [])))


def check_depth_warning(ctx):
    """the `--depth` warning is emitted through the unique-message filter: the second run of the same test in one process is silent"""
    from vlib import asm
    from vlib.artifacts import Fn, TestContract

    body = []
    for _ in range(30):
        body += [1, "POP"]
    c = TestContract("DepthT", [Fn("check_long(uint256 x)", body)])
    runs = []
    for rep in range(2):
        with (no_singleton_reset() if rep else contextlib.nullcontext()):
            runs.append(run_cfg(c, [], depth=20))
    w = [[m for m in r.warnings if "--depth" in m] for r in runs]
    ctx.case("depth-warning-twice")
    ctx.count(f"depth-warning:first={len(w[0])},second={len(w[1])}")
    v = [r.by_name["check_long(uint256)"].exitcode for r in runs]
    if len(w[0]) >= 1 and len(w[1]) == 0:
        ctx.violation("repeat-in-process:depth-warning-deduplicated",
                      f"check_long run twice in one process with --depth 20: first run warns {w[0][:1]}, the second run prints no "
                      f"incomplete-execution warning (verdicts {v}): logs.warn(..., allow_duplicate=False) in SEVM.run",
                      {"kind": "depth-warning"})


def harvest_pool():
    from vlib import solvekit as K

    ints = K.harvest_ints([("sevm.py", {"run_message", "create_branch", "branch", "extend_path", "jumpi"}),
                           ("__main__.py", {"run_tests", "run_contract", "run_message"}), ("utils.py", {"uid"})])
    return [i for i in ints if i < (1 << 256)]


def correspond(ctx):
    pool = harvest_pool()
    _mods, names = uid_aliases()
    ctx.note(f"uid aliases patched: {names}")
    # fixed-cost parts first
    check_depth_warning(ctx)
    check_config_isolation(ctx)
    check_annotation_isolation(ctx, ctx.rng.randrange(1 << 40))
    check_path_branch_isolation(ctx)
    check_codehash_orders(ctx)
    check_sign_orders(ctx)
    check_core_isolation(ctx)
    check_siblings(ctx, ctx.scale(240, 1500))
    from props import c15

    specs = []
    cdir = VERIF / "corpus" / "C20"
    if cdir.exists():
        for p in sorted(cdir.glob("*.json")):
            d = json.loads(p.read_text())
            if d.get("kind") == "orders":
                specs.append((d["seed"], d.get("ntests", 3), True))
    ntests = 3 if ctx.tier == "quick" else 4
    for _ in range(ctx.scale(3, 10)):
        specs.append((ctx.rng.randrange(1 << 40), ntests, False))
    inv = [(ctx.rng.randrange(1 << 40), c15.TEMPLATES.index(c15.s_counter), 2), (ctx.rng.randrange(1 << 40), c15.TEMPLATES.index(c15.s_toggle), 3)]
    if ctx.tier != "quick":
        # the templates that carry a recorded C15 finding (block-field digest: s_clock; Path.related: s_indirect) are left to
        # C15's own check -- replaying their sequences here would report C15's known defects under this property
        skip = {c15.s_clock, c15.s_indirect}
        inv += [(ctx.rng.randrange(1 << 40), t, 2) for t in range(len(c15.TEMPLATES)) if c15.TEMPLATES[t] not in skip]
    inv = inv[: ctx.scale(2, 12)]
    ncache = ctx.scale(1, 4)
    # interleave the three kinds so that a budget stop leaves all of them covered
    k = 0
    while specs or inv or ncache:
        if k and over_budget(ctx):
            break
        if specs:
            seed, nt, directed = specs.pop(0)
            gen, base = check_orders(ctx, seed, nt, f"Iso{k}", pool)
            check_uid(ctx, gen, base, seed)
        if inv:
            seed, t, d = inv.pop(0)
            check_invariant_orders(ctx, seed, t, d)
        if ncache:
            ncache -= 1
            check_cache_orders(ctx, ctx.rng.randrange(1 << 40), 1 if (k + ctx.seed) % 2 == 0 else None, reps=ctx.scale(1, 2))
        k += 1


def replay(ctx, data) -> bool:
    d = data
    if d.get("kind") == "orders" or d.get("kind") == "uid":
        gen, base = check_orders(ctx, d["seed"], d.get("ntests", 3), d.get("name", "Iso"), d.get("pool", ()))
        check_uid(ctx, gen, base, d["seed"])
    elif d.get("kind") == "inv-orders":
        check_invariant_orders(ctx, d["seed"], d["tmpl"], d["depth"])
    elif d.get("kind") == "path-branch":
        check_path_branch_isolation(ctx)
    elif d.get("kind") == "sign-orders":
        check_sign_orders(ctx)
    elif d.get("kind") == "codehash":
        check_codehash_orders(ctx)
    elif d.get("kind") == "core-isolation":
        check_core_isolation(ctx)
    elif d.get("kind") == "cache-orders":
        check_cache_orders(ctx, d["seed"], d.get("threads"))
    elif d.get("kind") == "depth-warning":
        check_depth_warning(ctx)
    elif d.get("kind") == "config-isolation":
        check_config_isolation(ctx)
    elif d.get("kind") == "annotation-isolation":
        check_annotation_isolation(ctx, d.get("seed", 0))
    elif d.get("kind") == "sibling":
        from vlib import evmdiff
        from vlib.evmdiff import Scenario

        scn = Scenario({int(a, 16): bytes.fromhex(c) for a, c in d["code"].items()}, nargs=d["nargs"], static=d.get("static", False))
        hits = []
        with worklist_probe(lambda ex, o, s, dep: hits.append(o)):
            evmdiff.symbolic_run(scn)
        return any(hits)
    return bool(ctx.violations)
