"""Validation of the Lean Keccak (Spec.Keccak, both versions) against `eth_hash` through Driver/Keccak.lean.

Used by the C13 / C08 checks (call `validate(ctx.rng, n)`), and runnable stand-alone:

    /venv/bin/python tools/props/keccak_probe.py [n] [seed]

`validate` raises RuntimeError on the first disagreement (a wrong Spec is a broken trusted-base component, not a
violation of halmos) and returns a dict of counters otherwise.
"""
from __future__ import annotations

import random
import sys
from pathlib import Path

sys.path.insert(0, str(Path(__file__).resolve().parents[1]))

from vlib.runner import LeanDriver  # noqa: E402

BOUNDARY_LENGTHS = [0, 1, 2, 7, 8, 9, 31, 32, 33, 63, 64, 65, 134, 135, 136, 137, 138, 199, 200, 271, 272, 273,
                    407, 408, 409, 543, 544, 545]

SIGNATURES = [
    "transfer(address,uint256)", "assertTrue(bool)", "log(string,uint256)", "Panic(uint256)", "Error(string)",
    "f()", "", "x", "assertEq(bytes32[],bytes32[],string)", "naïve(uint256)", "日本語()",
]


def _keccak(data: bytes) -> bytes:
    from eth_hash.auto import keccak

    return keccak(data)


def gen_inputs(rng: random.Random, n: int):
    """(kind, bytes) — boundary lengths with several fill patterns first, then random lengths/contents"""
    out = []
    for ln in BOUNDARY_LENGTHS:
        out.append(("boundary-zero", bytes(ln)))
        out.append(("boundary-ff", b"\xff" * ln))
        out.append(("boundary-rand", rng.randbytes(ln)))
    while len(out) < n:
        r = rng.random()
        if r < 0.45:
            ln = rng.randrange(0, 70)
            kind = "short"
        elif r < 0.80:
            ln = rng.randrange(70, 300)
            kind = "around-rate"
        elif r < 0.95:
            ln = rng.choice(BOUNDARY_LENGTHS) + rng.choice([0, 136, 272])
            kind = "boundary+k*rate"
        else:
            ln = rng.randrange(300, 1200)
            kind = "long"
        pat = rng.random()
        if pat < 0.8:
            b = rng.randbytes(ln)
        elif pat < 0.9:
            b = bytes([rng.choice([0, 1, 0x80, 0xFF, 0x7F])]) * ln
        else:  # sparse: one non-zero byte, exercises padding positions
            b = bytearray(ln)
            if ln:
                b[rng.randrange(ln)] = rng.randrange(1, 256)
            b = bytes(b)
        out.append((kind, b))
    return out


def validate(rng: random.Random, n: int = 1000, n_ref: int | None = None, count=None) -> dict:
    """n inputs through the packed version; the first n_ref (default n) also through the reference version."""
    inputs = gen_inputs(rng, n)
    n_ref = len(inputs) if n_ref is None else min(n_ref, len(inputs))
    lines, expect, what = [], [], []
    for i, (kind, b) in enumerate(inputs):
        h = _keccak(b).hex()
        lines.append("hash " + (b.hex() or "-"))
        expect.append(h)
        what.append(("fast", kind, b))
        if i < n_ref:
            lines.append("href " + (b.hex() or "-"))
            expect.append(h)
            what.append(("ref", kind, b))
        if count:
            count(f"keccak:{kind}")
    # big-endian word preimages (what the hash tables use)
    for _ in range(max(20, n // 20)):
        ln = rng.choice([32, 64, 32, 64, 1, 20, 96])
        v = rng.choice([0, 1, rng.getrandbits(8 * ln), (1 << (8 * ln)) - 1, rng.getrandbits(16)])
        lines.append(f"hashbe {ln} {v:x}")
        expect.append(_keccak((v % (1 << (8 * ln))).to_bytes(ln, "big")).hex())  # keccak256BE truncates
        what.append(("be", f"len{ln}", v))
    for s in SIGNATURES:
        lines.append("selector " + s)
        expect.append(_keccak(s.encode()).hex()[:8])
        what.append(("selector", "sig", s))
    got = LeanDriver("Keccak").ask(lines)
    bad = [(w, e, g) for w, e, g in zip(what, expect, got) if e != g]
    if bad:
        w, e, g = bad[0]
        raise RuntimeError(
            f"Lean Spec.Keccak disagrees with eth_hash on {len(bad)} of {len(lines)} requests; first: "
            f"{w[0]} {w[1]} input={w[2].hex() if isinstance(w[2], bytes) else w[2]!r} expected={e} got={g}"
        )
    return {"requests": len(lines), "inputs": len(inputs), "ref_inputs": n_ref,
            "max_len": max(len(b) for _, b in inputs)}


if __name__ == "__main__":
    n = int(sys.argv[1]) if len(sys.argv) > 1 else 1000
    seed = int(sys.argv[2]) if len(sys.argv) > 2 else 0
    import time

    t = time.time()
    print(validate(random.Random(seed), n), f"{time.time() - t:.1f}s")
