"""OffsetMap (utils.py) against the Lean model — helpers for the C08 check.

    OffsetMap = load_offsetmap()                    the real class, imported from $HALMOS_REPO/src
    probe(OffsetMap)            -> "current" | "fixed" | "other"      behavioural classification (deterministic battery)
    source_variant()            -> "current" | "other"                the three methods' source equals the pinned text
    replay_cex(OffsetMap)       -> dict | None      the witness of Lean `offsetmap_lookup_cex` on the real class
                                                    (dict describing the failure if it still reproduces)
    spec_violations(OffsetMap, rng, n, count=None) -> list[dict]
                                                    direct test of the intended property  m[k]=v ⇒ m[k+d] == (v, d), d < 2^bits
    differential(OffsetMap, rng, n, variant, count=None, case=None) -> dict
                                                    random + boundary scenarios on the real class vs Driver/OffsetMap.lean
                                                    (Model.OffsetMap `lookup` for "current", `lookupFixed` for "fixed");
                                                    raises RuntimeError on a disagreement (stale model)
    harvest_literals()          -> set[int]         integer literals in the source of class OffsetMap (and ±1)

Lean side: Model/OffsetMap.lean, Props/C08OffsetMap.lean (offsetmap_lookup_cex / _partial / _miss / offsetmap_lookupFixed).
"""
from __future__ import annotations

import ast
import random
import sys
from pathlib import Path

sys.path.insert(0, str(Path(__file__).resolve().parents[1]))

from vlib.runner import REPO, LeanDriver  # noqa: E402

# keccak256(abi.encode(17573)) — low 16 bits 0xffff — and keccak256(abi.encode(143)) — 193 below a boundary
CEX_KEY = 0x570DA5403F55F9196C83E1B7F4B48A093CBDA5BE622887C46400E4505546FFFF
CEX_DELTA = 5
KEY_143 = 0x337F7913DB22D91EF425F82102BC8075EF67E23A2BE359965EA316E78E1EFF3F

PINNED_SOURCE = {
    "__init__": "self._map = {}\nself._offset_bits = offset_bits\nself._mask = (1 << offset_bits) - 1",
    "__getitem__": "value, offset = self._map.get(key >> self._offset_bits, (None, None))\n"
                   "if value is None:\n    return (None, None)\n"
                   "delta = (key & self._mask) - offset\nreturn (value, delta)",
    "__setitem__": "raw_key = key >> self._offset_bits\nraw_value = (value, key & self._mask)\n"
                   "assert (existing := self._map.get(raw_key)) is None or existing == raw_value\n"
                   "self._map[raw_key] = raw_value",
    "copy": "new_map = OffsetMap(self._offset_bits)\nnew_map._map = self._map.copy()\nreturn new_map",
}


def load_offsetmap():
    src = str(Path(REPO) / "src")
    if src not in sys.path[:1]:
        sys.path.insert(0, src)
    from halmos.utils import OffsetMap

    return OffsetMap


def _class_node():
    p = Path(REPO) / "src" / "halmos" / "utils.py"
    tree = ast.parse(p.read_text())
    cls = [n for n in tree.body if isinstance(n, ast.ClassDef) and n.name == "OffsetMap"]
    if len(cls) != 1:
        raise RuntimeError("utils.py: class OffsetMap not found exactly once")
    return cls[0]


def _body_text(fn: ast.FunctionDef) -> str:
    body = fn.body
    if body and isinstance(body[0], ast.Expr) and isinstance(body[0].value, ast.Constant) and isinstance(body[0].value.value, str):
        body = body[1:]  # docstring
    return "\n".join(ast.unparse(s) for s in body)


def source_variant() -> str:
    cls = _class_node()
    fns = {n.name: n for n in cls.body if isinstance(n, ast.FunctionDef)}
    if set(fns) != set(PINNED_SOURCE):
        return "other"
    for name, text in PINNED_SOURCE.items():
        if _body_text(fns[name]) != text:
            return "other"
    return "current"


def harvest_literals() -> set[int]:
    out = set()
    for n in ast.walk(_class_node()):
        if isinstance(n, ast.Constant) and type(n.value) is int:
            out |= {n.value, n.value + 1, max(n.value - 1, 0)}
    return out


# ---------------------------------------------------------------- python renderings of the two Lean models
class _RefCurrent:
    def __init__(self, bits=16):
        self.bits, self.map = bits, {}

    def get(self, key):
        hi, lo = key >> self.bits, key & ((1 << self.bits) - 1)
        if hi in self.map:
            v, off = self.map[hi]
            return (v, lo - off)
        return None

    def set(self, key, value):
        hi, lo = key >> self.bits, key & ((1 << self.bits) - 1)
        if hi in self.map and self.map[hi] != (value, lo):
            return False
        self.map[hi] = (value, lo)
        return True


class _RefFixed(_RefCurrent):
    def get(self, key):
        hi, lo = key >> self.bits, key & ((1 << self.bits) - 1)
        if hi in self.map:
            v, off = self.map[hi]
            return (v, lo - off)
        if hi > 0 and hi - 1 in self.map:
            v, off = self.map[hi - 1]
            return (v, lo + (1 << self.bits) - off)
        return None


def _run_real(OffsetMap, bits, ops):
    m = OffsetMap(bits) if bits != 16 else OffsetMap()
    out = []
    for op in ops:
        if op[0] == "s":
            try:
                m[op[1]] = op[2]
                out.append("ok")
            except AssertionError:
                out.append("assert")
        else:
            v, d = m[op[1]]
            out.append("none" if v is None and d is None else f"{v},{d}")
    return out


def _run_ref(cls, bits, ops):
    m = cls(bits)
    out = []
    for op in ops:
        if op[0] == "s":
            out.append("ok" if m.set(op[1], op[2]) else "assert")
        else:
            r = m.get(op[1])
            out.append("none" if r is None else f"{r[0]},{r[1]}")
    return out


def _battery():
    """deterministic scenarios separating current / fixed / anything else"""
    rng = random.Random(0xC08)
    scen = [
        (16, [("s", CEX_KEY, 1), ("g", CEX_KEY), ("g", CEX_KEY + 1), ("g", CEX_KEY + CEX_DELTA), ("g", CEX_KEY - 3),
              ("g", CEX_KEY + 0xFFFF), ("g", CEX_KEY + 0x10000), ("g", CEX_KEY + 0x10001)]),
        (16, [("s", KEY_143, 2), ("g", KEY_143 + 192), ("g", KEY_143 + 193), ("g", KEY_143 + 0xFFFF), ("g", KEY_143 - 0xFF3F),
              ("g", KEY_143 - 0xFF40)]),
        (16, [("s", 0, 0), ("g", 0), ("g", 5), ("g", 0xFFFF), ("g", 0x10000), ("s", 7, 0), ("s", 0, 3), ("s", 0, 0)]),
    ]
    for _ in range(60):
        scen.append(gen_scenario(rng, set()))
    return scen


def probe(OffsetMap) -> str:
    cur = fix = True
    for bits, ops in _battery():
        try:
            real = _run_real(OffsetMap, bits, ops)
        except Exception:
            return "other"
        cur = cur and real == _run_ref(_RefCurrent, bits, ops)
        fix = fix and real == _run_ref(_RefFixed, bits, ops)
        if not cur and not fix:
            return "other"
    return "current" if cur else "fixed"


def replay_cex(OffsetMap, key=CEX_KEY, delta=CEX_DELTA, value=1):
    m = OffsetMap()
    m[key] = value
    got = m[key + delta]
    if got != (value, delta):
        return {"op": "m = OffsetMap(); m[key] = value; m[key + delta]", "key": hex(key), "delta": delta,
                "value": value, "expected": [value, delta], "got": list(got)}
    return None


# ---------------------------------------------------------------- generators
def _bits_choice(rng):
    r = rng.random()
    return 16 if r < 0.7 else rng.choice([1, 2, 4, 8, 12, 20, 64])


def _base_key(rng, bits, pool):
    mask = (1 << bits) - 1
    r = rng.random()
    if r < 0.15:
        return rng.choice([CEX_KEY, KEY_143])
    if r < 0.25 and pool:
        return rng.choice(sorted(pool))
    hi = rng.choice([0, 1, 2, rng.getrandbits(8), rng.getrandbits(240)])
    lo = rng.choice([0, 1, 2, mask // 2, mask - 2, mask - 1, mask, rng.getrandbits(bits) if bits else 0]) & mask
    return (hi << bits) | lo


def gen_scenario(rng, pool):
    bits = _bits_choice(rng)
    span = 1 << bits
    ops, bases = [], []
    for _ in range(rng.randrange(1, 4)):
        k = _base_key(rng, bits, pool)
        bases.append(k)
        ops.append(("s", k, rng.choice([0, 1, 2, 3, 4])))
        for _ in range(rng.randrange(1, 5)):
            b = rng.choice(bases)
            lo = b & (span - 1)
            d = rng.choice([0, 1, 2, span - lo - 1, span - lo, span - lo + 1, span - 1, span, span + 1, -1, -lo, -lo - 1,
                            -(span - 1), rng.randrange(span), -rng.randrange(span), rng.randrange(4 * span)])
            ops.append(("g", max(b + d, 0)))
        if rng.random() < 0.3:  # write into an occupied bucket: same binding (ok) or another one (assert)
            b = rng.choice(bases)
            ops.append(("s", b + rng.choice([0, 0, 1, -1 if b else 0]), rng.choice([0, 1, 2])))
    return bits, ops


def _line(variant, bits, ops):
    return f"run {variant} {bits} " + ";".join(
        (f"s {o[1]:x} {o[2]}" if o[0] == "s" else f"g {o[1]:x}") for o in ops)


def differential(OffsetMap, rng, n, variant, count=None, case=None):
    assert variant in ("current", "fixed")
    pool = harvest_literals()
    scen = _battery() + [gen_scenario(rng, pool) for _ in range(n)]
    real = [_run_real(OffsetMap, b, ops) for b, ops in scen]
    lean = LeanDriver("OffsetMap").ask([_line(variant, b, ops) for b, ops in scen])
    nops = 0
    for (b, ops), r, l in zip(scen, real, lean):
        nops += len(ops)
        if count:
            count(f"offsetmap:bits={b}")
            for o, x in zip(ops, r):
                count("offsetmap:" + ("set-" + x if o[0] == "s" else "get-" + ("miss" if x == "none" else "hit")))
        if case:
            case(("offsetmap", b, tuple(ops)))
        if ";".join(r) != l:
            raise RuntimeError(f"OffsetMap: real class and Lean model ({variant}) disagree on bits={b} ops={ops}: "
                               f"real={r} lean={l.split(';')}")
    return {"scenarios": len(scen), "ops": nops, "variant": variant}


def spec_violations(OffsetMap, rng, n, count=None):
    """m[k] = v on an empty map, then m[k + d] for 0 ≤ d < 2^bits must be (v, d)"""
    out = []
    pool = harvest_literals()
    cases = [(16, CEX_KEY, CEX_DELTA), (16, KEY_143, 193), (16, KEY_143, 192), (16, CEX_KEY, 1), (16, CEX_KEY, 0xFFFF)]
    for _ in range(n):
        bits = _bits_choice(rng)
        k = _base_key(rng, bits, pool)
        span = 1 << bits
        lo = k & (span - 1)
        d = rng.choice([0, 1, span - lo - 1, span - lo, span - lo + 1, span - 1, rng.randrange(span)])
        cases.append((bits, k, min(max(d, 0), span - 1)))
    for bits, k, d in cases:
        m = OffsetMap(bits)
        m[k] = 1
        got = m[k + d]
        crossing = (k & ((1 << bits) - 1)) + d >= (1 << bits)
        if count:
            count("offsetmap-spec:" + ("crossing" if crossing else "same-bucket"))
        if got != (1, d):
            out.append({"bits": bits, "key": hex(k), "delta": d, "crossing": crossing, "expected": [1, d], "got": list(got)})
    return out


if __name__ == "__main__":
    OM = load_offsetmap()
    print("probe:", probe(OM), " source:", source_variant(), " cex:", replay_cex(OM))
    rng = random.Random(1)
    print(differential(OM, rng, 400, "current" if probe(OM) != "fixed" else "fixed"))
    v = spec_violations(OM, rng, 300)
    print("spec violations:", len(v), v[:2])
