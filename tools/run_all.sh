#!/bin/bash
# run every registered quick check on the current tree, then validate MANIFEST and the evidence files against the schemas
cd "$(dirname "$0")/.."
ids=${@:-$(python3 -c "import json;print(' '.join(c['property_id'] for c in json.load(open('MANIFEST.json'))['checks']))")}
for p in $ids; do
  ./check $p --tier ${VERIF_TIER:-quick} 2>&1 | grep -v WARNING | grep "^\[C\|^VIOLATION" | cut -c1-180
done
python3-vt - <<'PY'
import json, jsonschema, glob
jsonschema.validate(json.load(open('MANIFEST.json')), json.load(open('/root/.vp/MANIFEST.schema.json')))
sch = json.load(open('/root/.vp/EVIDENCE.schema.json'))
bad = 0
for c in json.load(open('MANIFEST.json'))['checks']:
    f = c['evidence_file']
    try:
        e = json.load(open(f)); jsonschema.validate(e, sch)
        cov = e['coverage']
        assert cov['discharged'] == cov['obligations'] >= 1, (cov['discharged'], cov['obligations'])
        assert e['violations'] == 0, e['violations']
    except Exception as ex:
        bad += 1; print(f, 'PROBLEM', str(ex)[:150])
print('manifest valid; evidence problems:', bad)
PY
