#!/usr/bin/env python3
"""Print the markdown table of seeded changes (DESIGN.md §8.4) from seeded/*/meta.json and result.json.

  tools/seed_table.py            print the table
  tools/seed_table.py --update   replace the block between the SEED-TABLE markers in DESIGN.md
"""
import json
import sys
from pathlib import Path

VERIF = Path(__file__).resolve().parents[1]
BEGIN, END = "<!-- SEED-TABLE:BEGIN -->", "<!-- SEED-TABLE:END -->"


def outcome(o):
    if o["exit"] == 1 and o["violations"]:
        nf = all("no-failing-input-found" in v for v in o["first"]) if o["first"] else False
        return "obligation-only" if nf else f"{o['violations']} concrete"
    return "missed"


def table():
    rows = []
    for d in sorted((VERIF / "seeded").iterdir()):
        if not (d / "meta.json").exists():
            continue
        meta = json.loads((d / "meta.json").read_text())
        res = json.loads((d / "result.json").read_text()) if (d / "result.json").exists() else []
        confirmed = any(r.get("confirm", {}).get("confirmed") for r in res)
        first, latest = {}, {}
        for r in res:
            for c, o in r.get("checks", {}).items():
                first.setdefault(c, o)
                latest[c] = o
        cells = []
        for c in sorted(latest):
            a, b = outcome(first[c]), outcome(latest[c])
            cells.append(f"{c}: {b}" + (f" (first run: {a}; check strengthened since)" if a != b and not b.startswith("missed") and not a.endswith("concrete") else ""))
        summ = " ".join(str(meta.get("summary", "")).split())[:260].replace("|", "\\|")
        needs = " ".join(str(meta.get("needs", "")).split())[:200].replace("|", "\\|")
        if meta.get("note"):
            needs += " — *note:* " + " ".join(str(meta["note"]).split()).replace("|", "\\|")
        rows.append(f"| {d.name} | {meta.get('property')} | {summ} — *needs:* {needs} | {'yes' if confirmed else 'no'} | {'; '.join(cells) or 'not run yet'} |")
    head = ("| Seed | Property | Change — what it needs to manifest | Confirmed | Latest outcome of the checks run against it |\n"
            "|------|----------|------------------------------------|-----------|----------------------------------------------|\n")
    return head + "\n".join(rows) + "\n"


def main():
    t = table()
    if "--update" in sys.argv:
        p = VERIF / "DESIGN.md"
        s = p.read_text()
        a, b = s.index(BEGIN) + len(BEGIN), s.index(END)
        p.write_text(s[:a] + "\n" + t + s[b:])
    else:
        print(t)


main()
