#!/usr/bin/env python3
"""Print the markdown table of seeded changes (DESIGN.md §8.4) from seeded/*/meta.json and result.json."""
import json
from pathlib import Path

VERIF = Path(__file__).resolve().parents[1]


def main():
    rows = []
    for d in sorted((VERIF / "seeded").iterdir()):
        if not (d / "meta.json").exists():
            continue
        meta = json.loads((d / "meta.json").read_text())
        res = json.loads((d / "result.json").read_text()) if (d / "result.json").exists() else []
        confirmed = any(r.get("confirm", {}).get("confirmed") for r in res)
        # latest outcome per check
        latest = {}
        for r in res:
            for c, o in r.get("checks", {}).items():
                latest[c] = o
        caught = []
        for c, o in sorted(latest.items()):
            if o["exit"] == 1 and o["violations"]:
                nf = all("no-failing-input-found" in v for v in o["first"]) if o["first"] else False
                caught.append(f"{c}: {'broken obligation only (no-failing-input-found)' if nf else str(o['violations']) + ' concrete violation(s)'}")
            else:
                caught.append(f"{c}: not caught")
        summ = " ".join(str(meta.get("summary", "")).split())[:230]
        needs = " ".join(str(meta.get("needs", "")).split())[:160]
        rows.append(f"| {d.name} | {meta.get('property')} | {summ} — needs: {needs} | {'yes' if confirmed else 'no'} | {'; '.join(caught)} |")
    print("| Seed | Property | Change — what it needs to manifest | Confirmed | Latest outcome per check run against it |")
    print("|------|----------|------------------------------------|-----------|------------------------------------------|")
    print("\n".join(rows))


main()
