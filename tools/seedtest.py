#!/usr/bin/env python3
"""Run registered checks against a seeded change kept under /verif/seeded/<name>/ (patch.diff, demo.py, meta.json).

  tools/seedtest.py <name> [--checks C06,C01] [--tier quick] [--confirm]

--confirm: in a scratch worktree, verify the three claims first (demo passes without the patch, fails with it,
           baseline test suite passes with it).
Applies the patch to /repo (git apply), runs the checks, and ALWAYS restores /repo (git checkout -- .) afterwards.
Appends the outcome to seeded/<name>/result.json.
"""
import argparse
import json
import os
import subprocess
import sys
import tempfile
import time
from pathlib import Path

VERIF = Path(__file__).resolve().parents[1]
PY = "/venv/bin/python"


def sh(cmd, cwd=None, env=None, timeout=3600):
    e = dict(os.environ)
    if env:
        e.update(env)
    p = subprocess.run(cmd, cwd=cwd, env=e, shell=isinstance(cmd, str), stdout=subprocess.PIPE, stderr=subprocess.STDOUT, text=True, timeout=timeout)
    return p.returncode, p.stdout


def confirm(d: Path):
    wt = tempfile.mkdtemp(prefix="seedconfirm_")
    os.rmdir(wt)
    rc, out = sh(["git", "-C", "/repo", "worktree", "add", "--detach", wt, "HEAD"])
    assert rc == 0, out
    res = {}
    try:
        env = {"PYTHONPATH": f"{wt}/src"}
        pid = json.loads((d / "meta.json").read_text())["property"]
        demo = (d / "demo.py").read_text()
        for pat in (f"/tmp/seedB_{pid}", f"/tmp/seedC_{pid}", f"/tmp/seedD_{pid}", f"/tmp/seedE_{pid}", f"/tmp/seedF_{pid}", f"/tmp/seedG_{pid}", f"/tmp/seedH_{pid}", f"/tmp/seedI_{pid}", f"/tmp/seedJ_{pid}", f"/tmp/seedK_{pid}", f"/tmp/seed_{pid}", f"/tmp/seed_{d.name}"):
            demo = demo.replace(pat, wt)
        Path(wt, "demo.py").write_text(demo)
        rc0, out0 = sh([PY, "demo.py"], cwd=wt, env=env, timeout=900)
        res["demo_without_patch_rc"] = rc0
        rc, out = sh(["git", "apply", str(d / "patch.diff")], cwd=wt)
        res["patch_applies"] = rc == 0
        rc1, out1 = sh([PY, "demo.py"], cwd=wt, env=env, timeout=900)
        res["demo_with_patch_rc"] = rc1
        res["demo_with_patch_tail"] = out1.strip().splitlines()[-3:]
        rc2, out2 = sh([PY, "-m", "pytest", "-q", "-p", "no:cacheprovider", "--timeout=900", "tests"], cwd=wt, env=env, timeout=1800)
        res["suite_tail"] = out2.strip().splitlines()[-1:]
        res["suite_306_passed"] = "306 passed" in out2
        res["confirmed"] = rc0 == 0 and rc1 != 0 and res["patch_applies"] and res["suite_306_passed"]
    finally:
        sh(["git", "-C", "/repo", "worktree", "remove", "--force", wt])
    return res


def main():
    ap = argparse.ArgumentParser()
    ap.add_argument("name")
    ap.add_argument("--checks")
    ap.add_argument("--tier", default="quick")
    ap.add_argument("--confirm", action="store_true")
    ap.add_argument("--inplace", action="store_true")
    a = ap.parse_args()
    d = VERIF / "seeded" / a.name
    meta = json.loads((d / "meta.json").read_text())
    checks = a.checks.split(",") if a.checks else [meta["property"]]
    result = {"at": time.strftime("%Y-%m-%d %H:%M"), "tier": a.tier, "checks": {}}
    if a.confirm:
        result["confirm"] = confirm(d)
        print("confirm:", json.dumps(result["confirm"]))
    # the patch is applied to a scratch worktree of /repo's HEAD and the checks are pointed at it (HALMOS_REPO), so that
    # other work reading /repo is not disturbed; `--inplace` applies it to /repo itself instead (git apply / checkout)
    if a.inplace:
        rc, out = sh(["git", "-C", "/repo", "status", "--porcelain", "--untracked-files=no"])
        if out.strip():
            sys.exit("refusing: /repo has uncommitted changes")
        rc, out = sh(["git", "-C", "/repo", "apply", str(d / "patch.diff")])
        if rc != 0:
            sys.exit("patch does not apply to /repo: " + out)
        env = {}
        wt = None
    else:
        wt = tempfile.mkdtemp(prefix="seedrun_")
        os.rmdir(wt)
        rc, out = sh(["git", "-C", "/repo", "worktree", "add", "--detach", wt, "HEAD"])
        assert rc == 0, out
        rc, out = sh(["git", "apply", str(d / "patch.diff")], cwd=wt)
        if rc != 0:
            sh(["git", "-C", "/repo", "worktree", "remove", "--force", wt])
            sys.exit("patch does not apply: " + out)
        env = {"HALMOS_REPO": wt, "PYTHONPATH": f"{wt}/src"}
    # the checks run from a scratch copy of /verif (Lean project with its build output, tools, known findings), so that the
    # Gen files regenerated from the changed source and the evidence written there never disturb a check of the real tree
    # that runs at the same time
    run_dir = VERIF
    if not a.inplace:
        run_dir = Path(tempfile.mkdtemp(prefix="verifrun_"))
        rc, out = sh(["rsync", "-a", "--exclude", ".git", "--exclude", "seeded", "--exclude", "replays", "--exclude", "findings",
                      "--exclude", "__pycache__", f"{VERIF}/", f"{run_dir}/"])
        assert rc == 0, out
    try:
        for c in checks:
            t0 = time.time()
            rc, out = sh(["./check", c, "--tier", a.tier], cwd=run_dir, env=env, timeout=7200)
            lines = [l for l in out.splitlines() if l.startswith(("VIOLATION", "KNOWN-FINDING", "[" + c))]
            viol = [l for l in lines if l.startswith("VIOLATION")]
            result["checks"][c] = {"exit": rc, "violations": len(viol), "first": viol[:3], "summary": lines[-1:], "wall_s": round(time.time() - t0)}
            print(c, "exit", rc, "violations", len(viol), (viol[0][:160] if viol else ""))
            for v in viol[:1]:
                rp = v.split("replay=")[1].split()[0]
                src = run_dir / rp
                if src.exists():
                    (d / f"detected_{c}.json").write_text(src.read_text())
    finally:
        if a.inplace:
            sh(["git", "-C", "/repo", "checkout", "--", "."])
        else:
            sh(["git", "-C", "/repo", "worktree", "remove", "--force", wt])
            sh(["rm", "-rf", str(run_dir)])
        if a.inplace:
            # regenerate Gen files against the real tree and restore the committed evidence
            sh([PY, "tools/setup_all.py"], cwd=VERIF)
            sh(["git", "checkout", "--", "evidence"], cwd=VERIF)
    hist = []
    rp = d / "result.json"
    if rp.exists():
        hist = json.loads(rp.read_text())
    hist.append(result)
    rp.write_text(json.dumps(hist, indent=1))


main()
