"""Run every extractor (tools/extract/*.py with main()) so that lean/HalmosVerif/Gen is current before `lake build`."""
import importlib
import sys
from pathlib import Path

sys.path.insert(0, str(Path(__file__).resolve().parent))
ok = True
for p in sorted((Path(__file__).resolve().parent / "extract").glob("*.py")):
    if p.name.startswith("_"):
        continue
    try:
        importlib.import_module(f"extract.{p.stem}").main()
        print(f"extract.{p.stem}: ok")
    except Exception as e:  # noqa: BLE001
        ok = False
        print(f"extract.{p.stem}: FAILED {type(e).__name__}: {e}")
sys.exit(0 if ok else 1)
